"""Path runner: decisions, path condition, obligations, symbolic inputs from shapes."""
import time
import z3
import os
import sys
from . import spec as S
from .vals import *


def _is_ground_term(e, cache):
    k = e.get_id()
    if k in cache:
        return cache[k]
    r = not z3.is_var(e) and all(_is_ground_term(ch, cache) for ch in e.children())
    cache[k] = r
    return r


_COMMON = {'items', 'pack', 'truthy', 'isinst', 'ev', 'int2dec', 'dec2int', 'obj_truthy', 'val_lt', 'hash'}


def _symbols(e, memo, out):
    k = e.get_id()
    if k in memo:
        return
    memo.add(k)
    if z3.is_quantifier(e):
        _symbols(e.body(), memo, out)
        return
    if z3.is_app(e):
        d = e.decl()
        if d.kind() == z3.Z3_OP_UNINTERPRETED and d.name() not in _COMMON:
            out.add(d.name())
        for ch in e.children():
            _symbols(ch, memo, out)


def relevant(hyps, goal, rounds=2):
    """the hypotheses within `rounds` steps of the goal in the shares-an-uninterpreted-symbol relation"""
    syms = set()
    _symbols(goal, set(), syms)
    hs = []
    for h in hyps:
        o = set()
        _symbols(h, set(), o)
        hs.append(o)
    keep = [False] * len(hyps)
    for _ in range(rounds):
        new = set()
        for k, o in enumerate(hs):
            if not keep[k] and (o & syms or not o):
                keep[k] = True
                new |= o
        if not new - syms:
            break
        syms |= new
    return [h for h, k in zip(hyps, keep) if k]


def has_quantifier(e, memo=None):
    """memo is per call: z3 ast ids are only unique among live terms"""
    if memo is None:
        memo = {}
    k = e.get_id()
    if k in memo:
        return memo[k]
    r = False
    if z3.is_quantifier(e):
        r = True
    else:
        for ch in e.children():
            if has_quantifier(ch, memo):
                r = True
                break
    memo[k] = r
    return r


class Unsupported(Exception):
    pass


class PathEnd(Exception):
    pass


class ReturnEx(Exception):
    def __init__(self, value):
        self.value = value


class BreakEx(Exception):
    pass


class ContinueEx(Exception):
    pass


class PyRaise(Exception):
    """a modelled Python exception propagating in the code under verification"""
    def __init__(self, exc, lineno=None, why=''):
        self.exc, self.lineno, self.why = exc, lineno, why

    def __str__(self):
        return f'{self.exc}@{self.lineno} {self.why}'


EXC_PARENTS = {
    'IndexError': 'LookupError', 'KeyError': 'LookupError', 'LookupError': 'Exception',
    'TypeError': 'Exception', 'ValueError': 'Exception', 'AttributeError': 'Exception',
    'ZeroDivisionError': 'ArithmeticError', 'OverflowError': 'ArithmeticError',
    'InvalidOperation': 'ArithmeticError', 'ArithmeticError': 'Exception',
    'StopIteration': 'Exception', 'AssertionError': 'Exception', 'NotImplementedError': 'RuntimeError',
    'RuntimeError': 'Exception', 'Exception': 'BaseException',
    'CompilationError': 'ProgrammingError', 'ParseError': 'ProgrammingError',
    'ProgrammingError': 'DatabaseError', 'DatabaseError': 'Error', 'Error': 'Exception',
}


def exc_isa(name, parent):
    while name is not None:
        if name == parent:
            return True
        name = EXC_PARENTS.get(name)
    return False


class Obligation:
    def __init__(self, oid, kind, label, verdict, seconds=0.0, model=None, lineno=None, detail='', backend='z3', tier='T1'):
        self.oid, self.kind, self.label, self.verdict = oid, kind, label, verdict
        self.seconds, self.model, self.lineno, self.detail, self.backend, self.tier = seconds, model, lineno, detail, backend, tier

    def asdict(self):
        return {k: getattr(self, k) for k in ('oid', 'kind', 'label', 'verdict', 'seconds', 'model', 'lineno', 'detail', 'backend', 'tier')}


class Budget:
    def __init__(self, timeout_ms=10000, feas_ms=3000):
        self.timeout_ms, self.feas_ms = timeout_ms, feas_ms


class PathRun:
    """One execution of the interpreter along a vector of decisions."""

    def __init__(self, driver, prefix):
        self.d = driver
        self.prefix = prefix          # list of (decision, certain)
        self.taken = []
        self.forks = []
        self.pc = []
        self.pc_tags = {}      # index into pc -> tag, for assumptions that may be dropped when a proof attempt times out
        self.heap = {}
        self.pre_heap = None
        self.next_oid = 1
        self.fresh_n = 0
        self.inputs = {}              # name -> (shape, SV) for model concretisation
        self.certain = True
        self.yielded = None
        self.depth = 0
        self.tier = 'T1'
        self.handles = 0
        self.gcache = {}
        self.ctor_info = {}     # decl name of a pure constructor -> [(field name, field array)] (projection facts, see prove)
        self.fields = {}       # attribute name -> current z3 Array(Val -> Val): mutable attributes of opaque objects
        self.fields0 = {}
        self.pre_fields = {}
        self.allocp = z3.IntVal(-1)   # identity of the next object constructed during the call: fresh objects get alloc, alloc-1, ...

    # -- naming ---------------------------------------------------------
    def fresh(self, base):
        self.fresh_n += 1
        return f'{base}!{self.fresh_n}'

    # -- solver ---------------------------------------------------------
    def _solver(self, ms):
        s = z3.Solver()
        s.set('timeout', ms)
        return s

    def feasible(self, cond):
        # over-approximation: quantified facts and background axioms are left out (a path that is
        # only infeasible because of them is explored anyway; its obligations then hold trivially)
        s = z3.Solver()
        s.set('timeout', self.d.budget.feas_ms)
        for c in self.flat_pc():
            if not has_quantifier(c):
                s.add(c)
        s.add(cond)
        t0 = time.time()
        r = s.check()
        self.d.solver_time += time.time() - t0
        return str(r)

    def flat_pc(self):
        """the path condition with top-level conjunctions split (so that the ground conjuncts of a formula that also has a
        quantified conjunct stay available to the quantifier-free passes)"""
        out = []

        def split(c):
            if z3.is_and(c):
                for ch in c.children():
                    split(ch)
            else:
                out.append(c)
        for c in self.pc:
            split(c)
        return out

    def assume(self, cond):
        if isinstance(cond, bool):
            cond = z3.BoolVal(cond)
        self.pc.append(cond)

    def decide(self, options, certain=True):
        """generic decision point; options: list of alternatives to explore"""
        pos = len(self.taken)
        if pos < len(self.prefix):
            dct, cert = self.prefix[pos]
        else:
            dct, cert = options[0], certain
            for alt in options[1:]:
                self.forks.append(self.taken + [(alt, certain)])
        self.taken.append((dct, cert))
        if not cert:
            self.certain = False
        return dct

    def branch(self, cond):
        """python-level boolean decision on a z3 Bool; extends the path condition."""
        if isinstance(cond, bool):
            return cond
        c = z3.simplify(cond)
        if z3.is_true(c):
            return True
        if z3.is_false(c):
            return False
        pos = len(self.taken)
        if pos < len(self.prefix):
            dct = self.decide([True])
        else:
            ft = self.feasible(c)
            ff = self.feasible(z3.Not(c))
            cert = ft != 'unknown' and ff != 'unknown'
            if ft != 'unsat' and ff != 'unsat':
                dct = self.decide([True, False], cert)
            elif ft != 'unsat':
                dct = self.decide([True], cert)
            elif ff != 'unsat':
                dct = self.decide([False], cert)
            else:
                raise PathEnd()
        self.pc.append(c if dct else z3.Not(c))
        return dct

    def choose(self, n):
        return self.decide(list(range(n)))

    def path_id(self):
        out = []
        for d, _ in self.taken:
            if isinstance(d, bool): out.append('T' if d else 'F')
            elif isinstance(d, tuple): out.append(f'c{d[1]}:')
            else: out.append(str(d))
        return ''.join(out)

    # -- obligations ------------------------------------------------------
    def prove(self, goal, kind, label, lineno=None, detail='', assume=True, focus=None, part=0):
        """record an obligation pc => goal; afterwards assume goal (unless it is an end-of-path goal: piling proved
        quantified goals onto the path condition only makes the remaining ones harder)."""
        key = (kind, label, lineno, tuple(self.taken), part)    # part: index of the conjunct when one clause is proved conjunct-wise
        if isinstance(goal, bool):
            goal = z3.BoolVal(goal)
        if key not in self.d.ob_cache:
            g = z3.simplify(goal)
            if z3.is_true(g):
                ob = Obligation(self.d.ob_id(kind, label), kind, label, 'proved', 0.0, lineno=lineno, detail='trivial', tier=self.tier)
            else:
                s = self._solver(self.d.budget.timeout_ms)
                s.add(*self.pc)
                s.add(z3.Not(goal))
                s.add(*ground_axioms(self.pc + [goal]))
                t0 = time.time()
                # first from the quantifier-free hypotheses alone (sound: fewer hypotheses): with the ground hint instances
                # added at lookups this is usually enough, and the solver is far more predictable without quantifiers
                r = None
                flat = self.flat_pc()
                qf = [c for c in flat if not has_quantifier(c)]
                if os.environ.get('PYVC_QF_DUMP'):
                    print('PROVE', kind, label, self.path_id(), 'flat', len(flat), 'qf', len(qf), file=sys.stderr)
                if len(qf) < len(flat):
                    qf_ms = int(os.environ.get('PYVC_QF_MS', max(3000, self.d.budget.timeout_ms // 2)))
                    n_first = -1
                    for second in (False, True):
                        sk0 = getattr(self, '_sk', 0)
                        ngoal, insts = self.skolem_instances(goal, flat, second_round=second)
                        insts = [c for c in insts if not has_quantifier(c)]
                        if second and len(insts) == n_first:
                            break           # the second round found no witness position to instantiate at
                        n_first = len(insts)
                        insts += self.ctor_facts(qf + insts + [ngoal])
                        s0 = self._solver(qf_ms)
                        s0.add(*qf)
                        s0.add(*insts)
                        s0.add(ngoal)
                        s0.add(*ground_axioms(qf + insts + [ngoal]))
                        r0 = str(s0.check())
                        if r0 == 'unsat':
                            break
                    if os.environ.get('PYVC_QF_DUMP'):
                        print('  QF', r0, s0.reason_unknown() if r0 == 'unknown' else '', len(insts), file=sys.stderr)
                    if r0 != 'unsat' and os.environ.get('PYVC_QF_DUMP'):
                        self._qfn = getattr(self, '_qfn', 0) + 1
                        open(f"{os.environ['PYVC_QF_DUMP']}_{kind}_{label}_{self.path_id()}_{part}.smt2".replace(' ', '_'), 'w').write(f'; {r0} {s0.reason_unknown() if r0 == "unknown" else ""}\n' + s0.to_smt2())
                    if r0 == 'unsat':
                        r = 'unsat'
                        detail = (detail + ' (from the quantifier-free hypotheses' + (f' and {len(insts)} instances at the goal index' if insts else '') + ')').strip()
                if r is None:
                    r = str(s.check())
                if r == 'unknown' and self.pc_tags:
                    # retry with fewer hypotheses (sound: dropping assumptions only weakens what is known): first only the
                    # invariant conjunct with the same index as the goal, then leaving out one tagged conjunct at a time
                    tagged = sorted(self.pc_tags)
                    trials = []
                    if focus is not None:
                        trials.append([k for k in tagged if self.pc_tags[k] != focus])
                    trials += [[k] for k in tagged]
                    for drop in trials:
                        s2 = self._solver(max(2000, self.d.budget.timeout_ms // 4))
                        s2.add(*[c for k, c in enumerate(self.pc) if k not in drop])
                        s2.add(z3.Not(goal))
                        s2.add(*ground_axioms(self.pc + [goal]))
                        if str(s2.check()) == 'unsat':
                            r = 'unsat'
                            detail = (detail + f' (proved without {len(drop)} of the {len(tagged)} invariant conjuncts)').strip()
                            break
                dt = time.time() - t0
                self.d.solver_time += dt
                model = None
                if r == 'unsat':
                    verdict = 'proved'
                elif r == 'sat':
                    verdict = 'failed' if self.certain else 'unknown'
                    model = self.d.concretize(self, s.model())
                    detail = detail or 'countermodel'
                    self.d.last_smt = s.to_smt2()
                else:
                    verdict = 'unknown'
                    detail = (detail + ' ' + s.reason_unknown()).strip()
                    if self.d.keep_unknown_smt:
                        self.d.unknown_smt.append((kind, label, s.to_smt2()))
                ob = Obligation(self.d.ob_id(kind, label), kind, label, verdict, dt, model, lineno, detail, tier=self.tier)
                if verdict == 'failed':
                    ob.smt = s.to_smt2()
            ob.path = self.path_id()
            ob.part = part
            self.d.ob_cache[key] = ob
            self.d.obligations.append(ob)
        if self.d.ob_cache[key].verdict != 'failed' and assume:
            self.pc.append(goal)

    def skolem_instances(self, goal, hyps=None, second_round=False):
        """(negated goal, instances of quantified hypotheses).  A goal `forall j: P(j)` is refuted at a fresh index j0.
        Universally quantified hypotheses over one integer are instantiated at j0, j0 - 1, j0 + 1 and at the ground index
        terms the (skolemised) goal reads sequences at; hypotheses over one value (the witness axioms of comprehension
        dicts) at the ground keys looked up in the goal and in those instances.  Sound: every instance follows from its
        hypothesis, and not P(j0) for a fresh j0 is equisatisfiable with not forall j: P(j)."""
        sks = []
        side = []       # quantifier-free disjuncts of a goal `P or forall j: Q(j)` (also `P => forall ...`): all false in a refutation

        def int_forall(g):
            return z3.is_quantifier(g) and g.is_forall() and all(g.var_sort(k) == z3.IntSort() for k in range(g.num_vars()))
        core = goal
        if z3.is_implies(goal) and int_forall(goal.arg(1)) and not has_quantifier(goal.arg(0)):
            side, core = [z3.Not(goal.arg(0))], goal.arg(1)
        elif z3.is_or(goal):
            qs = [d for d in goal.children() if has_quantifier(d)]
            if len(qs) == 1 and int_forall(qs[0]):
                side, core = [d for d in goal.children() if not has_quantifier(d)], qs[0]
        if int_forall(core):
            def skolemise(q):
                # not forall j: (D(j) => forall k: Q(j, k))  ==  D(j0) and not Q(j0, k0) for fresh j0, k0 (nested quantifiers of the
                # same kind under a quantifier-free domain condition are refuted at one more fresh index)
                self._sk = getattr(self, '_sk', 0) + 1
                mine = [z3.Int(f'sk!{self._sk}!{k}') for k in range(q.num_vars())]
                body = z3.substitute_vars(q.body(), *reversed(mine))
                if z3.is_implies(body) and int_forall(body.arg(1)) and not has_quantifier(body.arg(0)):
                    conj, more = skolemise(body.arg(1))
                    return [body.arg(0)] + conj, mine + more
                return [z3.Not(body)], mine
            conj, sks = skolemise(core)
            ngoal = z3.And(*[z3.Not(d) for d in side], *conj)
        else:
            ngoal = z3.Not(goal)
        cands, seen = [], set()

        def add(t):
            if t.get_id() not in seen and len(cands) < 10:
                seen.add(t.get_id())
                cands.append(t)
        for sk in sks:
            add(sk)
        if sks:
            add(sks[0] - 1)
            add(sks[0] + 1)
        gcache = {}

        def index_terms(e, out, memo):
            if e.get_id() in memo or z3.is_quantifier(e):
                return
            memo.add(e.get_id())
            if z3.is_app(e):
                if e.decl().kind() in (z3.Z3_OP_SEQ_NTH, z3.Z3_OP_SEQ_AT) or e.decl().name() in ('seq.nth_i', 'seq.nth_u'):
                    ix = e.arg(1)
                    if _is_ground_term(ix, gcache) and not z3.is_int_value(ix):
                        out.append(ix)
                for ch in e.children():
                    index_terms(ch, out, memo)
        ixs = []
        index_terms(ngoal, ixs, set())
        for t in ixs:
            add(t)
        # element k of a slice s[a:...] is element a + k of s: the hypotheses about s are needed at a + j0
        offs, oseen = [], set()

        def extract_offsets(e, memo):
            if e.get_id() in memo or z3.is_quantifier(e):
                return
            memo.add(e.get_id())
            if z3.is_app(e):
                if e.decl().kind() == z3.Z3_OP_SEQ_EXTRACT and _is_ground_term(e.arg(1), gcache) and e.arg(1).get_id() not in oseen:
                    oseen.add(e.arg(1).get_id())
                    offs.append(e.arg(1))
                for ch in e.children():
                    extract_offsets(ch, memo)
        extract_offsets(ngoal, set())
        for off in offs[:3]:
            for sk in sks[:1]:
                add(z3.simplify(off + sk))
        # element j0 of a concatenation a ++ b ++ c is element j0 - len(a) of b, j0 - len(a) - len(b) of c: the hypotheses
        # about the parts are needed there
        if sks:
            cats, cseen = [], set()

            def concats(e, memo):
                if e.get_id() in memo or z3.is_quantifier(e):
                    return
                memo.add(e.get_id())
                if z3.is_app(e):
                    if e.decl().kind() == z3.Z3_OP_SEQ_CONCAT and e.get_id() not in cseen and _is_ground_term(e, gcache) and len(cats) < 4:
                        cseen.add(e.get_id())
                        cats.append(e)
                    for ch in e.children():
                        concats(ch, memo)
            concats(ngoal, set())
            for cat in cats:
                pre = z3.IntVal(0)
                for part in cat.children()[:-1]:
                    if part.decl().kind() == z3.Z3_OP_SEQ_UNIT:
                        pre = pre + 1
                    else:
                        pre = pre + z3.Length(part)
                    if len(cands) < 16:
                        t = z3.simplify(sks[0] - pre)
                        if t.get_id() not in seen:
                            seen.add(t.get_id())
                            cands.append(t)
        insts = []
        valq = []
        intq1 = []
        for h in (hyps if hyps is not None else self.pc):
            if not (z3.is_quantifier(h) and h.is_forall()):
                continue
            n = h.num_vars()
            if n == 1 and h.var_sort(0) == Val:
                valq.append(h)
                continue
            if not all(h.var_sort(k) == z3.IntSort() for k in range(n)):
                continue
            if n == 1:
                intq1.append(h)
                for c in cands:
                    insts.append(z3.substitute_vars(h.body(), c))
            elif n == 2 and sks:
                for a in sks:
                    for b in sks:
                        insts.append(z3.substitute_vars(h.body(), a, b))

        # sorted(): r[a] == s[perm(a)], perm(inv(k)) == k.  A goal about element k0 of the source sequence needs the facts about
        # the sorted sequence at inv(k0) (where did that element go), and the order / stability axioms at pairs of such positions
        if sks:
            invs, iseen = [], set()

            def inv_decls(e, memo):
                if e.get_id() in memo:
                    return
                memo.add(e.get_id())
                if z3.is_quantifier(e):
                    inv_decls(e.body(), memo)
                    return
                if z3.is_app(e):
                    d = e.decl()
                    if d.kind() == z3.Z3_OP_UNINTERPRETED and d.arity() == 1 and d.name().startswith('inv!') and d.name() not in iseen and len(invs) < 2:
                        iseen.add(d.name())
                        invs.append(d)
                    for ch in e.children():
                        inv_decls(ch, memo)
            memo_i = set()
            for h in (hyps if hyps is not None else self.pc):
                if z3.is_quantifier(h):
                    inv_decls(h, memo_i)
            for d in invs:
                wpos = [d(sk) for sk in sks[:2]]
                for h in (hyps if hyps is not None else self.pc):
                    if not (z3.is_quantifier(h) and h.is_forall()) or not all(h.var_sort(k) == z3.IntSort() for k in range(h.num_vars())):
                        continue
                    if h.num_vars() == 1:
                        for w in wpos:
                            insts.append(z3.substitute_vars(h.body(), w))
                    elif h.num_vars() == 2:
                        for a in wpos:
                            for b in wpos:
                                if a is not b:
                                    insts.append(z3.substitute_vars(h.body(), a, b))

        def witness_terms(formulas, have):
            """ground applications of the witness functions of comprehensions (position of a source index in a filtered list,
            source index of a position, position of a set / dict member) occurring in the formulas"""
            out, memo = [], set()

            def walk(e):
                if e.get_id() in memo or z3.is_quantifier(e):
                    return
                memo.add(e.get_id())
                if z3.is_app(e):
                    if (e.sort() == z3.IntSort() and e.decl().kind() == z3.Z3_OP_UNINTERPRETED and e.num_args() > 0
                            and e.decl().name().startswith(('FILT_pos', 'FILT_idx', 'SETOF_w', 'DICT_w'))
                            and e.get_id() not in have and _is_ground_term(e, gcache) and len(out) < 6):
                        have.add(e.get_id())
                        out.append(e)
                    for ch in e.children():
                        walk(ch)
            for f in formulas:
                walk(f)
            return out
        # second round: the first-round instances name witness positions (where does source index j0 land in the filtered list,
        # where does a member sit in the sequence a set was built from); the element axioms are needed there as well
        if second_round and intq1 and valq:
            first = list(insts)
            dk = []
            for h in valq:
                syms = set()
                _symbols(h, set(), syms)
                if any(nm.startswith(('DICT_', 'SETOF')) for nm in syms):
                    dk.append(h)
            # witness axioms at the values the goal tests for membership (needed before their witness positions exist as terms)
            pre_keys = []
            memo_k = set()

            def member_keys(e):
                if e.get_id() in memo_k or z3.is_quantifier(e):
                    return
                memo_k.add(e.get_id())
                if z3.is_app(e):
                    if e.decl().kind() == z3.Z3_OP_SELECT and z3.is_app(e.arg(0)) and e.arg(0).decl().name().startswith(('DICT_', 'SETOF')) \
                            and _is_ground_term(e.arg(1), gcache) and len(pre_keys) < 4:
                        pre_keys.append(e.arg(1))
                    for ch in e.children():
                        member_keys(ch)
            member_keys(ngoal)
            for h in dk:
                for k in pre_keys:
                    first.append(z3.substitute_vars(h.body(), k))
            wts = witness_terms(first + [ngoal], seen)
            for h in intq1:
                syms = set()
                _symbols(h, set(), syms)
                if any(nm.startswith(('FILT_', 'SETOF', 'DICT_')) for nm in syms):
                    for w in wts:
                        insts.append(z3.substitute_vars(h.body(), w))
        if valq:
            gcache2 = gcache

            def keys_of(formulas, want_dict):
                keys, kseen, memo = [], set(), set()

                def walk(e):
                    if e.get_id() in memo or z3.is_quantifier(e):
                        return
                    memo.add(e.get_id())
                    if z3.is_app(e):
                        if e.decl().kind() == z3.Z3_OP_SELECT and e.arg(1).sort() == Val:
                            arr = e.arg(0)
                            is_dict = z3.is_app(arr) and arr.decl().name().startswith(('DICT_', 'SETOF'))
                            k = e.arg(1)
                            if is_dict == want_dict and k.get_id() not in kseen and _is_ground_term(k, gcache2) and len(keys) < 6:
                                kseen.add(k.get_id())
                                keys.append(k)
                        for ch in e.children():
                            walk(ch)
                for f in formulas:
                    walk(f)
                return keys
            # witness axioms of comprehension dicts / sets: at the keys looked up in the goal and in the instances so far;
            # frame facts `every earlier object keeps its attributes` (quantified over objects): at the objects the goal reads
            dict_keys = keys_of([ngoal] + insts, True)
            obj_keys = keys_of([ngoal], False)
            for h in valq:
                syms = set()
                _symbols(h, set(), syms)
                is_dict_axiom = any(n.startswith(('DICT_', 'SETOF')) for n in syms)
                for k in (dict_keys if is_dict_axiom else obj_keys):
                    insts.append(z3.substitute_vars(h.body(), k))
        return ngoal, insts

    def ctor_facts(self, formulas):
        """field(ctor(a1..an)) == ai for every ground application of a pure constructor occurring in the formulas"""
        if not self.ctor_info:
            return []
        out, seen, gcache = [], set(), {}

        def walk(e):
            if e.get_id() in seen or z3.is_quantifier(e):
                return
            seen.add(e.get_id())
            if z3.is_app(e):
                info = self.ctor_info.get(e.decl().name())
                if info is not None and _is_ground_term(e, gcache):
                    for k, (a, arr) in enumerate(info):
                        if k < e.num_args():
                            out.append(z3.Select(arr, e) == e.arg(k))
                for ch in e.children():
                    walk(ch)
        for f in formulas:
            walk(f)
        return out

    def dict_hint(self, d, k):
        """add the ground instance of a comprehension dict's witness axiom at a looked-up key"""
        if getattr(d, 'inst', None) is None:
            return
        key = ('dict-inst', d.has.get_id(), k.get_id())
        if key not in self.gcache:
            self.gcache[key] = (d.has, k)
            self.pc.append(d.inst(k))

    def fail_path(self, kind, label, lineno=None, detail=''):
        """the current path itself is a violation (e.g. an unpermitted exception escapes)."""
        key = (kind, label, lineno, tuple(self.taken))
        if key in self.d.ob_cache:
            return
        s = self._solver(self.d.budget.timeout_ms)
        s.add(*self.pc)
        s.add(*ground_axioms(self.pc))
        t0 = time.time()
        # the path is infeasible already when its quantifier-free part is (sound: fewer hypotheses)
        r = None
        flat = self.flat_pc()
        qf = [c for c in flat if not has_quantifier(c)]
        if len(qf) < len(flat):
            s0 = self._solver(int(__import__("os").environ.get("PYVC_QF_MS", min(3000, max(1000, self.d.budget.timeout_ms // 4)))))
            s0.add(*qf)
            s0.add(*ground_axioms(qf))
            if str(s0.check()) == 'unsat':
                r = 'unsat'
        if r is None:
            r = str(s.check())
        dt = time.time() - t0
        self.d.solver_time += dt
        model = None
        if r == 'unsat':
            verdict = 'proved'
        elif r == 'sat':
            verdict = 'failed' if self.certain else 'unknown'
            model = self.d.concretize(self, s.model())
        else:
            verdict = 'unknown'
        ob = Obligation(self.d.ob_id(kind, label), kind, label, verdict, dt, model, lineno, detail, tier=self.tier)
        ob.path = self.path_id()
        if verdict == 'failed':
            ob.smt = s.to_smt2()
        self.d.ob_cache[key] = ob
        self.d.obligations.append(ob)

    def ok_path(self, kind, label, lineno=None, detail=''):
        key = (kind, label, lineno, tuple(self.taken))
        if key in self.d.ob_cache:
            return
        ob = Obligation(self.d.ob_id(kind, label), kind, label, 'proved', 0.0, None, lineno, detail, tier=self.tier)
        ob.path = self.path_id()
        self.d.ob_cache[key] = ob
        self.d.obligations.append(ob)

    # -- heap -------------------------------------------------------------
    def alloc(self, cls, fields=None):
        oid = self.next_oid
        self.next_oid += 1
        self.heap[oid] = {'__class__': cls}
        if fields:
            self.heap[oid].update(fields)
        return SObj(oid)

    def snapshot_pre(self):
        self.pre_heap = {k: dict(v) for k, v in self.heap.items()}
        self.pre_fields = dict(self.fields)

    def field_arr(self, name, old=False):
        if name not in self.fields0:
            a = z3.Const('F_' + name, z3.ArraySort(Val, Val))
            self.fields0[name] = a
            self.fields.setdefault(name, a)
            self.pre_fields.setdefault(name, a)
        if old:
            return self.pre_fields.get(name, self.fields0[name])
        return self.fields[name]

    def fld(self, name, t, old=False):
        return z3.Select(self.field_arr(name, old), t)

    def set_fld(self, name, t, v):
        self.fields[name] = z3.Store(self.field_arr(name), t, v)

    # -- values -------------------------------------------------------------
    def new_handle(self, seqterm):
        """a Val standing for a sequence value"""
        self.handles += 1
        h = pack(seqterm)
        key = ('pack', seqterm.get_id())
        if key not in self.gcache:
            self.gcache[key] = seqterm      # keeps the term alive: ids are only unique among live terms
            self.pc.append(items(h) == seqterm)
        return Val.VSeq(h)

    def seq_facts(self, kind, r, *parts):
        """valid pointwise facts about concat / extract terms, stated for the solver when the contract asks for them
        (hints = ['seq-pointwise']): z3's sequence theory derives them slowly under quantifiers"""
        if 'seq-pointwise' not in self.d.contract.hints:
            return
        key = ('seqfacts', kind, r.get_id())
        if key in self.gcache:
            return
        self.gcache[key] = True
        j = z3.Int(self.fresh('j'))
        if kind == 'concat':
            x, y = parts
            lx, ly = z3.Length(x), z3.Length(y)
            self.pc.append(z3.Length(r) == lx + ly)
            self.pc.append(z3.ForAll([j], z3.Implies(z3.And(j >= 0, j < lx), r[j] == x[j])))
            self.pc.append(z3.ForAll([j], z3.Implies(z3.And(j >= 0, j < ly), r[lx + j] == y[j])))
            self.pc.append(z3.ForAll([j], z3.Implies(z3.And(j >= lx, j < lx + ly), r[j] == y[j - lx])))
        elif kind == 'extract':
            s_, a, n = parts
            self.pc.append(z3.Implies(z3.And(a >= 0, n >= 0, a + n <= z3.Length(s_)), z3.Length(r) == n))
            self.pc.append(z3.ForAll([j], z3.Implies(z3.And(a >= 0, j >= 0, j < n, a + j < z3.Length(s_)), r[j] == s_[a + j])))

    def to_val(self, v):
        if isinstance(v, SDyn): return v.t
        if isinstance(v, SNone): return Val.VNone
        if isinstance(v, SBool): return Val.VBool(v.t)
        if isinstance(v, SInt): return Val.VInt(v.t)
        if isinstance(v, SDec): return Val.VDec(v.t)
        if isinstance(v, SStr): return Val.VStr(v.t)
        if isinstance(v, SDate): return Val.VDate(v.t)
        if isinstance(v, SSeq): return self.new_handle(v.t)
        if isinstance(v, STuple): return self.new_handle(self.seq_of_tuple(v))
        if isinstance(v, SObj): return Val.VObj(z3.IntVal(8000000 + v.oid))
        if isinstance(v, SClass): return Val.VObj(z3.IntVal(class_id(v.qual)))
        if isinstance(v, SBuiltin) and v.self_ is None: return Val.VObj(z3.IntVal(class_id('builtins:' + v.name)))
        if isinstance(v, SCallee): return v.t
        raise Unsupported(f'to_val({v!r})')

    def seq_of_tuple(self, v):
        if not v.elems:
            return z3.Empty(SeqV)
        units = [z3.Unit(self.to_val(e)) for e in v.elems]
        return units[0] if len(units) == 1 else z3.Concat(*units)

    def setof(self, seqt, axioms=False):
        """the set of the elements of a sequence term, as a membership array SETOF(seq) with its two defining axioms (every
        element is a member; a member occurs at the witness position W(seq, v)).  One function symbol for all sequences: the
        same sequence in code and in a specification gives the same set term."""
        F = uf('SETOF', SeqV, z3.ArraySort(Val, B))
        W = uf('SETOF_w', SeqV, Val, I)
        a = F(seqt)
        key = ('setof', seqt.get_id())
        if not axioms:
            return a       # the defining axioms are added when the set is first asked for a member (setof_axioms)
        if key not in self.gcache:
            self.gcache[key] = seqt
            j = z3.Int(self.fresh('j'))
            v = z3.Const(self.fresh('k'), Val)
            self.pc.append(z3.ForAll([j], z3.Implies(z3.And(j >= 0, j < z3.Length(seqt)), z3.Select(a, seqt[j]))))
            self.pc.append(z3.ForAll([v], z3.Implies(z3.Select(a, v), z3.And(W(seqt, v) >= 0, W(seqt, v) < z3.Length(seqt), seqt[W(seqt, v)] == v))))
        return a

    def as_seq(self, v):
        """SSeq view of a sequence-like value"""
        if isinstance(v, SSeq): return v
        if isinstance(v, SSet):
            if v.src is not None:
                return v.src
            # iteration order of a set is unspecified: some sequence holding exactly its members
            t = z3.Const(self.fresh('setlist'), SeqV)
            j = z3.Int(self.fresh('j'))
            self.pc.append(z3.ForAll([j], z3.Implies(z3.And(j >= 0, j < z3.Length(t)), z3.Select(v.t, t[j]))))
            return SSeq(t, 'list')
        if isinstance(v, STuple): return SSeq(self.seq_of_tuple(v), v.kind)
        if isinstance(v, SDyn):
            return SSeq(items(Val.h(v.t)), 'list')
        if isinstance(v, SIter):
            rec = self.heap[v.oid]
            s, pos = rec['seq'], rec['pos'].t
            return SSeq(z3.SubSeq(s.t, pos, z3.Length(s.t) - pos), 'list', s.elem)
        raise Unsupported(f'as_seq({v!r})')

    def truthy(self, v):
        if isinstance(v, SBool): return v.t
        if isinstance(v, SNone): return z3.BoolVal(False)
        if isinstance(v, SInt): return v.t != 0
        if isinstance(v, SStr): return z3.Length(v.t) > 0
        if isinstance(v, SDec): return v.t != int2dec(0)
        if isinstance(v, SSeq): return z3.Length(v.t) > 0
        if isinstance(v, STuple): return z3.BoolVal(bool(v.elems))
        if isinstance(v, (SObj, SClass, SFunc, SBuiltin, SDate, SModule)): return z3.BoolVal(True)
        if isinstance(v, SDyn):
            return truthyV(v.t)
        raise Unsupported(f'truthy({v!r})')

    def is_none(self, v):
        if isinstance(v, SNone): return z3.BoolVal(True)
        if isinstance(v, SDyn): return Val.is_VNone(v.t)
        return z3.BoolVal(False)

    def merge(self, c, a, b):
        """If(c, a, b) on wrappers (spec mode)"""
        if type(a) is type(b) and isinstance(a, (SBool, SInt, SStr, SDec, SDate)):
            return type(a)(z3.If(c, a.t, b.t))
        if isinstance(a, SNone) and isinstance(b, SNone):
            return a
        if isinstance(a, SSeq) and isinstance(b, SSeq):
            return SSeq(z3.If(c, a.t, b.t), a.kind, a.elem)
        if isinstance(a, (SSeq, STuple)) and isinstance(b, (SSeq, STuple)):
            return SSeq(z3.If(c, self.as_seq(a).t, self.as_seq(b).t), self.as_seq(a).kind)
        return SDyn(z3.If(c, self.to_val(a), self.to_val(b)))

    # -- symbolic inputs from shapes ----------------------------------------
    def sym(self, shape, name, record=True):
        v = self._sym(shape, name)
        if record:
            self.inputs[name] = (shape, v)
        return v

    def _sym(self, sh, name):
        if isinstance(sh, S.NoneS):
            return NONE
        if isinstance(sh, S.Int):
            t = z3.Int(name)
            if sh.lo is not None: self.pc.append(t >= sh.lo)
            if sh.hi is not None: self.pc.append(t <= sh.hi)
            return SInt(t)
        if isinstance(sh, S.Bool):
            return SBool(z3.Bool(name))
        if isinstance(sh, S.Str):
            return SStr(z3.String(name))
        if isinstance(sh, S.DecS):
            return SDec(z3.Const(name, Dec))
        if isinstance(sh, S.DateS):
            t = z3.Int(name)
            self.pc.append(z3.And(t >= 1, t <= MAXORD))
            return SDate(t)
        if isinstance(sh, S.Opaque):
            self.pc.append(z3.Int(name) >= 0)       # objects that exist before the call have non-negative identities
            return SDyn(Val.VObj(z3.Int(name)), shape=sh)
        if isinstance(sh, S.Child):
            self.pc.append(z3.Int(name) >= 0)
            return SDyn(Val.VObj(z3.Int(name)), callable=True, shape=sh)
        if isinstance(sh, S.Callee):
            self.pc.append(z3.Int(name) >= 0)
            return SCallee(Val.VObj(z3.Int(name)))
        if isinstance(sh, S.Dyn):
            t = z3.Const(name, Val)
            c = self.kind_constraint(t, sh)
            if c is not None:
                self.pc.append(c)
            return SDyn(t, shape=sh)
        if isinstance(sh, S.Rec):
            t = Val.VObj(z3.Int(name))
            self.pc.append(z3.Int(name) >= 0)
            if sh.truthy:
                self.pc.append(truthyV(t))
            if sh.isa:
                self.pc.append(isinst(t, z3.IntVal(class_id(sh.isa))))
            for an, ash in sh.attrs.items():
                c = self.val_constraint(self.fld(an, t), ash)
                if c is not None:
                    self.pc.append(c)
            return SDyn(t, shape=sh)
        if isinstance(sh, S.ListOf):
            t = z3.Const(name, SeqV)
            if sh.minlen: self.pc.append(z3.Length(t) >= sh.minlen)
            j = z3.Int(self.fresh('j'))
            c = self.val_constraint(t[j], sh.elem)
            if c is not None:
                self.pc.append(z3.ForAll([j], z3.Implies(z3.And(j >= 0, j < z3.Length(t)), c)))
            return SSeq(t, sh.kind, sh.elem)
        if isinstance(sh, S.Fixed):
            return STuple([self._sym_rec(s, f'{name}.{k}') for k, s in enumerate(sh.shapes)], sh.kind)
        if isinstance(sh, S.Const):
            return self.d.lift_const(self, sh.value)
        if isinstance(sh, S.GlobalRef):
            return SClass(sh.qual + '!singleton')
        if isinstance(sh, S.KwArgs):
            return SDictC({k: self._sym_rec(v, f'{name}.{k}') for k, v in sh.items.items()})
        if isinstance(sh, S.SliceS):
            return SSlice(self._sym_rec(sh.lo, name + '.start'), self._sym_rec(sh.hi, name + '.stop'), NONE)
        if isinstance(sh, S.Obj):
            o = self.alloc(sh.cls)
            for fn, fs in sh.allfields().items():
                self.heap[o.oid][fn] = self._sym_rec(fs, f'{name}.{fn}')
            self.heap[o.oid]['__shape__'] = sh
            return o
        if isinstance(sh, (S.Opt, S.Union)):
            raise Unsupported(f'unexpanded case shape for {name}')
        raise Unsupported(f'shape {sh!r}')

    def _sym_rec(self, sh, name):
        v = self._sym(sh, name)
        self.inputs[name] = (sh, v)
        return v

    def kind_constraint(self, t, sh):
        if set(sh.kinds) >= {'none', 'bool', 'int', 'dec', 'str', 'date', 'obj'}:
            return z3.Not(Val.is_VSeq(t))
        tests = {'none': Val.is_VNone, 'bool': Val.is_VBool, 'int': Val.is_VInt, 'dec': Val.is_VDec,
                 'str': Val.is_VStr, 'date': Val.is_VDate, 'obj': Val.is_VObj, 'seq': Val.is_VSeq}
        return z3.Or(*[tests[k](t) for k in sh.kinds])

    def val_constraint(self, t, sh):
        """constraint that Val term t conforms to shape sh (element/attribute position)"""
        if isinstance(sh, S.Int):
            cs = [Val.is_VInt(t)]
            if sh.lo is not None: cs.append(Val.i(t) >= sh.lo)
            if sh.hi is not None: cs.append(Val.i(t) <= sh.hi)
            return z3.And(*cs)
        if isinstance(sh, S.Bool): return Val.is_VBool(t)
        if isinstance(sh, S.Str): return Val.is_VStr(t)
        if isinstance(sh, S.DecS): return Val.is_VDec(t)
        if isinstance(sh, S.DateS): return z3.And(Val.is_VDate(t), Val.ord(t) >= 1, Val.ord(t) <= MAXORD)
        if isinstance(sh, S.NoneS): return Val.is_VNone(t)
        if isinstance(sh, S.Rec):
            cs = [Val.is_VObj(t), Val.o(t) >= 0] + ([truthyV(t)] if sh.truthy else []) + ([isinst(t, z3.IntVal(class_id(sh.isa)))] if sh.isa else [])
            for an, ash in sh.attrs.items():
                c = self.val_constraint(self.fld(an, t), ash)
                if c is not None:
                    cs.append(c)
            return z3.And(*cs)
        if isinstance(sh, (S.Opaque, S.Child, S.Callee)): return z3.And(Val.is_VObj(t), Val.o(t) >= 0)
        if isinstance(sh, S.Dyn): return self.kind_constraint(t, sh)
        if isinstance(sh, S.Opt):
            c = self.val_constraint(t, sh.shape)
            return z3.Or(Val.is_VNone(t), c) if c is not None else None
        if isinstance(sh, S.Union):
            cs = [self.val_constraint(t, s) for s in sh.shapes]
            return None if any(c is None for c in cs) else z3.Or(*cs)
        if isinstance(sh, S.ListOf):
            # a list in attribute / element position: its length bound and the shape of its elements
            cs = [Val.is_VSeq(t)]
            seq = items(Val.h(t))
            if sh.minlen:
                cs.append(z3.Length(seq) >= sh.minlen)
            j = z3.Int(self.fresh('j'))
            c = self.val_constraint(seq[j], sh.elem)
            if c is not None:
                cs.append(z3.ForAll([j], z3.Implies(z3.And(j >= 0, j < z3.Length(seq)), c)))
            return z3.And(*cs)
        return None

    def from_val(self, t, sh):
        """typed wrapper for Val term t known to conform to element shape sh"""
        if isinstance(sh, S.Int): return SInt(Val.i(t))
        if isinstance(sh, S.Bool): return SBool(Val.b(t))
        if isinstance(sh, S.Str): return SStr(Val.s(t))
        if isinstance(sh, S.DecS): return SDec(Val.d(t))
        if isinstance(sh, S.DateS): return SDate(Val.ord(t))
        if isinstance(sh, S.Child): return SDyn(t, callable=True, shape=sh)
        if isinstance(sh, S.ListOf): return SSeq(items(Val.h(t)), sh.kind, sh.elem)
        return SDyn(t, shape=sh)
