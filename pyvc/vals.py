"""Sorts and symbolic value wrappers (python3-vt only: imports z3)."""
import z3

Dec = z3.DeclareSort('Dec')
_V = z3.Datatype('Val')
_V.declare('VNone')
_V.declare('VBool', ('b', z3.BoolSort()))
_V.declare('VInt', ('i', z3.IntSort()))
_V.declare('VDec', ('d', Dec))
_V.declare('VStr', ('s', z3.StringSort()))
_V.declare('VDate', ('ord', z3.IntSort()))
_V.declare('VObj', ('o', z3.IntSort()))
_V.declare('VSeq', ('h', z3.IntSort()))
Val = _V.create()
SeqV = z3.SeqSort(Val)
I = z3.IntSort()
B = z3.BoolSort()

items = z3.Function('items', I, SeqV)            # contents of a sequence handle
pack = z3.Function('pack', SeqV, I)              # the handle of a sequence value (injective: items(pack(s)) == s)
ev = z3.Function('ev', Val, Val, Val)            # value of child node on context (PURE_CHILDREN)
obj_truthy = z3.Function('obj_truthy', I, B)
val_lt = z3.Function('val_lt', Val, Val, B)      # Python '<' between two non-NULL values of one column type
isinst = z3.Function('isinst', Val, I, B)        # isinstance(v, class#k) for opaque values
int2dec = z3.Function('int2dec', I, Dec)
dec_add = z3.Function('dec_add', Dec, Dec, Dec)
dec_sub = z3.Function('dec_sub', Dec, Dec, Dec)
dec_mul = z3.Function('dec_mul', Dec, Dec, Dec)
dec_div = z3.Function('dec_div', Dec, Dec, Dec)
dec_mod = z3.Function('dec_mod', Dec, Dec, Dec)
dec_neg = z3.Function('dec_neg', Dec, Dec)
dec_lt = z3.Function('dec_lt', Dec, Dec, B)
hashf = z3.Function('hash', Val, I)
truthyV = z3.RecFunction('truthy', Val, B)
dec2int = z3.Function('dec2int', Dec, I)
_v = z3.Const('v!def', Val)
z3.RecAddDefinition(truthyV, [_v],
    z3.If(Val.is_VNone(_v), False,
    z3.If(Val.is_VBool(_v), Val.b(_v),
    z3.If(Val.is_VInt(_v), Val.i(_v) != 0,
    z3.If(Val.is_VDec(_v), Val.d(_v) != int2dec(0),
    z3.If(Val.is_VStr(_v), z3.Length(Val.s(_v)) > 0,
    z3.If(Val.is_VSeq(_v), z3.Length(items(Val.h(_v))) > 0,
    z3.If(Val.is_VObj(_v), obj_truthy(Val.o(_v)), True))))))))


def _apps(e, names, out, seen):
    k = e.get_id()
    if k in seen:
        return
    seen.add(k)
    if z3.is_quantifier(e):
        _apps(e.body(), names, out, seen)
        return
    if z3.is_app(e):
        if e.decl().name() in names:
            out.append(e)
        for ch in e.children():
            _apps(ch, names, out, seen)


def _is_ground(e, cache):
    k = e.get_id()
    if k in cache:
        return cache[k]
    r = True
    if z3.is_var(e):
        r = False
    elif z3.is_quantifier(e):
        r = False
    else:
        for ch in e.children():
            if not _is_ground(ch, cache):
                r = False
                break
    cache[k] = r
    return r


def ground_axioms(formulas):
    """quantifier-free instances of the (trusted) algebraic facts about the uninterpreted Decimal
    symbols, one per ground application occurring in the query: int2dec injective and order/sum
    preserving, dec_add/dec_mul commutative, dec_lt irreflexive and asymmetric."""
    apps, seen = [], set()
    for f in formulas:
        _apps(f, {'int2dec', 'dec_add', 'dec_mul', 'dec_lt'}, apps, seen)
    out = []
    ints = []
    gcache = {}
    for a in apps:
        if not _is_ground(a, gcache):
            continue
        n = a.decl().name()
        if n == 'int2dec':
            out.append(dec2int(a) == a.arg(0))
            ints.append(a)
        elif n in ('dec_add', 'dec_mul'):
            out.append(a == a.decl()(a.arg(1), a.arg(0)))
        elif n == 'dec_lt':
            out.append(z3.Not(z3.And(a, dec_lt(a.arg(1), a.arg(0)))))
            if a.arg(0).eq(a.arg(1)):
                out.append(z3.Not(a))
    out.append(dec2int(int2dec(0)) == 0)
    for x in ints[:12]:
        for y in ints[:12]:
            if x.get_id() < y.get_id():
                out.append(dec_lt(x, y) == (x.arg(0) < y.arg(0)))
                out.append(dec_lt(y, x) == (y.arg(0) < x.arg(0)))
    return out


MAXORD = 3652059   # date(9999,12,31).toordinal()

_fields = {}
_applies = {}
_ufs = {}


def field_fn(name):
    if name not in _fields:
        _fields[name] = z3.Function('fld_' + name, Val, Val)
    return _fields[name]


def apply_fn(n):
    if n not in _applies:
        _applies[n] = z3.Function(f'apply{n}', *([Val] * (n + 1)), Val)
    return _applies[n]


def uf(name, *sorts):
    if name not in _ufs:
        _ufs[name] = z3.Function(name, *sorts)
    return _ufs[name]


_class_ids = {}


def class_id(qual):
    if qual not in _class_ids:
        _class_ids[qual] = 9000000 + len(_class_ids)
    return _class_ids[qual]


class SV:
    pass


class SNone(SV):
    def __repr__(self): return 'SNone'


NONE = SNone()


class _T(SV):
    __slots__ = ('t',)

    def __init__(self, t):
        self.t = t

    def __repr__(self):
        return f'{type(self).__name__}({self.t})'


class SBool(_T): pass
class SInt(_T): pass
class SStr(_T): pass
class SDec(_T): pass
class SDate(_T): pass      # t = proleptic Gregorian ordinal
class STd(_T): pass        # timedelta, t = days


class SDyn(_T):
    __slots__ = ('t', 'callable', 'shape', 'old')

    def __init__(self, t, callable=False, shape=None, old=False):
        self.t = t
        self.callable = callable
        self.shape = shape
        self.old = old         # attribute reads go to the pre-state field arrays


class SSeq(SV):
    old = False

    def __init__(self, t, kind='list', elem=None):
        self.t, self.kind, self.elem = t, kind, elem

    def __repr__(self):
        return f'SSeq[{self.kind}]({self.t})'


class SSet(SV):
    """set of Val: z3 array Val->Bool (membership); src = sequence of the elements it was built from, if known"""
    def __init__(self, t, src=None):
        self.t = t
        self.src = src


class STuple(SV):
    """concrete-length python tuple/list of symbolic values."""
    def __init__(self, elems, kind='tuple'):
        self.elems, self.kind = list(elems), kind

    def __repr__(self):
        return f'STuple{self.elems}'


class SObj(SV):
    def __init__(self, oid, old=False):
        self.oid, self.old = oid, old

    def __repr__(self):
        return f'SObj({self.oid}{",old" if self.old else ""})'


class SOldNS(SV):
    pass


class SModule(SV):
    def __init__(self, name): self.name = name
    def __repr__(self): return f'SModule({self.name})'


class SClass(SV):
    def __init__(self, qual, info=None): self.qual, self.info = qual, info
    def __repr__(self): return f'SClass({self.qual})'


class SFunc(SV):
    def __init__(self, node, mod, qual, closure=None, self_=None, cls=None):
        self.node, self.mod, self.qual, self.closure, self.self_, self.cls = node, mod, qual, closure or {}, self_, cls

    def __repr__(self): return f'SFunc({self.qual})'


class SBuiltin(SV):
    def __init__(self, name, self_=None): self.name, self.self_ = name, self_
    def __repr__(self): return f'SBuiltin({self.name})'


class SSpecFn(SV):
    def __init__(self, sf): self.sf = sf


class SCallee(SV):
    def __init__(self, t): self.t = t


class SGetter(SV):
    """operator.attrgetter(name) / operator.itemgetter(i)."""
    def __init__(self, kind, arg): self.kind, self.arg = kind, arg


class SDict(SV):
    """symbolic dict: has: Array(Val->Bool), get: Array(Val->Val)"""
    def __init__(self, has, get, inst=None):
        self.has, self.get = has, get
        self.inst = inst       # key -> ground instances of the dict's defining axioms at that key (lookup hints)


class SDictC(SV):
    """dict with concrete string keys (kwargs, small literal dicts)"""
    def __init__(self, d): self.d = dict(d)


class SSlice(SV):
    def __init__(self, lo, hi, step): self.lo, self.hi, self.step = lo, hi, step


class SSuper(SV):
    def __init__(self, cls, self_): self.cls, self.self_ = cls, self_


class SIter(SV):
    """iterator over a symbolic sequence with a mutable position kept in the heap."""
    def __init__(self, oid): self.oid = oid


def mkbool(b):
    return SBool(z3.BoolVal(bool(b)))


def lift(v):
    """python constant -> symbolic value"""
    if v is None: return NONE
    if isinstance(v, bool): return SBool(z3.BoolVal(v))
    if isinstance(v, int): return SInt(z3.IntVal(v))
    if isinstance(v, str): return SStr(z3.StringVal(v))
    if isinstance(v, (tuple, list)):
        return STuple([lift(x) for x in v], 'tuple' if isinstance(v, tuple) else 'list')
    raise TypeError(f'cannot lift {v!r}')
