"""Statements, assignment, loops with invariants."""
import ast
import z3
from . import spec as S
from .vals import *
from .core import *
from .interp_expr import Frame
from .interp_call import SRange, SEnum

PURE_DYN_METHODS = {'get', 'keys', 'values', 'items', 'currencies', 'get_currency_units', 'is_empty', 'lower', 'upper',
                    'strip', 'quantize', 'weekday', 'isoweekday', 'isocalendar', 'date', 'get_positions', 'copy',
                    'split', 'rstrip', 'lstrip', 'startswith', 'endswith', 'format', 'group', 'total_seconds', 'strftime',
                    'to_string', 'as_tuple', 'is_zero', 'build', 'join'}


class StmtMixin:
    def exec_block(self, fr, body):
        for st in body:
            self.exec(fr, st)

    def exec(self, fr, st):
        m = getattr(self, 's_' + type(st).__name__, None)
        if m is None:
            raise Unsupported(f'statement {type(st).__name__} (line {st.lineno})')
        self.cur_line = st.lineno
        return m(fr, st)

    def s_Pass(self, fr, st):
        pass

    def s_Expr(self, fr, st):
        if isinstance(st.value, ast.Constant):
            return
        if isinstance(st.value, ast.Yield):
            v = self.eval(fr, st.value.value) if st.value.value is not None else NONE
            self.do_yield(fr, v, st)
            return
        self.eval(fr, st.value)

    def do_yield(self, fr, v, st):
        if self.yielded is None:
            raise Unsupported('yield outside the generator under verification')
        self.yielded = SSeq(z3.Concat(self.yielded.t, z3.Unit(self.to_val(v))), 'tuple')

    def s_Return(self, fr, st):
        raise ReturnEx(self.eval(fr, st.value) if st.value is not None else NONE)

    def s_Break(self, fr, st):
        raise BreakEx()

    def s_Continue(self, fr, st):
        raise ContinueEx()

    def s_Assert(self, fr, st):
        c = self.truthy(self.eval(fr, st.test))
        if not self.branch(c):
            raise PyRaise('AssertionError', st.lineno)

    def s_Raise(self, fr, st):
        if st.exc is None:
            if self.handling:
                raise self.handling[-1]
            raise Unsupported('bare raise')
        e = st.exc
        fn = e.func if isinstance(e, ast.Call) else e
        if isinstance(e, ast.Call):
            args = []
            for a in e.args:      # evaluate the message for its safety obligations
                try:
                    args.append(self.eval(fr, a))
                except Unsupported:
                    args.append(None)
            # an exception class of /repo with a constructor of its own: the constructor runs before anything is raised, and
            # what it raises itself (e.g. on an argument of the wrong kind) is what escapes
            try:
                cls = self.eval(fr, fn)
            except Unsupported:
                cls = None
            if isinstance(cls, SClass) and not e.keywords and all(a is not None for a in args):
                ci = self.d.classinfo(cls.qual)
                init = self.find_method(ci, '__init__') if ci is not None else None
                if init is not None:
                    try:
                        self.call_value(fr, cls, args, {}, e)
                    except Unsupported:
                        pass
        name = fn.attr if isinstance(fn, ast.Attribute) else (fn.id if isinstance(fn, ast.Name) else None)
        if name is None:
            raise Unsupported('raise of computed exception')
        raise PyRaise(name, st.lineno, 'explicit raise')

    def s_If(self, fr, st):
        c = self.truthy(self.eval(fr, st.test))
        if self.branch(c):
            self.exec_block(fr, st.body)
        else:
            self.exec_block(fr, st.orelse)

    def s_Try(self, fr, st):
        if st.finalbody:
            inner = ast.Try(body=st.body, handlers=st.handlers, orelse=st.orelse, finalbody=[])
            ast.copy_location(inner, st)
            try:
                if st.handlers:
                    self.s_Try(fr, inner)
                else:
                    self.exec_block(fr, st.body)
            except (ReturnEx, BreakEx, ContinueEx, PyRaise) as pending:
                self.exec_block(fr, st.finalbody)
                raise pending
            self.exec_block(fr, st.finalbody)
            return
        try:
            self.exec_block(fr, st.body)
        except PyRaise as e:
            for h in st.handlers:
                names = []
                if h.type is None:
                    names = ['BaseException']
                elif isinstance(h.type, ast.Tuple):
                    names = [self._excname(x) for x in h.type.elts]
                else:
                    names = [self._excname(h.type)]
                if any(exc_isa(e.exc, n) for n in names):
                    if h.name:
                        fr.env[h.name] = SDyn(Val.VObj(z3.Int(self.fresh('exc'))))
                    self.handling.append(e)
                    try:
                        self.exec_block(fr, h.body)
                    finally:
                        self.handling.pop()
                    return
            raise
        else:
            self.exec_block(fr, st.orelse)

    def _excname(self, n):
        if isinstance(n, ast.Name): return n.id
        if isinstance(n, ast.Attribute): return n.attr
        raise Unsupported('except clause')

    def s_FunctionDef(self, fr, st):
        qual = (fr.func.qual + '.' if fr.func else '') + st.name
        fr.env[st.name] = SFunc(st, fr.mod, qual, closure=dict(fr.closure, **fr.env), cls=fr.cls)
        # the closure sees later rebinding of enclosing names only in rare code; snapshot semantics is
        # sound for the functions under contract (checked: no rebinding after def in the subset).

    # ---- assignment ---------------------------------------------------------
    def s_Assign(self, fr, st):
        v = self.eval(fr, st.value)
        for t in st.targets:
            self.assign(fr, t, v)

    def s_AnnAssign(self, fr, st):
        if st.value is not None:
            self.assign(fr, st.target, self.eval(fr, st.value))

    def s_AugAssign(self, fr, st):
        load = ast.copy_location(self._as_load(st.target), st.target)
        cur = self.eval(fr, load)
        rhs = self.eval(fr, st.value)
        if isinstance(cur, (SSeq,)) and isinstance(st.op, ast.Add):
            new = SSeq(z3.Concat(cur.t, self.as_seq(rhs).t), cur.kind, cur.elem)
        else:
            new = self.binop(fr, st.op, cur, rhs, st)
        self.assign(fr, st.target, new)

    def _as_load(self, t):
        if isinstance(t, ast.Name): return ast.Name(id=t.id, ctx=ast.Load())
        if isinstance(t, ast.Attribute): return ast.Attribute(value=t.value, attr=t.attr, ctx=ast.Load())
        if isinstance(t, ast.Subscript): return ast.Subscript(value=t.value, slice=t.slice, ctx=ast.Load())
        raise Unsupported('augmented assignment target')

    def assign(self, fr, target, v):
        if isinstance(target, ast.Name):
            fr.env[target.id] = v
            return
        if isinstance(target, (ast.Tuple, ast.List)):
            n = len(target.elts)
            if isinstance(v, STuple):
                if len(v.elems) != n:
                    raise PyRaise('ValueError', getattr(target, 'lineno', None), 'unpack arity')
                for t, e in zip(target.elts, v.elems):
                    self.assign(fr, t, e)
                return
            seq = self.as_seq(v)
            if not self.specmode:
                if isinstance(v, SDyn) and self.branch(z3.Not(Val.is_VSeq(v.t))):
                    raise PyRaise('TypeError', getattr(target, 'lineno', None), 'cannot unpack non-iterable')
                if self.branch(z3.Length(seq.t) != n):
                    raise PyRaise('ValueError', getattr(target, 'lineno', None), 'unpack arity')
            for k, t in enumerate(target.elts):
                e = seq.t[k]
                self.assign(fr, t, self.from_val(e, seq.elem) if seq.elem is not None else SDyn(e))
            return
        if isinstance(target, ast.Attribute):
            base = self.eval(fr, target.value)
            if isinstance(base, SObj):
                if base.old:
                    raise Unsupported('assignment to old state')
                ci = self.obj_class(base)
                if ci is not None and not self.specmode:
                    slots = self.class_slots(ci)
                    if slots is not None and target.attr not in slots:
                        raise PyRaise('AttributeError', getattr(target, 'lineno', None), f'no slot {target.attr}')
                self.heap[base.oid][target.attr] = v
                self.written.add((base.oid, target.attr))
                return
            if isinstance(base, SDyn) and not self.specmode:
                if not isinstance(base.shape, (S.Rec, S.Opaque)) and not self.d.contract_assumes('ATTRS_PRESENT'):
                    if self.branch(Val.is_VNone(base.t)):
                        raise PyRaise('AttributeError', getattr(target, 'lineno', None), "'NoneType' object has no attribute")
                self.set_fld(target.attr, base.t, self.to_val(v))
                return
            if isinstance(base, SDyn) and self.specmode:
                self.set_fld(target.attr, base.t, self.to_val(v))
                return
            raise Unsupported(f'attribute assignment on {base!r}')
        if isinstance(target, ast.Subscript):
            base = self.eval(fr, target.value)
            if isinstance(target.slice, ast.Slice):
                raise Unsupported('slice assignment')
            key = self.eval(fr, target.slice)
            if isinstance(base, STuple) and base.kind == 'list':
                base = self.as_seq(base)
            if isinstance(base, SSeq) and base.kind == 'list' and isinstance(key, (SInt, SBool)):
                self.check_alias(fr, base)
                k = self.as_int(key)
                L = z3.Length(base.t)
                if not self.specmode and self.branch(z3.Or(k < -L, k >= L)):
                    raise PyRaise('IndexError', getattr(target, 'lineno', None), 'list assignment index out of range')
                idx = z3.If(k < 0, L + k, k)
                # pointwise characterisation of the updated list (cheaper for the solver than concat/extract)
                new = z3.Const(self.fresh('upd'), SeqV)
                j = z3.Int(self.fresh('j'))
                self.assume(z3.Length(new) == L)
                self.assume(new[idx] == self.to_val(v))
                self.assume(z3.ForAll([j], z3.Implies(z3.And(j >= 0, j < L, j != idx), new[j] == base.t[j])))
                self.assign(fr, target.value, SSeq(new, 'list', base.elem))
                return
            raise Unsupported(f'subscript assignment on {base!r}')
        raise Unsupported(f'assignment target {type(target).__name__}')

    def class_slots(self, ci):
        """union of __slots__ over the MRO, or None if some class has no __slots__ (then __dict__ exists)"""
        out = set()
        for c in self.mro(ci):
            found = False
            for st in c.node.body:
                if isinstance(st, ast.Assign) and any(isinstance(t, ast.Name) and t.id == '__slots__' for t in st.targets):
                    found = True
                    if isinstance(st.value, (ast.Tuple, ast.List)):
                        out |= {e.value for e in st.value.elts if isinstance(e, ast.Constant)}
                    else:
                        return None
            if not found:
                return None
        return out

    # ---- loops -----------------------------------------------------------------
    def loop_ordinal(self, fr, st):
        k = self.loop_index.get(id(st))
        if k is None:
            raise Unsupported('loop not indexed')
        return k

    def modified_in(self, body):
        names, fields = set(), set()
        for st in body:
            for n in ast.walk(st):
                tgts = []
                if isinstance(n, ast.Assign): tgts = n.targets
                elif isinstance(n, (ast.AugAssign, ast.AnnAssign)): tgts = [n.target]
                elif isinstance(n, ast.For): tgts = [n.target]
                elif isinstance(n, ast.Call) and isinstance(n.func, ast.Attribute) and n.func.attr in (
                        'append', 'extend', 'pop', 'add', 'sort', 'insert', 'remove', 'clear', 'update', 'setdefault'):
                    tgts = [n.func.value]
                elif isinstance(n, ast.comprehension):
                    continue
                for t in tgts:
                    for x in ([t] if not isinstance(t, (ast.Tuple, ast.List)) else t.elts):
                        while isinstance(x, ast.Subscript):
                            x = x.value
                        if isinstance(x, ast.Name):
                            names.add(x.id)
                        elif isinstance(x, ast.Attribute) and isinstance(x.value, ast.Name):
                            fields.add((x.value.id, x.attr))
        return names, fields

    def s_For(self, fr, st):
        if st.orelse:
            raise Unsupported('for/else')
        it = self.eval(fr, st.iter)
        if isinstance(it, STuple):
            for e in it.elems:
                self.assign(fr, st.target, e)
                try:
                    self.exec_block(fr, st.body)
                except BreakEx:
                    break
                except ContinueEx:
                    continue
            return
        enum_index = None
        if isinstance(it, SEnum):
            if not (isinstance(st.target, ast.Tuple) and len(st.target.elts) == 2 and isinstance(st.target.elts[0], ast.Name)):
                raise Unsupported('for ... in enumerate target')
            enum_index = st.target.elts[0].id
            it = it.seq
            k0 = self.loop_ordinal(fr, st)
            st = ast.For(target=st.target.elts[1], iter=st.iter, body=st.body, orelse=st.orelse, lineno=st.lineno)
            self.loop_index[id(st)] = k0
        if isinstance(it, SObj):
            seq = self.table_seq(fr, it, st)
        elif isinstance(it, SRange):
            seq = None
        else:
            seq = self.as_seq(it)
            if isinstance(it, SDyn) and not self.d.contract_assumes('ITERABLE'):
                if self.branch(z3.Not(Val.is_VSeq(it.t))):
                    raise PyRaise('TypeError', st.lineno, 'object is not iterable')
        k = self.loop_ordinal(fr, st)
        spec = self.d.contract.loops.get(k)
        if spec is None:
            bound = self.d.contract.unroll
            if bound is None:
                raise Unsupported(f'loop #{k} at line {st.lineno} has no invariant')
            return self.unroll_for(fr, st, it, seq, bound, enum_index)
        n = z3.Length(seq.t) if seq is not None else z3.If(it.hi > it.lo, it.hi - it.lo, 0)

        def elem(i):
            if seq is None:
                return SInt(it.lo + i)
            return self.from_val(seq.t[i], seq.elem) if seq.elem is not None else SDyn(seq.t[i])

        inv = spec['inv']
        lab = f'loop{k}'

        def inv_parts(i):
            env = dict(fr.closure)
            env.update(fr.env)
            env['_i'] = SInt(i)
            env['_n'] = SInt(n)
            if seq is not None:
                env['_seq'] = seq        # the sequence being iterated (when the loop iterates an expression that has no name)
            if self.yielded is not None:
                env['_out'] = self.yielded
            return self.eval_contract_conjuncts(inv, env)

        def inv_at(i):
            ps = inv_parts(i)
            return z3.And(*ps) if len(ps) > 1 else ps[0]

        def prove_inv(i, kind):
            ps = inv_parts(i)
            for k, pr in enumerate(ps):
                self.prove(pr, kind, lab if len(ps) == 1 else f'{lab}.{k}', st.lineno, assume=(kind == 'inv-init'), focus=('inv', lab, k))

        def assume_inv(i):
            ps = inv_parts(i)
            for k, pr in enumerate(ps):
                if len(ps) > 1:
                    self.pc_tags[len(self.pc)] = ('inv', lab, k)
                self.assume(pr)

        prove_inv(z3.IntVal(0), 'inv-init')
        names, fields = self.modified_in(st.body)
        names |= set(spec.get('modifies', []))
        alt = self.choose(2)
        # havoc
        types = spec.get('types', {})
        for nm in sorted(names):
            if nm in types:
                fr.env[nm] = self.sym(types[nm], self.fresh('hv.' + nm), record=False)
            elif nm in fr.env:
                fr.env[nm] = self.havoc_like(fr.env[nm], nm)
        for (on, fld) in sorted(fields):
            o = fr.env.get(on)
            if isinstance(o, SObj) and fld in self.heap[o.oid]:
                self.heap[o.oid][fld] = self.havoc_like(self.heap[o.oid][fld], f'{on}.{fld}')
        if spec.get('fields'):
            # objects may have been constructed by earlier iterations: the allocation pointer only moves down
            a2 = z3.Int(self.fresh('alloc'))
            self.assume(a2 <= self.allocp)
            self.allocp = a2
        for fld in spec.get('fields', []):
            self.field_arr(fld)
            self.fields[fld] = z3.Const(self.fresh('hvF_' + fld), z3.ArraySort(Val, Val))
        for (on, fld) in sorted(fields):
            if not isinstance(fr.env.get(on), SObj):
                self.field_arr(fld)
                self.fields[fld] = z3.Const(self.fresh('hvF_' + fld), z3.ArraySort(Val, Val))
        if self.yielded is not None:
            self.yielded = SSeq(z3.Const(self.fresh('out'), SeqV), 'tuple')
        for nm in sorted(names):
            # whatever a variable holds at the loop head exists by then: it is none of the objects constructed afterwards
            hv = fr.env.get(nm)
            if isinstance(hv, SDyn):
                self.assume(z3.Or(z3.Not(Val.is_VObj(hv.t)), Val.o(hv.t) > self.allocp))
        if alt == 0:
            i = z3.Int(self.fresh('i'))
            self.assume(z3.And(i >= 0, i < n))
            assume_inv(i)
            self.assign(fr, st.target, elem(i))
            if enum_index is not None:
                fr.env[enum_index] = SInt(i)
            try:
                self.exec_block(fr, st.body)
            except ContinueEx:
                pass
            except BreakEx:
                return      # leaves the loop with the current state
            prove_inv(i + 1, 'inv-pres')
            raise PathEnd()
        else:
            assume_inv(n)
            # loop variable after the loop: last element if any (unknown otherwise)
            return

    def unroll_for(self, fr, st, it, seq, bound, enum_index=None):
        self.tier = 'T2'
        n = z3.Length(seq.t)
        self.assume(n <= bound)
        for i in range(bound):
            if not self.branch(n > i):
                return
            e = seq.t[i]
            self.assign(fr, st.target, self.from_val(e, seq.elem) if seq.elem is not None else SDyn(e))
            if enum_index is not None:
                fr.env[enum_index] = lift(i)
            try:
                self.exec_block(fr, st.body)
            except BreakEx:
                return
            except ContinueEx:
                continue

    def table_seq(self, fr, obj, st):
        """for x in <object>: objects with a declared ghost sequence field '_seq'"""
        rec = self.heap[obj.oid]
        if '_seq' in rec:
            return rec['_seq']
        raise Unsupported('iteration over an object without ghost sequence _seq')

    def s_While(self, fr, st):
        k = self.loop_ordinal(fr, st)
        spec = self.d.contract.loops.get(k)
        if spec is None:
            bound = self.d.contract.unroll
            if bound is None:
                raise Unsupported(f'while loop #{k} at line {st.lineno} has no invariant')
            self.tier = 'T2'
            for _ in range(bound):
                if not self.branch(self.truthy(self.eval(fr, st.test))):
                    return
                try:
                    self.exec_block(fr, st.body)
                except BreakEx:
                    return
                except ContinueEx:
                    continue
            # bound reached: stop exploring this path (bounded check)
            raise PathEnd()
        # inductive invariant: holds on entry; from an arbitrary state satisfying it, one iteration (test true) re-establishes
        # it (break leaves the loop with the state at the break, return / raise leave the function); after the loop the
        # invariant and the negated test hold.  Termination is not proved (partial correctness).
        inv = spec['inv']
        lab = f'loop{k}'

        def inv_parts():
            env = dict(fr.closure)
            env.update(fr.env)
            if self.yielded is not None:
                env['_out'] = self.yielded
            return self.eval_contract_conjuncts(inv, env)

        def prove_inv(kind):
            ps = inv_parts()
            for j, pr in enumerate(ps):
                self.prove(pr, kind, lab if len(ps) == 1 else f'{lab}.{j}', st.lineno, assume=(kind == 'inv-init'), focus=('inv', lab, j))

        prove_inv('inv-init')
        names, fields = self.modified_in(st.body)
        names |= set(spec.get('modifies', []))
        alt = self.choose(2)
        types = spec.get('types', {})
        for nm in sorted(names):
            if nm in types:
                fr.env[nm] = self.sym(types[nm], self.fresh('hv.' + nm), record=False)
            elif nm in fr.env:
                fr.env[nm] = self.havoc_like(fr.env[nm], nm)
        for (on, fld) in sorted(fields):
            o = fr.env.get(on)
            if isinstance(o, SObj) and fld in self.heap[o.oid]:
                self.heap[o.oid][fld] = self.havoc_like(self.heap[o.oid][fld], f'{on}.{fld}')
        if spec.get('fields'):
            a2 = z3.Int(self.fresh('alloc'))
            self.assume(a2 <= self.allocp)
            self.allocp = a2
        for fld in spec.get('fields', []):
            self.field_arr(fld)
            self.fields[fld] = z3.Const(self.fresh('hvF_' + fld), z3.ArraySort(Val, Val))
        for (on, fld) in sorted(fields):
            if not isinstance(fr.env.get(on), SObj):
                self.field_arr(fld)
                self.fields[fld] = z3.Const(self.fresh('hvF_' + fld), z3.ArraySort(Val, Val))
        if self.yielded is not None:
            self.yielded = SSeq(z3.Const(self.fresh('out'), SeqV), 'tuple')
        for nm in sorted(names):
            # whatever a variable holds at the loop head exists by then: it is none of the objects constructed afterwards
            hv = fr.env.get(nm)
            if isinstance(hv, SDyn):
                self.assume(z3.Or(z3.Not(Val.is_VObj(hv.t)), Val.o(hv.t) > self.allocp))
        ps = inv_parts()
        for j, pr in enumerate(ps):
            if len(ps) > 1:
                self.pc_tags[len(self.pc)] = ('inv', lab, j)
            self.assume(pr)
        test = self.truthy(self.eval(fr, st.test))
        if alt == 0:
            self.assume(test)
            try:
                self.exec_block(fr, st.body)
            except ContinueEx:
                pass
            except BreakEx:
                return      # leaves the loop with the current state
            prove_inv('inv-pres')
            raise PathEnd()
        if z3.is_true(z3.simplify(test)):
            raise PathEnd()     # `while True` is left only through break / return / raise
        self.assume(z3.Not(test))
        return
