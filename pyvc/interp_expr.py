"""Expression evaluation (code mode: forks and safety checks; spec mode: pure terms)."""
import ast
import z3
from . import spec as S
from . import modinfo
from .vals import *
from .core import *

EXTERNAL_MODULES = {'operator', 'itertools', 'datetime', 'decimal', 're', 'copy', 'collections', 'textwrap',
                    'typing', 'functools', 'dateutil', 'tatsu', 'math', 'io', 'sys', 'os', 'cmd', 'shlex',
                    'beancount', 'click', 'importlib', 'urllib', 'dataclasses', 'enum', 'collections.abc', 'csv'}

BUILTIN_NAMES = {'len', 'isinstance', 'issubclass', 'tuple', 'list', 'set', 'dict', 'range', 'enumerate', 'zip', 'reversed',
                 'sorted', 'any', 'all', 'min', 'max', 'sum', 'int', 'bool', 'str', 'float', 'hash', 'iter', 'next', 'getattr',
                 'setattr', 'hasattr', 'type', 'super', 'slice', 'object', 'abs', 'round', 'repr', 'print', 'callable',
                 'NotImplemented', 'filter', 'map', 'frozenset', 'id', 'divmod'}


class Frame:
    def __init__(self, env, mod, func=None, cls=None, closure=None):
        self.env, self.mod, self.func, self.cls, self.closure = env, mod, func, cls, closure or {}


class ExprMixin:
    specmode = 0

    # ---- names ---------------------------------------------------------
    def lookup(self, fr, name, node=None):
        if name in fr.env:
            return fr.env[name]
        if name in fr.closure:
            return fr.closure[name]
        if name in self.spec_env:
            return self.spec_env[name]
        v = self.mod_lookup(fr.mod, name)
        if v is not None:
            return v
        raise Unsupported(f'unbound name {name} (line {getattr(node, "lineno", "?")})')

    def mod_lookup(self, mod, name):
        key = (mod.name, name)
        if key in self.gcache:
            return self.gcache[key]
        v = self._mod_lookup(mod, name)
        if v is not None:
            self.gcache[key] = v
        return v

    def _mod_lookup(self, mod, name):
        oc = getattr(self.d.contract, 'opaque_ctors', None) or {}
        if name in oc:
            return SBuiltin('ctor!' + name)
        if name in (getattr(self.d.contract, 'pure_ctors', None) or []):
            return SBuiltin('purector!' + name)
        g = self.d.contract.globals
        if name in g and g[name] is not None:       # None: the real module-level binding, made nameable in contract lambdas
            return self.sym_cases_fixed(g[name], f'g.{name}')
        if name in mod.defs:
            node = mod.defs[name][-1]
            if isinstance(node, ast.ClassDef):
                return SClass(f'{mod.name}:{name}')
            return SFunc(node, mod, f'{mod.name}:{name}')
        if name in mod.assigns:
            val = mod.assigns[name][-1]
            return self.eval_module_const(mod, name, val)
        if name in mod.imports:
            imp = mod.imports[name]
            if imp[0] == 'module':
                return SModule(imp[1])
            m, n = imp[1], imp[2]
            sub = modinfo.load(f'{m}.{n}') if m else modinfo.load(n)
            if sub is not None:
                return SModule(sub.name)
            tm = modinfo.load(m)
            if tm is not None:
                r = self.mod_lookup(tm, n)
                if r is not None:
                    return r
                raise Unsupported(f'cannot resolve {m}.{n}')
            if f'{m}.{n}' == 'beancount.core.number.ZERO':
                return SDec(int2dec(0))
            return SBuiltin(f'{m}.{n}')
        if name in BUILTIN_NAMES or name in EXC_PARENTS or name in ('Exception', 'BaseException'):
            return SBuiltin(name)
        if name in S.SPECFUNCS:
            return SSpecFn(S.SPECFUNCS[name])
        if name in ('implies', 'iff', 'ev', 'old_len'):
            return SBuiltin('spec.' + name)
        return None

    def eval_module_const(self, mod, name, val):
        if isinstance(val, ast.Constant):
            return lift(val.value)
        if isinstance(val, ast.Call) and isinstance(val.func, ast.Name) and val.func.id == 'object' and not val.args:
            return SClass(f'{mod.name}:{name}!singleton')   # unique identity marker
        if isinstance(val, ast.Tuple) and all(isinstance(e, ast.Constant) for e in val.elts):
            return STuple([lift(e.value) for e in val.elts])
        if (isinstance(val, ast.Call) and isinstance(val.func, ast.Name) and val.args and isinstance(val.args[0], ast.Constant)
                and val.args[0].value == name):
            # X = factory('X', ...): a class manufactured at import time (parser.ast.node): opaque class named by its binding
            return SClass(f'{mod.name}:{name}')
        fr = Frame({}, mod)
        try:
            self.specmode += 1
            try:
                return self.eval(fr, val)
            except Unsupported:
                # a module-level value computed by something outside the model (re.compile(...), a registry built at import
                # time): an opaque constant - whatever the function does with it is explored for every possible answer
                self.d.used_builtins.add(f'opaque module constant: {mod.name}.{name}')
                t = z3.Const(f'modconst!{mod.name}.{name}', Val)
                self.assume(Val.is_VObj(t))       # an object (compiled pattern, registry ...), in particular not None
                return SDyn(t, shape=S.Opaque('modconst'))
        finally:
            self.specmode -= 1

    # ---- entry ------------------------------------------------------------
    def eval(self, fr, node):
        m = getattr(self, 'e_' + type(node).__name__, None)
        if m is None:
            raise Unsupported(f'expression {type(node).__name__} (line {getattr(node, "lineno", "?")})')
        return m(fr, node)

    def e_Constant(self, fr, node):
        v = node.value
        if isinstance(v, (bool, int, str)) or v is None:
            return lift(v)
        if v is Ellipsis:
            return NONE
        raise Unsupported(f'constant {v!r}')

    def e_Name(self, fr, node):
        return self.lookup(fr, node.id, node)

    def e_Tuple(self, fr, node):
        if any(isinstance(e, ast.Starred) for e in node.elts):
            elems = []
            for e in node.elts:
                if isinstance(e, ast.Starred):
                    v = self.eval(fr, e.value)
                    if isinstance(v, STuple):
                        elems += v.elems
                    else:
                        raise Unsupported('starred symbolic sequence in tuple display')
                else:
                    elems.append(self.eval(fr, e))
            return STuple(elems, 'tuple')
        return STuple([self.eval(fr, e) for e in node.elts], 'tuple')

    def e_List(self, fr, node):
        if any(isinstance(e, ast.Starred) for e in node.elts):
            # [a, *xs, b]: concatenation of unit sequences and the starred sequences
            parts = []
            for e in node.elts:
                if isinstance(e, ast.Starred):
                    parts.append(self.as_seq(self.eval(fr, e.value)).t)
                else:
                    parts.append(z3.Unit(self.to_val(self.eval(fr, e))))
            return SSeq(z3.Concat(*parts) if len(parts) > 1 else parts[0], 'list')
        elems = [self.eval(fr, e) for e in node.elts]
        # lists are mutable & usually grow: represent as symbolic sequence
        t = self.seq_of_tuple(STuple(elems))
        return SSeq(t, 'list')

    def e_Set(self, fr, node):
        # {a, b, ...}: membership array built by stores over the constant-false array (no lambda: keeps queries decidable)
        if any(isinstance(e, ast.Starred) for e in node.elts):
            raise Unsupported('starred set display')
        elems = [self.eval(fr, e) for e in node.elts]
        t = z3.K(Val, z3.BoolVal(False))
        for e in elems:
            t = z3.Store(t, self.to_val(e), z3.BoolVal(True))
        return SSet(t, src=SSeq(self.seq_of_tuple(STuple(elems)), 'list'))

    def e_JoinedStr(self, fr, node):
        parts = []
        for v in node.values:
            if isinstance(v, ast.Constant):
                parts.append(z3.StringVal(v.value))
            else:
                val = self.eval(fr, v.value)
                if isinstance(val, SStr) and v.conversion == -1 and v.format_spec is None:
                    parts.append(val.t)
                else:
                    f = uf('fmt', Val, z3.StringSort())
                    parts.append(f(self.to_val(val)))
        if not parts:
            return SStr(z3.StringVal(''))
        return SStr(parts[0] if len(parts) == 1 else z3.Concat(*parts))

    def e_Lambda(self, fr, node):
        return SFunc(node, fr.mod, '<lambda>', closure=dict(fr.closure, **fr.env), cls=fr.cls)

    def e_IfExp(self, fr, node):
        c = self.eval(fr, node.test)
        ct = self.truthy(c)
        if self.specmode:
            sc = z3.simplify(ct)
            if z3.is_true(sc): return self.eval(fr, node.body)
            if z3.is_false(sc): return self.eval(fr, node.orelse)
            return self.merge(ct, self.eval(fr, node.body), self.eval(fr, node.orelse))
        if self.branch(ct):
            return self.eval(fr, node.body)
        return self.eval(fr, node.orelse)

    def e_BoolOp(self, fr, node):
        isand = isinstance(node.op, ast.And)
        if self.specmode:
            vals = []
            for v in node.values:
                x = self.eval(fr, v)
                vals.append(x)
                # short-circuit on concrete values keeps partial specs well-defined
                tx = z3.simplify(self.truthy(x))
                if isand and z3.is_false(tx): break
                if not isand and z3.is_true(tx): break
            if all(isinstance(x, SBool) for x in vals):
                return SBool(z3.And(*[x.t for x in vals]) if isand else z3.Or(*[x.t for x in vals]))
            r = vals[-1]
            for x in reversed(vals[:-1]):
                tx = self.truthy(x)
                r = self.merge(tx, r, x) if isand else self.merge(tx, x, r)
            return r
        r = None
        for i, v in enumerate(node.values):
            r = self.eval(fr, v)
            if i == len(node.values) - 1:
                return r
            t = self.branch(self.truthy(r))
            if isand and not t: return r
            if not isand and t: return r
        return r

    def e_UnaryOp(self, fr, node):
        v = self.eval(fr, node.operand)
        if isinstance(node.op, ast.Not):
            return SBool(z3.Not(self.truthy(v)))
        if isinstance(node.op, ast.USub):
            if isinstance(v, (SInt, SBool)): return SInt(-self.as_int(v))
            if isinstance(v, SDec): return SDec(dec_neg(v.t))
            if isinstance(v, SDyn): return SDyn(uf('val_neg', Val, Val)(v.t))
        raise Unsupported(f'unary {type(node.op).__name__} on {v!r}')

    def as_int(self, v):
        if isinstance(v, SInt): return v.t
        if isinstance(v, SBool): return z3.If(v.t, 1, 0)
        raise Unsupported(f'as_int({v!r})')

    # ---- comparisons -------------------------------------------------------
    def e_Compare(self, fr, node):
        left = self.eval(fr, node.left)
        res = []
        for op, rn in zip(node.ops, node.comparators):
            right = self.eval(fr, rn)
            c = self.compare(fr, op, left, right, node)
            res.append(c)
            if not self.specmode and len(node.ops) > 1 and rn is not node.comparators[-1]:
                if not self.branch(self.truthy(c)):
                    return c
            left = right
        if len(res) == 1:
            return res[0]
        return SBool(z3.And(*[self.truthy(c) for c in res]))

    def compare(self, fr, op, a, b, node=None):
        if isinstance(op, (ast.Is, ast.IsNot)):
            r = self.identical(a, b)
            return SBool(r if isinstance(op, ast.Is) else z3.Not(r))
        if isinstance(op, (ast.Eq, ast.NotEq)):
            r = self.equal(fr, a, b, node)
            return SBool(r if isinstance(op, ast.Eq) else z3.Not(r))
        if isinstance(op, (ast.In, ast.NotIn)):
            r = self.contains(fr, b, a, node)
            return SBool(r if isinstance(op, ast.In) else z3.Not(r))
        # ordering
        r = self.order(fr, op, a, b, node)
        return SBool(r)

    def identical(self, a, b):
        if isinstance(a, SNone) or isinstance(b, SNone):
            other = b if isinstance(a, SNone) else a
            return self.is_none(other)
        if isinstance(a, SObj) and isinstance(b, SObj):
            return z3.BoolVal(a.oid == b.oid)
        if isinstance(a, SClass) and isinstance(b, SClass):
            return z3.BoolVal(a.qual == b.qual)
        if isinstance(a, SBool) and isinstance(b, SBool):
            return a.t == b.t
        if isinstance(a, SDyn) and isinstance(b, SBool):
            return a.t == Val.VBool(b.t)
        if isinstance(b, SDyn) and isinstance(a, SBool):
            return b.t == Val.VBool(a.t)
        if isinstance(a, (SDyn, SClass, SObj, SBuiltin)) and isinstance(b, (SDyn, SClass, SObj, SBuiltin)):
            return self.to_val(a) == self.to_val(b)
        prim = (SInt, SBool, SStr, SDec, SDate, STd)
        if isinstance(a, prim) and isinstance(b, prim) and type(a) is not type(b):
            return z3.BoolVal(False)
        ident = (SClass, SObj)
        if (isinstance(a, ident) and isinstance(b, prim + (SSeq, STuple, SSet))) or (isinstance(b, ident) and isinstance(a, prim + (SSeq, STuple, SSet))):
            return z3.BoolVal(False)
        raise Unsupported(f'is between {a!r} and {b!r}')

    def equal(self, fr, a, b, node=None):
        if isinstance(a, SNone) or isinstance(b, SNone):
            return self.identical(a, b)
        num = (SInt, SBool)
        if isinstance(a, num) and isinstance(b, num):
            if isinstance(a, SBool) and isinstance(b, SBool):
                return a.t == b.t
            return self.as_int(a) == self.as_int(b)
        if isinstance(a, SDec) and isinstance(b, num): return a.t == int2dec(self.as_int(b))
        if isinstance(b, SDec) and isinstance(a, num): return b.t == int2dec(self.as_int(a))
        if type(a) is type(b) and isinstance(a, (SStr, SDec, SDate, STd)):
            return a.t == b.t
        if isinstance(a, STuple) and isinstance(b, STuple):
            if len(a.elems) != len(b.elems):
                return z3.BoolVal(False)
            cs = [self.equal(fr, x, y, node) for x, y in zip(a.elems, b.elems)]
            return z3.And(*cs) if cs else z3.BoolVal(True)
        if isinstance(a, SSet) and isinstance(b, SSet):
            return a.t == b.t
        if isinstance(a, SIter) or isinstance(b, SIter):
            return self.as_seq(a).t == self.as_seq(b).t
        if isinstance(a, (SSeq, STuple)) and isinstance(b, (SSeq, STuple)):
            sa, sb = self.as_seq(a), self.as_seq(b)
            if sa.kind != sb.kind and not self.specmode:
                return z3.BoolVal(False)
            return sa.t == sb.t
        if isinstance(a, SObj) and isinstance(b, SObj) and not self.specmode:
            eqm = self.find_method(self.obj_class(a), '__eq__')
            if eqm is None:
                return z3.BoolVal(a.oid == b.oid)
            return self.truthy(self.call_value(fr, self.bind_method(eqm, a), [b], {}, node))
        if isinstance(a, SObj) or isinstance(b, SObj):
            if not self.specmode:
                o, other = (a, b) if isinstance(a, SObj) else (b, a)
                eqm = self.find_method(self.obj_class(o), '__eq__')
                if eqm is not None:
                    r = self.call_value(fr, self.bind_method(eqm, o), [other], {}, node)
                    if isinstance(r, SBuiltin) and r.name == 'NotImplemented':
                        return z3.BoolVal(False)
                    return self.truthy(r)
            if isinstance(a, SObj) and isinstance(b, SObj):
                return z3.BoolVal(a.oid == b.oid)
            return z3.BoolVal(False)
        if isinstance(a, SDyn) and isinstance(b, (SSeq, STuple)):
            return z3.And(Val.is_VSeq(a.t), items(Val.h(a.t)) == self.as_seq(b).t)
        if isinstance(b, SDyn) and isinstance(a, (SSeq, STuple)):
            return z3.And(Val.is_VSeq(b.t), items(Val.h(b.t)) == self.as_seq(a).t)
        try:
            return self.to_val(a) == self.to_val(b)
        except Unsupported:
            raise Unsupported(f'== between {a!r} and {b!r}')

    def contains(self, fr, container, x, node=None):
        if isinstance(container, SSet):
            if container.src is not None:
                self.setof(container.src.t, axioms=True)       # membership is asked: now the element / witness axioms matter
            return z3.Select(container.t, self.to_val(x))
        if isinstance(container, SDict):
            self.dict_hint(container, self.to_val(x))
            return z3.Select(container.has, self.to_val(x))
        if isinstance(container, SDictC):
            if not isinstance(x, SStr):
                raise Unsupported('non-string key in a string-keyed dict')
            cs = [x.t == z3.StringVal(k) for k in container.d]
            return z3.Or(*cs) if cs else z3.BoolVal(False)
        if isinstance(container, STuple):
            cs = [self.equal(fr, x, e, node) for e in container.elems]
            return z3.Or(*cs) if cs else z3.BoolVal(False)
        if isinstance(container, SSeq):
            return z3.Contains(container.t, z3.Unit(self.to_val(x)))
        if isinstance(container, SStr) and isinstance(x, SStr):
            return z3.Contains(container.t, x.t)
        if isinstance(container, SDyn):
            if not self.specmode and not self.d.contract_assumes('CONTAINER_OPERAND'):
                if self.branch(z3.Not(Val.is_VSeq(container.t))):
                    raise PyRaise('TypeError', getattr(node, 'lineno', None), 'argument of type is not iterable')
            return z3.Contains(items(Val.h(container.t)), z3.Unit(self.to_val(x)))
        if isinstance(container, SNone):
            if self.specmode:
                return z3.BoolVal(False)
            raise PyRaise('TypeError', getattr(node, 'lineno', None), "argument of type 'NoneType' is not iterable")
        raise Unsupported(f'in {container!r}')

    def order(self, fr, op, a, b, node=None):
        num = (SInt, SBool)
        def pick(lt, le, gt, ge):
            return {ast.Lt: lt, ast.LtE: le, ast.Gt: gt, ast.GtE: ge}[type(op)]
        if isinstance(a, num) and isinstance(b, num):
            x, y = self.as_int(a), self.as_int(b)
            return pick(x < y, x <= y, x > y, x >= y)
        if isinstance(a, (SDate, STd)) and type(a) is type(b):
            x, y = a.t, b.t
            return pick(x < y, x <= y, x > y, x >= y)
        if isinstance(a, (SDec,) + num) and isinstance(b, (SDec,) + num):
            x = a.t if isinstance(a, SDec) else int2dec(self.as_int(a))
            y = b.t if isinstance(b, SDec) else int2dec(self.as_int(b))
            return pick(dec_lt(x, y), z3.Or(dec_lt(x, y), x == y), dec_lt(y, x), z3.Or(dec_lt(y, x), x == y))
        if isinstance(a, SStr) and isinstance(b, SStr):
            return pick(a.t < b.t, a.t <= b.t, b.t < a.t, b.t <= a.t)
        if isinstance(a, SNone) or isinstance(b, SNone):
            if self.specmode:
                return z3.BoolVal(False)
            raise PyRaise('TypeError', getattr(node, 'lineno', None), 'ordering with None')
        if isinstance(a, SObj) and not self.specmode:
            mname = {ast.Lt: '__lt__', ast.LtE: '__le__', ast.Gt: '__gt__', ast.GtE: '__ge__'}[type(op)]
            m = self.find_method(self.obj_class(a), mname)
            if m is not None:
                return self.truthy(self.call_value(fr, self.bind_method(m, a), [b], {}, node))
        try:
            x, y = self.to_val(a), self.to_val(b)
        except Unsupported:
            raise Unsupported(f'ordering between {a!r} and {b!r}')
        if not self.specmode and not self.d.contract_assumes('COMPARABLE'):
            bad = z3.Or(Val.is_VNone(x), Val.is_VNone(y))
            if self.branch(bad):
                raise PyRaise('TypeError', getattr(node, 'lineno', None), 'ordering with None')
        # integers compare as integers; other value pairs through the uninterpreted order of their column type
        isnum = lambda v: z3.Or(Val.is_VInt(v), Val.is_VBool(v))
        asint = lambda v: z3.If(Val.is_VInt(v), Val.i(v), z3.If(Val.b(v), 1, 0))
        both_int = z3.And(isnum(x), isnum(y))
        lt = z3.If(both_int, asint(x) < asint(y), val_lt(x, y))
        gt = z3.If(both_int, asint(x) > asint(y), val_lt(y, x))
        return pick(lt, z3.Or(lt, x == y), gt, z3.Or(gt, x == y))

    # ---- arithmetic ----------------------------------------------------------
    def e_BinOp(self, fr, node):
        a = self.eval(fr, node.left)
        b = self.eval(fr, node.right)
        return self.binop(fr, node.op, a, b, node)

    def py_floordiv(self, x, y):
        return z3.If(y > 0, x / y, (-x) / (-y))

    def binop(self, fr, op, a, b, node=None):
        ln = getattr(node, 'lineno', None)
        num = (SInt, SBool)
        if isinstance(a, num) and isinstance(b, num):
            x, y = self.as_int(a), self.as_int(b)
            if isinstance(op, ast.Add): return SInt(x + y)
            if isinstance(op, ast.Sub): return SInt(x - y)
            if isinstance(op, ast.Mult): return SInt(x * y)
            if isinstance(op, (ast.FloorDiv, ast.Mod)):
                if not self.specmode and self.branch(y == 0):
                    raise PyRaise('ZeroDivisionError', ln)
                q = self.py_floordiv(x, y)
                return SInt(q) if isinstance(op, ast.FloorDiv) else SInt(x - y * q)
            raise Unsupported(f'int {type(op).__name__}')
        if isinstance(a, (SDec,) + num) and isinstance(b, (SDec,) + num):
            x = a.t if isinstance(a, SDec) else int2dec(self.as_int(a))
            y = b.t if isinstance(b, SDec) else int2dec(self.as_int(b))
            if isinstance(op, ast.Add): return SDec(dec_add(x, y))
            if isinstance(op, ast.Sub): return SDec(dec_sub(x, y))
            if isinstance(op, ast.Mult): return SDec(dec_mul(x, y))
            if isinstance(op, (ast.Div, ast.Mod)):
                if not self.specmode and self.branch(y == int2dec(0)):
                    raise PyRaise('ZeroDivisionError', ln, 'decimal division by zero')
                return SDec(dec_div(x, y) if isinstance(op, ast.Div) else dec_mod(x, y))
            raise Unsupported(f'decimal {type(op).__name__}')
        if isinstance(a, SSet) and isinstance(b, SSet) and isinstance(op, (ast.Sub, ast.BitOr, ast.BitAnd)):
            # set difference / union / intersection on the membership arrays (no element sequence is known for the result)
            f = {ast.Sub: z3.SetDifference, ast.BitOr: z3.SetUnion, ast.BitAnd: z3.SetIntersect}[type(op)]
            return SSet(f(a.t, b.t))
        if isinstance(a, SStr) and isinstance(b, SStr) and isinstance(op, ast.Add):
            return SStr(z3.Concat(a.t, b.t))
        if isinstance(a, (SSeq, STuple)) and isinstance(b, (SSeq, STuple)) and isinstance(op, ast.Add):
            if isinstance(a, STuple) and isinstance(b, STuple) and a.kind == b.kind:
                return STuple(a.elems + b.elems, a.kind)
            sa, sb = self.as_seq(a), self.as_seq(b)
            if sa.kind != sb.kind and not self.specmode:
                raise PyRaise('TypeError', ln, 'list + tuple')
            r = z3.Concat(sa.t, sb.t)
            self.seq_facts('concat', r, sa.t, sb.t)
            return SSeq(r, sa.kind, sa.elem)
        if isinstance(a, (SSeq, STuple)) and isinstance(b, num) and isinstance(op, ast.Mult):
            sa = self.as_seq(a)
            n = self.as_int(b)
            if isinstance(a, STuple) and len(a.elems) == 1 or self._is_unit(sa.t):
                r = z3.Const(self.fresh('rep'), SeqV)
                j = z3.Int(self.fresh('j'))
                e = sa.t[0]
                self.assume(z3.Length(r) == z3.If(n > 0, n, 0))
                self.assume(z3.ForAll([j], z3.Implies(z3.And(j >= 0, j < z3.Length(r)), r[j] == e)))
                return SSeq(r, sa.kind, sa.elem)
            raise Unsupported('sequence repetition of non-unit sequence')
        if isinstance(a, SDate) and isinstance(b, STd) and isinstance(op, (ast.Add, ast.Sub)):
            return self.date_shift(a, b.t if isinstance(op, ast.Add) else -b.t, ln)
        if isinstance(a, STd) and isinstance(b, SDate) and isinstance(op, ast.Add):
            return self.date_shift(b, a.t, ln)
        if isinstance(a, SDate) and isinstance(b, SDate) and isinstance(op, ast.Sub):
            return STd(a.t - b.t)
        if isinstance(a, SDyn) or isinstance(b, SDyn):
            nm = 'val_' + type(op).__name__.lower()
            x, y = self.to_val(a), self.to_val(b)
            generic = uf(nm, Val, Val, Val)(x, y)
            if isinstance(op, (ast.Add, ast.Sub)):
                # integers add as integers; other operand kinds through the uninterpreted operator of their type
                ints = z3.And(Val.is_VInt(x), Val.is_VInt(y))
                r = Val.i(x) + Val.i(y) if isinstance(op, ast.Add) else Val.i(x) - Val.i(y)
                return SDyn(z3.If(ints, Val.VInt(r), generic))
            return SDyn(generic)
        if isinstance(a, SStr) and isinstance(op, ast.Mod):
            raise Unsupported('%-formatting')
        raise Unsupported(f'binop {type(op).__name__} on {a!r}, {b!r}')

    def _is_unit(self, t):
        return z3.is_app(t) and t.decl().kind() == z3.Z3_OP_SEQ_UNIT

    def date_shift(self, d, n, ln):
        r = d.t + n
        if not self.specmode:
            if self.branch(z3.Or(r < 1, r > MAXORD)):
                raise PyRaise('OverflowError', ln, 'date value out of range')
        return SDate(r)

    # ---- subscripts ----------------------------------------------------------
    def clamp(self, idx, L, default):
        """python slice bound clamping; idx may be None (SNone)"""
        if isinstance(idx, SNone):
            return default
        i = self.as_int(idx)
        return z3.If(i < 0, z3.If(L + i < 0, 0, L + i), z3.If(i > L, L, i))

    def slice_seq(self, seq, lo, hi):
        L = z3.Length(seq.t)
        a = self.clamp(lo, L, z3.IntVal(0))
        b = self.clamp(hi, L, L)
        n = z3.If(b - a > 0, b - a, 0)
        r = z3.SubSeq(seq.t, a, n)
        self.seq_facts('extract', r, seq.t, a, n)
        return SSeq(r, seq.kind, seq.elem)

    def eval_slice(self, fr, sl):
        lo = self.eval(fr, sl.lower) if sl.lower is not None else NONE
        hi = self.eval(fr, sl.upper) if sl.upper is not None else NONE
        st = self.eval(fr, sl.step) if sl.step is not None else NONE
        return SSlice(lo, hi, st)

    def e_Subscript(self, fr, node):
        base = self.eval(fr, node.value)
        if isinstance(node.slice, ast.Slice):
            key = self.eval_slice(fr, node.slice)
        else:
            key = self.eval(fr, node.slice)
        return self.getitem(fr, base, key, node)

    def getitem(self, fr, base, key, node=None):
        ln = getattr(node, 'lineno', None)
        if isinstance(base, SObj):
            m = self.find_method(self.obj_class(base), '__getitem__')
            if m is None:
                raise PyRaise('TypeError', ln, 'object is not subscriptable')
            return self.call_value(fr, self.bind_method(m, base), [key], {}, node)
        if isinstance(key, SSlice):
            if not isinstance(key.step, SNone):
                raise Unsupported('slice step')
            if isinstance(base, STuple) and all(isinstance(k, (SNone,)) or (isinstance(k, SInt) and z3.is_int_value(z3.simplify(k.t))) for k in (key.lo, key.hi)):
                lo = None if isinstance(key.lo, SNone) else z3.simplify(key.lo.t).as_long()
                hi = None if isinstance(key.hi, SNone) else z3.simplify(key.hi.t).as_long()
                return STuple(base.elems[lo:hi], base.kind)
            if isinstance(base, STuple) and not self.specmode:
                # symbolic bounds on a concrete tuple: case split over the clamped bounds
                n = len(base.elems)
                L = z3.IntVal(n)
                a = self.clamp(key.lo, L, z3.IntVal(0))
                b = self.clamp(key.hi, L, L)
                for ka in range(n + 1):
                    if self.branch(a == ka):
                        for kb in range(n + 1):
                            if self.branch(b == kb):
                                return STuple(base.elems[ka:kb], base.kind)
                raise PathEnd()
            if isinstance(base, (SSeq, STuple)):
                return self.slice_seq(self.as_seq(base), key.lo, key.hi)
            if isinstance(base, SStr):
                L = z3.Length(base.t)
                a = self.clamp(key.lo, L, z3.IntVal(0))
                b = self.clamp(key.hi, L, L)
                return SStr(z3.SubString(base.t, a, z3.If(b - a > 0, b - a, 0)))
            if isinstance(base, SDyn):
                return self.slice_seq(self.as_seq(base), key.lo, key.hi)
            raise Unsupported(f'slice of {base!r}')
        if isinstance(base, STuple):
            if isinstance(key, (SInt, SBool)):
                k = z3.simplify(self.as_int(key))
                n = len(base.elems)
                if z3.is_int_value(k):
                    kk = k.as_long()
                    if -n <= kk < n:
                        return base.elems[kk]
                    if self.specmode:
                        raise Unsupported('constant index out of range in spec')
                    raise PyRaise('IndexError', ln, 'tuple index out of range')
                if self.specmode:
                    r = None
                    for pos in range(n):
                        e = base.elems[pos]
                        r = e if r is None else self.merge(z3.Or(k == pos, k == pos - n), e, r)
                    if r is None:
                        raise Unsupported('index into empty tuple in spec')
                    return r
                # symbolic index into a concrete tuple: case split
                if self.branch(z3.Or(k < -n, k >= n)):
                    raise PyRaise('IndexError', ln, 'tuple index out of range')
                for pos in range(n):
                    if self.branch(z3.Or(k == pos, k == pos - n)):
                        return base.elems[pos]
                raise PathEnd()
            raise PyRaise('TypeError', ln, 'tuple indices must be integers or slices')
        if isinstance(base, (SSeq,)) or (isinstance(base, SDyn) and isinstance(key, (SInt, SBool))):
            seq = self.as_seq(base) if not isinstance(base, SSeq) else base
            if not isinstance(key, (SInt, SBool)):
                if isinstance(key, SDyn) and self.specmode:
                    key = SInt(z3.If(Val.is_VBool(key.t), z3.If(Val.b(key.t), 1, 0), Val.i(key.t)))     # a bool indexes as 0 / 1
                elif isinstance(key, SDyn):
                    # a value of unknown type used as an index: an int indexes, a bool indexes as 0 / 1, anything else is a TypeError
                    if self.branch(Val.is_VInt(key.t)):
                        key = SInt(Val.i(key.t))
                    elif self.branch(Val.is_VBool(key.t)):
                        key = SInt(z3.If(Val.b(key.t), 1, 0))
                    else:
                        raise PyRaise('TypeError', ln, 'list indices must be integers or slices')
                else:
                    raise Unsupported(f'index {key!r} into sequence')
            k = self.as_int(key)
            L = z3.Length(seq.t)
            if not self.specmode:
                if isinstance(base, SDyn) and not self.d.contract_assumes('ITERABLE') and self.branch(z3.Not(Val.is_VSeq(base.t))):
                    raise PyRaise('TypeError', ln, 'value is not subscriptable')
                if self.branch(z3.Or(k < -L, k >= L)):
                    raise PyRaise('IndexError', ln, 'index out of range')
            idx = z3.If(k < 0, L + k, k)
            sk = z3.simplify(k)
            if z3.is_int_value(sk) and sk.as_long() >= 0:
                idx = sk
            elif self.specmode:
                idx = k        # specifications index with non-negative integers only (DESIGN 2.4)
            t = seq.t[idx]
            r = self.from_val(t, seq.elem) if seq.elem is not None else SDyn(t)
            if getattr(seq, 'old', False) and isinstance(r, (SDyn, SSeq)):
                r.old = True
            return r
        if isinstance(base, SStr) and isinstance(key, (SInt, SBool)):
            k = self.as_int(key)
            L = z3.Length(base.t)
            if not self.specmode and self.branch(z3.Or(k < -L, k >= L)):
                raise PyRaise('IndexError', ln, 'string index out of range')
            return SStr(z3.SubString(base.t, z3.If(k < 0, L + k, k), 1))
        if isinstance(base, SDyn):
            # mapping-like opaque value
            f = uf('val_getitem', Val, Val, Val)
            return SDyn(f(base.t, self.to_val(key)))
        if isinstance(base, SDict):
            k = self.to_val(key)
            self.dict_hint(base, k)
            if not self.specmode and self.branch(z3.Not(z3.Select(base.has, k))):
                raise PyRaise('KeyError', ln, 'key not in dict')
            return SDyn(z3.Select(base.get, k))
        if isinstance(base, SDictC):
            k = z3.simplify(key.t) if isinstance(key, SStr) else None
            if k is not None and z3.is_string_value(k):
                if k.as_string() in base.d:
                    return base.d[k.as_string()]
                raise PyRaise('KeyError', ln, k.as_string())
            raise Unsupported('symbolic key into a concrete dict')
        if isinstance(base, SNone):
            raise PyRaise('TypeError', ln, "'NoneType' object is not subscriptable")
        raise Unsupported(f'subscript of {base!r}')

    # ---- attributes ----------------------------------------------------------
    def e_Attribute(self, fr, node):
        base = self.eval(fr, node.value)
        return self.getattr(fr, base, node.attr, node)

    def getattr(self, fr, base, name, node=None):
        ln = getattr(node, 'lineno', None)
        if isinstance(base, SOldNS):
            if name not in self.pre_env:
                raise Unsupported(f'old.{name}')
            v = self.pre_env[name]
            if isinstance(v, SObj):
                return SObj(v.oid, old=True)
            if isinstance(v, SDyn):
                return SDyn(v.t, v.callable, v.shape, old=True)
            if isinstance(v, SSeq):
                w = SSeq(v.t, v.kind, v.elem)
                w.old = True
                return w
            return v
        if isinstance(base, SObj):
            heap = self.pre_heap if base.old else self.heap
            rec = heap[base.oid]
            if name in rec:
                v = rec[name]
                if base.old and isinstance(v, SObj):
                    return SObj(v.oid, old=True)
                return v
            if name == '__class__':
                return SClass(rec['__class__'])
            ci = self.obj_class(base)
            got = self.find_class_attr(ci, name)
            if got is None:
                sh = rec.get('__shape__')
                if self.specmode:
                    raise Unsupported(f'spec reads undeclared attribute {name}')
                if sh is not None and getattr(sh, 'closed', False) and not self.specmode:
                    # reads clause of the contract: the object's declared fields are all the function may depend on
                    self.fail_path('frame', 'reads only the declared fields', ln, f'reads undeclared attribute {name} of {rec.get("__class__")}')
                    raise PathEnd()
                if sh is not None and not getattr(sh, 'complete', False):
                    # the contract's shape does not describe this field: undecided, not an AttributeError
                    raise Unsupported(f'attribute {name} is not part of the contract shape of {rec.get("__class__")}')
                raise PyRaise('AttributeError', ln, f'no attribute {name}')
            kind, val, owner = got
            if kind == 'method':
                decos = [self._deco_name(d) for d in val.decorator_list]
                if 'property' in decos:
                    return self.call_value(fr, SFunc(val, owner.mod, f'{owner.qual}.{name}', self_=base, cls=owner), [], {}, node)
                if 'staticmethod' in decos:
                    return SFunc(val, owner.mod, f'{owner.qual}.{name}', cls=owner)
                return SFunc(val, owner.mod, f'{owner.qual}.{name}', self_=base, cls=owner)
            return val
        if isinstance(base, SClass):
            ci = self.d.classinfo(base.qual)
            if ci is None:
                raise Unsupported(f'attribute {name} of external class {base.qual}')
            if name == '__name__':
                return lift(ci.node.name)
            got = self.find_class_attr(ci, name)
            if got is None:
                raise PyRaise('AttributeError', ln, f'class has no attribute {name}')
            kind, val, owner = got
            if kind == 'method':
                return SFunc(val, owner.mod, f'{owner.qual}.{name}', cls=owner)
            return val
        if isinstance(base, SModule):
            if f'{base.name}.{name}' in (getattr(self.d.contract, 'externals', None) or {}):
                return SBuiltin(f'{base.name}.{name}')        # declared external: not inlined even when its source is in reach
            m = modinfo.load(base.name)
            if m is not None:
                v = self.mod_lookup(m, name)
                if v is None:
                    sub = modinfo.load(f'{base.name}.{name}')
                    if sub is not None:
                        return SModule(sub.name)
                    raise Unsupported(f'{base.name}.{name} unresolved')
                return v
            return SBuiltin(f'{base.name}.{name}')
        if isinstance(base, SSuper):
            ci = base.cls
            for c in self.mro(ci)[1:]:
                for st in c.node.body:
                    if isinstance(st, ast.FunctionDef) and st.name == name:
                        return SFunc(st, c.mod, f'{c.qual}.{name}', self_=base.self_, cls=c)
            if name == '__init__':
                return SBuiltin('object.__init__', base.self_)
            raise Unsupported(f'super().{name}')
        if isinstance(base, SDyn):
            if name == '__name__' and not (isinstance(base.shape, S.Rec) and name in base.shape.attrs):
                # the name of a class (or function) object is a string
                t = self.fld(name, base.t, base.old)
                self.assume(Val.is_VStr(t))
                return self.from_val(t, S.Str())
            if isinstance(base.shape, S.Rec) and name in base.shape.attrs:
                r = self.from_val(self.fld(name, base.t, base.old), base.shape.attrs[name])
                if base.old and isinstance(r, (SDyn, SSeq)):
                    r.old = True
                return r
            if not self.specmode and not (isinstance(base.shape, (S.Rec, S.Opaque, S.Child)) or self.d.contract_assumes('ATTRS_PRESENT')):
                if self.branch(Val.is_VNone(base.t)):
                    raise PyRaise('AttributeError', ln, f"'NoneType' object has no attribute {name}")
            if not self.specmode and not isinstance(base.shape, (S.Rec, S.Opaque, S.Child)) and name not in ('real', 'imag', 'numerator', 'denominator'):
                # ATTRS_PRESENT is an assumption about objects: an int / bool never has the attributes the code reads from nodes
                # (only when the path condition already forces the value to be an int: for a value of unknown type the
                # assumption stands)
                if self.feasible(z3.Not(z3.Or(Val.is_VInt(base.t), Val.is_VBool(base.t)))) == 'unsat':
                    raise PyRaise('AttributeError', ln, f"'int' object has no attribute {name}")
            return SDyn(self.fld(name, base.t, base.old), old=base.old)
        if isinstance(base, SNone):
            if self.specmode:
                raise Unsupported(f'None.{name} in spec')
            raise PyRaise('AttributeError', ln, f"'NoneType' object has no attribute '{name}'")
        if isinstance(base, STd) and name == 'days':
            return SInt(base.t)
        if isinstance(base, SDate) and name in ('year', 'month', 'day'):
            return self.date_part(base, name)
        if isinstance(base, (SSeq, STuple, SStr, SSet, SInt, SDec, SDate, STd, SIter, SDictC, SDict)):
            return SBuiltin('m.' + name, base)
        if isinstance(base, SBuiltin) and base.self_ is None and name == '__name__' and base.name in ('bool', 'int', 'str', 'list', 'tuple', 'dict', 'set', 'float', 'object'):
            return lift(base.name)
        if isinstance(base, SBuiltin) and base.self_ is None and not base.name.startswith(('m.', 'spec.', 'dynmeth!', 'exc!')):
            return SBuiltin(f'{base.name}.{name}')
        if isinstance(base, SSlice) and name in ('start', 'stop', 'step'):
            return {'start': base.lo, 'stop': base.hi, 'step': base.step}[name]
        raise Unsupported(f'attribute {name} of {base!r}')

    def _deco_name(self, d):
        if isinstance(d, ast.Name): return d.id
        if isinstance(d, ast.Attribute): return d.attr
        if isinstance(d, ast.Call): return self._deco_name(d.func)
        return None

    def date_part(self, d, name):
        from . import dates
        return dates.part(self, d, name)
