"""Calendar model: dates are proleptic Gregorian ordinals; y/m/d are uninterpreted
projections constrained by trusted axioms added on demand."""
import z3
from .vals import *
from .core import Unsupported, PyRaise

date_y = z3.Function('date_y', I, I)
date_m = z3.Function('date_m', I, I)
date_d = z3.Function('date_d', I, I)
mkdate = z3.Function('mkdate', I, I, I, I)     # ordinal of (y, m, d) for valid dates


def is_leap(y):
    return z3.And(y % 4 == 0, z3.Or(y % 100 != 0, y % 400 == 0))


def dim(y, m):
    return z3.If(m == 2, z3.If(is_leap(y), 29, 28), z3.If(z3.Or(m == 4, m == 6, m == 9, m == 11), 30, 31))


def valid(y, m, d):
    return z3.And(y >= 1, y <= 9999, m >= 1, m <= 12, d >= 1, d <= dim(y, m))


def lexlt(a, b):
    (y1, m1, d1), (y2, m2, d2) = a, b
    return z3.Or(y1 < y2, z3.And(y1 == y2, z3.Or(m1 < m2, z3.And(m1 == m2, d1 < d2))))


def register(run, y, m, d, o):
    """trusted calendar facts, instantiated for every pair of dates of the path: the ordinal is
    strictly monotone in (y, m, d) and injective; 0001-01-01 has ordinal 1."""
    terms = run.gcache.setdefault('date-terms', [])
    for (y2, m2, d2, o2) in terms:
        run.assume((o < o2) == lexlt((y, m, d), (y2, m2, d2)))
        run.assume((o == o2) == z3.And(y == y2, m == m2, d == d2))
    terms.append((y, m, d, o))


def part(run, d, name):
    o = d.t
    y, m, dd = date_y(o), date_m(o), date_d(o)
    key = ('date-axioms', str(o))
    if key not in run.gcache:
        run.gcache[key] = True
        run.assume(valid(y, m, dd))
        run.assume(mkdate(y, m, dd) == o)
        register(run, y, m, dd, o)
    return SInt({'year': y, 'month': m, 'day': dd}[name])


def make_date(run, args, node):
    if len(args) != 3 or not all(isinstance(a, (SInt, SBool)) for a in args):
        raise Unsupported('datetime.date(...) with non-int arguments')
    y, m, d = [run.as_int(a) for a in args]
    ln = getattr(node, 'lineno', None)
    if not run.specmode:
        big = 2 ** 31
        if run.branch(z3.Or(*[z3.Or(v >= big, v < -big) for v in (y, m, d)])):
            raise PyRaise('OverflowError', ln, 'Python int too large to convert to C int')
        if run.branch(z3.Not(valid(y, m, d))):
            raise PyRaise('ValueError', ln, 'day/month/year out of range')
    o = mkdate(y, m, d)
    run.assume(z3.And(o >= 1, o <= MAXORD))
    run.assume(z3.And(date_y(o) == y, date_m(o) == m, date_d(o) == d))
    key = ('date-axioms', str(o))
    if key not in run.gcache:
        run.gcache[key] = True
        register(run, y, m, d, o)
    return SDate(o)
