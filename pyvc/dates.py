"""Calendar model: dates are proleptic Gregorian ordinals; y/m/d are uninterpreted
projections constrained by trusted axioms added on demand."""
import z3
from .vals import *
from .core import Unsupported, PyRaise

date_y = z3.Function('date_y', I, I)
date_m = z3.Function('date_m', I, I)
date_d = z3.Function('date_d', I, I)
mkdate = z3.Function('mkdate', I, I, I, I)     # ordinal of (y, m, d) for valid dates


def is_leap(y):
    return z3.And(y % 4 == 0, z3.Or(y % 100 != 0, y % 400 == 0))


def dim(y, m):
    return z3.If(m == 2, z3.If(is_leap(y), 29, 28), z3.If(z3.Or(m == 4, m == 6, m == 9, m == 11), 30, 31))


def valid(y, m, d):
    return z3.And(y >= 1, y <= 9999, m >= 1, m <= 12, d >= 1, d <= dim(y, m))


def part(run, d, name):
    o = d.t
    y, m, dd = date_y(o), date_m(o), date_d(o)
    key = ('date-axioms', str(o))
    if key not in run.gcache:
        run.gcache[key] = True
        run.assume(valid(y, m, dd))
        run.assume(mkdate(y, m, dd) == o)
    return SInt({'year': y, 'month': m, 'day': dd}[name])


def make_date(run, args, node):
    if len(args) != 3 or not all(isinstance(a, (SInt, SBool)) for a in args):
        raise Unsupported('datetime.date(...) with non-int arguments')
    y, m, d = [run.as_int(a) for a in args]
    ln = getattr(node, 'lineno', None)
    if not run.specmode:
        if run.branch(z3.Not(valid(y, m, d))):
            raise PyRaise('ValueError', ln, 'day/month/year out of range')
    o = mkdate(y, m, d)
    run.assume(z3.And(o >= 1, o <= MAXORD))
    run.assume(z3.And(date_y(o) == y, date_m(o) == m, date_d(o) == d))
    return SDate(o)
