"""Driver: verifies one contract against the real function extracted from /repo."""
import ast
import sys
import time
import traceback
import itertools
import z3
from . import spec as S
from . import modinfo
from .vals import *
from .core import *
from .interp_expr import ExprMixin, Frame
from .interp_call import CallMixin, ClassInfo
from .interp_builtins import BuiltinMixin
from .interp_stmt import StmtMixin, PURE_DYN_METHODS


class Path(PathRun, ExprMixin, CallMixin, BuiltinMixin, StmtMixin):
    def __init__(self, driver, prefix):
        PathRun.__init__(self, driver, prefix)
        self.spec_env = {}
        self.pre_env = {}
        self.handling = []
        self.written = set()
        self.loop_index = driver.loop_index
        self.cur_line = None

    def sym_cases_fixed(self, shape, name):
        cs = shape.cases()
        k = self.choose(len(cs)) if len(cs) > 1 else 0
        return self.sym(cs[k], name)

    def e_Call(self, fr, node):
        if (isinstance(node.func, ast.Name) and node.func.id in ('all', 'any') and len(node.args) == 1
                and isinstance(node.args[0], ast.GeneratorExp) and node.func.id not in fr.env):
            r = self.quantify(fr, node.args[0], node.func.id == 'all')
            if r is not None:
                return r
        if (isinstance(node.func, ast.Name) and node.func.id == 'sum' and len(node.args) == 1 and isinstance(node.args[0], ast.GeneratorExp)
                and isinstance(node.args[0].elt, ast.Constant) and node.args[0].elt.value == 1 and 'sum' not in fr.env):
            r = self.comprehension(fr, node.args[0], 'list')
            return lift(len(r.elems)) if isinstance(r, STuple) else SInt(z3.Length(r.t))
        if isinstance(node.func, ast.Name) and node.func.id == 'implies' and len(node.args) == 2 and self.specmode:
            a = self.truthy(self.eval(fr, node.args[0]))
            if z3.is_false(z3.simplify(a)):
                return SBool(z3.BoolVal(True))
            return SBool(z3.Implies(a, self.truthy(self.eval(fr, node.args[1]))))
        return CallMixin.e_Call(self, fr, node)

    def pure_ctor_fields(self, nm):
        """field names of a pure constructor declared as {name: module}: read from `name = node('Name', 'f1 f2 ...')` in
        that module of /repo (beanquery.parser.ast manufactures its node classes this way)"""
        pc = getattr(self.d.contract, 'pure_ctors', None)
        if not isinstance(pc, dict) or not pc.get(nm):
            return None
        m = modinfo.load(pc[nm])
        call = m.assigns.get(nm, [None])[-1] if m is not None else None
        cls = m.defs.get(nm, [None])[-1] if m is not None else None
        if (isinstance(cls, ast.ClassDef) and len(cls.bases) == 1 and isinstance(cls.bases[0], ast.Name)
                and not any(isinstance(st, ast.FunctionDef) for st in cls.body)):
            # `class Match(BinaryOp): __slots__ = ()`: no constructor of its own, the fields of the manufactured base
            call = m.assigns.get(cls.bases[0].id, [None])[-1]
        if (isinstance(call, ast.Call) and isinstance(call.func, ast.Name) and call.func.id == 'node' and len(call.args) == 2
                and all(isinstance(a, ast.Constant) and isinstance(a.value, str) for a in call.args)):
            return call.args[1].value.split()
        raise Unsupported(f'field list of {pc[nm]}.{nm} not found')

    def call_builtin(self, fr, f, args, kw, node=None):
        if f.name.startswith('purector!'):
            nm = f.name[9:]
            ts = [self.to_val(a) for a in args]
            t = uf(f'ctor_{nm}_{len(ts)}', *([Val] * len(ts)), Val)(*ts)
            names = self.pure_ctor_fields(nm)
            if names is not None:
                # value object built by a generated dataclass constructor: its fields are the positional arguments
                if len(ts) > len(names):
                    raise PyRaise('TypeError', getattr(node, 'lineno', None), f'{nm}() takes {len(names)} positional arguments')
                for a, v in zip(names, ts):
                    self.assume(self.fld(a, t) == v)
                # remembered for prove(): the same projection facts are added for every ground application of this
                # constructor that turns up in a goal (e.g. an element of a comprehension once instantiated at an index)
                self.ctor_info.setdefault(t.decl().name(), [(a, self.field_arr(a)) for a in names[:len(ts)]])
            return SDyn(t)
        if f.name.startswith('ctor!'):
            nm = f.name[5:]
            attrs = self.d.contract.opaque_ctors[nm]
            if len(args) + len(kw) != len(attrs):
                raise PyRaise('TypeError', getattr(node, 'lineno', None), f'{nm}() arity')
            t = Val.VObj(self.allocp)
            self.allocp = z3.simplify(self.allocp - 1)
            self.assume(truthyV(t))
            self.set_fld('__ctor__', t, Val.VInt(z3.IntVal(class_id('ctor:' + nm))))     # which constructor built the object (isinstance tests)
            vals = dict(zip(attrs, args))
            vals.update(kw)
            for a in attrs:
                self.set_fld(a, t, self.to_val(vals[a]))
            return SDyn(t, shape=S.Rec(nm, attrs={}))
        if f.name.startswith('dynmeth!'):
            nm = f.name.split('!', 1)[1]
            mr = getattr(self.d.contract, 'method_results', None) or {}
            kws = sorted(kw.items())       # keyword arguments are arguments: they take part in the identity of the result
            if nm in mr:
                key = ('method-result', nm, str(f.self_.t), tuple(str(self.to_val(a)) for a in args), tuple((k, str(self.to_val(v))) for k, v in kws))
                if key not in self.gcache:
                    self.gcache[key] = self.sym_cases_fixed(mr[nm], self.fresh('mres.' + nm))
                return self.gcache[key]
            self.d.used_builtins.add('opaque-method:' + nm)
            gname = f'meth_{nm}_{len(args)}' + ''.join('_' + k for k, _ in kws)
            g = uf(gname, *([Val] * (len(args) + len(kws) + 1)), Val)
            return SDyn(g(f.self_.t, *[self.to_val(a) for a in args], *[self.to_val(v) for _, v in kws]))
        return BuiltinMixin.call_builtin(self, fr, f, args, kw, node)


class Result:
    def __init__(self, key):
        self.key = key
        self.obligations = []
        self.unsupported = []
        self.errors = []
        self.paths = 0
        self.cases = 0
        self.solver_time = 0.0
        self.wall = 0.0
        self.target = None
        self.inlined = []
        self.used_contracts = []
        self.used_builtins = []
        self.missing = None

    def asdict(self):
        return {'key': self.key, 'obligations': [o.asdict() for o in self.obligations], 'unsupported': self.unsupported,
                'errors': self.errors, 'paths': self.paths, 'cases': self.cases, 'solver_time': self.solver_time, 'wall': self.wall,
                'target': self.target, 'inlined': self.inlined, 'used_contracts': self.used_contracts,
                'used_builtins': self.used_builtins, 'missing': self.missing}


class Driver:
    MAX_PATHS = 400

    def __init__(self, contract, budget=None, all_contracts=None):
        self.contract = contract
        self.budget = budget or Budget()
        self.all = all_contracts if all_contracts is not None else S.CONTRACTS
        self.obligations = []
        self.ob_cache = {}
        self.solver_time = 0.0
        self.inlined = set()
        self.used_contracts = set()
        self.used_builtins = set()
        self.unknown_smt = []
        self.keep_unknown_smt = False
        self.last_smt = None
        self._classinfo = {}
        self.loop_index = {}
        self._callfuncs = set()
        self.ob_counter = {}
        self.case_label = ''
        self.axioms = None

    # -- helpers used by paths
    def ob_id(self, kind, label):
        return f'{self.contract.key}::{kind}:{label}'

    def contract_assumes(self, name):
        return name in self.contract.assumes

    def classinfo(self, qual):
        if qual not in self._classinfo:
            ci = None
            if qual and ':' in qual and not qual.endswith('!singleton'):
                try:
                    mod, node, _ = modinfo.resolve(qual)
                    if isinstance(node, ast.ClassDef):
                        ci = ClassInfo(qual, mod, node)
                except modinfo.TargetMissing:
                    ci = None
            self._classinfo[qual] = ci
        return self._classinfo[qual]

    def callee_contract(self, qual):
        c = self.contract.callees.get(qual) or self.all.get(qual)
        if c is not None and c.key != self.contract.key and c.kind in ('function', 'assumed'):
            modular = c.modular if c.modular is not None else (c.result is not None or c.kind == 'assumed')
            if modular:
                return c
        return None

    def may_inline(self, qual):
        return True

    def spec_mod(self, sf):
        return self.spec_mod_of(sf.fn)

    def spec_mod_of(self, fn):
        return _SpecMod.get(fn)

    def is_call_func(self, node):
        return id(node) in self._callfuncs

    def elt_is_total(self, node):
        return True

    def lift_const(self, path, v):
        return lift(v)

    def call_specfn_symbolic(self, path, sf, args):
        argk, retk = sf.sig
        sorts = {'val': Val, 'int': I, 'bool': B, 'seq': SeqV, 'str': z3.StringSort(), 'dec': Dec}
        wrap = {'val': SDyn, 'int': SInt, 'bool': SBool, 'seq': lambda t: SSeq(t, 'list'), 'str': SStr, 'dec': SDec}
        if sf.rec:
            f = _RECFUNS.get(sf.name)
            if f is None:
                f = z3.RecFunction('spec_' + sf.name, *[sorts[k] for k in argk], sorts[retk])
                _RECFUNS[sf.name] = f
                fn = sf.tree
                consts = [z3.Const(f'{sf.name}!{a.arg}', sorts[k]) for a, k in zip(fn.args.args, argk)]
                env = {a.arg: wrap[k](cst) for a, k, cst in zip(fn.args.args, argk, consts)}
                path.specmode += 1
                saved_pc = list(path.pc)
                try:
                    body = path.eval_spec_body(Frame(env, self.spec_mod(sf)), fn.body)
                finally:
                    path.specmode -= 1
                # instance axioms about the formal parameters (e.g. of comprehensions in the body) are dropped: the
                # function symbols they mention are shared with the code, whose own instances carry the facts
                del path.pc[len(saved_pc):]
                bt = {'val': path.to_val, 'int': path.as_int, 'bool': path.truthy, 'seq': lambda v: path.as_seq(v).t,
                      'str': lambda v: v.t, 'dec': lambda v: v.t}[retk](body)
                z3.RecAddDefinition(f, consts, bt)
        else:
            f = uf('spec_' + sf.name, *[sorts[k] for k in argk], sorts[retk])
        ts = []
        for k, a in zip(argk, args):
            if k == 'val': ts.append(path.to_val(a))
            elif k == 'int': ts.append(path.as_int(a))
            elif k == 'bool': ts.append(path.truthy(a))
            elif k == 'seq': ts.append(path.as_seq(a).t)
            elif k in ('str', 'dec'): ts.append(a.t)
        r = f(*ts)
        return {'val': SDyn, 'int': SInt, 'bool': SBool, 'seq': lambda t: SSeq(t, 'list'), 'str': SStr, 'dec': SDec}[retk](r)

    # -- model -> concrete description
    def concretize(self, path, model):
        out = {}
        for name, (shape, sv) in path.inputs.items():
            try:
                out[name] = self.conc_value(path, model, sv)
            except Exception as e:      # noqa
                out[name] = f'<?{type(e).__name__}>'
        # interpretation of ev on the inputs it was applied to
        try:
            evs = []
            for d in model.decls():
                if d.name() == 'ev':
                    fi = model[d]
                    for k in range(fi.num_entries()):
                        e = fi.entry(k)
                        evs.append([self.conc_term(model, e.arg_value(0)), self.conc_term(model, e.arg_value(1)), self.conc_term(model, e.value())])
                    evs.append(['else', None, self.conc_term(model, fi.else_value())])
            if evs:
                out['__ev__'] = evs
        except Exception:
            pass
        return out

    def conc_value(self, path, model, sv):
        if isinstance(sv, SNone): return None
        if isinstance(sv, (SBool, SInt, SStr, SDate, STd)):
            return self.conc_term(model, model.eval(sv.t, model_completion=True))
        if isinstance(sv, SDec):
            return self.conc_dec(model, model.eval(sv.t, model_completion=True))
        if isinstance(sv, SDyn):
            return self.conc_term(model, model.eval(sv.t, model_completion=True))
        if isinstance(sv, SCallee):
            return self.conc_term(model, model.eval(sv.t, model_completion=True))
        if isinstance(sv, SSeq):
            v = model.eval(sv.t, model_completion=True)
            n = model.eval(z3.Length(sv.t), model_completion=True).as_long()
            return {'seq': sv.kind, 'items': [self.conc_term(model, model.eval(sv.t[k], model_completion=True)) for k in range(min(n, 12))]}
        if isinstance(sv, STuple):
            return {'seq': sv.kind, 'items': [self.conc_value(path, model, e) for e in sv.elems]}
        if isinstance(sv, SObj):
            return {'obj': path.heap.get(sv.oid, {}).get('__class__', '?') if not sv.old else 'old'}
        return repr(sv)

    def conc_dec(self, model, t):
        """an element of the uninterpreted Decimal sort -> a number consistent with int2dec in the model"""
        out = {'dec': str(t)}
        try:
            n = model.eval(dec2int(t), model_completion=True)
            back = model.eval(int2dec(n), model_completion=True)
            if z3.is_int_value(n) and back.eq(t):
                out['num'] = str(n.as_long())
            else:
                out['num'] = str((n.as_long() if z3.is_int_value(n) else 0)) + '.5'
            for flag, fname in (('nan', 'dec_is_nan'), ('finite', 'dec_is_finite')):
                f = uf(fname, Dec, B)
                v = model.eval(f(t), model_completion=False)
                if z3.is_true(v) or z3.is_false(v):
                    out[flag] = z3.is_true(v)
        except Exception:
            pass
        return out

    def conc_term(self, model, t):
        if z3.is_int_value(t): return t.as_long()
        if z3.is_true(t): return True
        if z3.is_false(t): return False
        if z3.is_string_value(t): return t.as_string()
        if t.sort() == Val:
            nm = t.decl().name()
            if nm == 'VNone': return None
            if nm == 'VBool': return z3.is_true(t.arg(0))
            if nm == 'VInt': return t.arg(0).as_long() if z3.is_int_value(t.arg(0)) else str(t.arg(0))
            if nm == 'VStr': return t.arg(0).as_string() if z3.is_string_value(t.arg(0)) else str(t.arg(0))
            if nm == 'VDec': return self.conc_dec(model, t.arg(0))
            if nm == 'VDate': return {'date_ordinal': t.arg(0).as_long() if z3.is_int_value(t.arg(0)) else str(t.arg(0))}
            if nm == 'VObj': return {'obj': t.arg(0).as_long() if z3.is_int_value(t.arg(0)) else str(t.arg(0))}
            if nm == 'VSeq':
                h = t.arg(0)
                s = model.eval(items(h), model_completion=True)
                n = model.eval(z3.Length(items(h)), model_completion=True).as_long()
                return {'seq': 'list', 'items': [self.conc_term(model, model.eval(items(h)[k], model_completion=True)) for k in range(min(n, 8))]}
        return str(t)

    # -- main ------------------------------------------------------------------
    def index_loops(self, fnode):
        k = 0
        for n in ast.walk(fnode):
            if isinstance(n, ast.Call):
                self._callfuncs.add(id(n.func))
        for n in self._walk_no_nested(fnode):
            if isinstance(n, (ast.For, ast.While)):
                self.loop_index[id(n)] = k
                k += 1

    def _walk_no_nested(self, fnode):
        todo = list(fnode.body)
        while todo:
            n = todo.pop(0)
            yield n
            for ch in ast.iter_child_nodes(n):
                if isinstance(ch, (ast.FunctionDef, ast.ClassDef, ast.Lambda)):
                    continue
                todo.append(ch)

    def run(self):
        c = self.contract
        res = Result(c.key)
        t0 = time.time()
        if c.kind == 'lemma':
            return self.run_lemma(res, t0)
        try:
            mod, fnode, chain = modinfo.resolve(c.target)
        except modinfo.TargetMissing as e:
            res.missing = str(e)
            res.wall = time.time() - t0
            return res
        lo, hi, sha = mod.segment(fnode)
        res.target = {'qual': c.target, 'file': mod.path, 'lines': [lo, hi], 'sha1': sha}
        self.mod, self.fnode, self.chain = mod, fnode, chain
        for n in ast.walk(mod.tree):
            if isinstance(n, ast.Call):
                self._callfuncs.add(id(n.func))
        self.index_loops(fnode)
        # input cases
        pnames = list(c.params)
        cnames = list(c.closure)
        alts = [c.params[p].cases() for p in pnames] + [c.closure[n].cases() for n in cnames]
        for combo in itertools.product(*alts):
            res.cases += 1
            shapes = dict(zip(pnames + cnames, combo))
            self.case_label = ','.join(type(s).__name__ for s in combo)
            self.ob_cache = {k: v for k, v in self.ob_cache.items()}  # keep
            self.run_case(res, shapes, pnames, cnames)
        res.obligations = self.obligations
        res.solver_time = self.solver_time
        res.inlined = sorted(self.inlined)
        res.used_contracts = sorted(self.used_contracts)
        res.used_builtins = sorted(self.used_builtins)
        res.target['ast_sha'] = self.code_hash(fnode, res.inlined)
        res.wall = time.time() - t0
        return res

    @staticmethod
    def _norm_dump(node):
        """ast dump without docstrings (comments and layout are not in the ast)"""
        import copy
        n = copy.deepcopy(node)
        for sub in ast.walk(n):
            body = getattr(sub, 'body', None)
            if isinstance(sub, (ast.FunctionDef, ast.ClassDef, ast.Module)) and body and isinstance(body[0], ast.Expr) \
                    and isinstance(body[0].value, ast.Constant) and isinstance(body[0].value.value, str):
                sub.body = body[1:] or [ast.Pass()]
        return ast.dump(n)

    def code_hash(self, fnode, inlined):
        """identifies the code the obligations were generated from: the function under contract and every callee verified inline"""
        import hashlib
        parts = [self._norm_dump(fnode)]
        for q in inlined:
            try:
                parts.append(q + '=' + self._norm_dump(modinfo.resolve(q)[1]))
            except Exception:
                parts.append(q + '=?')
        return hashlib.sha1('\n'.join(parts).encode()).hexdigest()

    def run_lemma(self, res, t0):
        """a lemma over specification functions: params are universally quantified, requires => each ensures"""
        c = self.contract
        self.mod = _SpecMod.get(c.ensures_list()[0][1])
        pnames = list(c.params)
        alts = [c.params[p].cases() for p in pnames]
        res.target = {'qual': c.target, 'file': getattr(self.mod, 'path', '?'), 'lines': [0, 0], 'sha1': 'lemma'}
        for combo in itertools.product(*alts):
            res.cases += 1
            res.paths += 1
            p = Path(self, [(('case', res.cases), True)])
            p.taken.append((('case', res.cases), True))
            try:
                env = {n: p.sym(sh, n) for n, sh in zip(pnames, combo)}
                p.pre_env = dict(env)
                if c.requires is not None:
                    p.assume(p.truthy(p.eval_contract_fn(c.requires, env)))
                for lab, e in c.ensures_list():
                    p.prove(p.truthy(p.eval_contract_fn(e, env)), 'lemma', lab, None)
            except PathEnd:
                pass
            except Unsupported as e:
                res.unsupported.append({'why': str(e), 'line': None, 'path': p.path_id()})
        res.obligations = self.obligations
        res.solver_time = self.solver_time
        res.used_builtins = sorted(self.used_builtins)
        res.wall = time.time() - t0
        return res

    def run_case(self, res, shapes, pnames, cnames):
        pending = [[]]
        case_id = res.cases
        while pending:
            prefix = pending.pop()
            if res.paths >= self.MAX_PATHS:
                res.unsupported.append({'why': 'path budget exceeded', 'line': None})
                return
            res.paths += 1
            p = Path(self, prefix)
            p.taken.append((('case', case_id), True))
            p.prefix = [(('case', case_id), True)] + prefix
            try:
                self.run_path(p, shapes, pnames, cnames)
            except PathEnd:
                pass
            except Unsupported as e:
                import os
                if os.environ.get('PYVC_DEBUG'):
                    traceback.print_exc()
                res.unsupported.append({'why': str(e), 'line': p.cur_line, 'path': p.path_id()})
            except RecursionError:
                res.unsupported.append({'why': 'recursion limit', 'line': p.cur_line})
            except z3.Z3Exception as e:
                res.errors.append({'why': f'z3: {e}', 'line': p.cur_line, 'tb': traceback.format_exc()[-1500:]})
            for f in p.forks:
                pending.append(f[1:])

    def run_path(self, p, shapes, pnames, cnames):
        c = self.contract
        fnode = self.fnode
        env = {}
        closure = {}
        for n in pnames:
            env[n] = p.sym(shapes[n], n)
        for n in cnames:
            closure[n] = p.sym(shapes[n], n)
        cls = None
        for enc in reversed(self.chain):
            if isinstance(enc, ast.ClassDef):
                qual = c.target.split(':')[0] + ':' + c.target.split(':')[1].rsplit('.', 1)[0]
                cls = self.classinfo(qual)
                break
        # default arguments for unlisted parameters
        fr = Frame(env, self.mod, SFunc(fnode, self.mod, c.target, closure=closure, cls=cls), cls, closure)
        a = fnode.args
        names = [x.arg for x in a.posonlyargs + a.args]
        defaults = dict(zip(names[len(names) - len(a.defaults):], a.defaults)) if a.defaults else {}
        for n in names:
            if n not in env:
                if n in defaults:
                    env[n] = p.eval(fr, defaults[n])
                else:
                    raise Unsupported(f'parameter {n} has no shape')
        if a.vararg is not None and a.vararg.arg not in env:
            raise Unsupported(f'*{a.vararg.arg} has no shape')
        p.pre_env = dict(env)
        p.pre_env.update({k: v for k, v in closure.items() if k not in env})
        # object shape invariants (where=) and requires
        for n in pnames + cnames:
            sh = shapes[n]
            if isinstance(sh, S.Obj) and sh.where is not None:
                p.assume(p.truthy(p.eval_contract_fn(sh.where, {'self': env.get(n, closure.get(n)), n: env.get(n, closure.get(n))})))
        if c.requires is not None:
            allenv = dict(closure)
            allenv.update(env)
            p.assume(p.truthy(p.eval_contract_fn(c.requires, allenv)))
        p.snapshot_pre()
        # vacuity: requires satisfiable
        if p.feasible(z3.BoolVal(True)) == 'unsat':
            key = ('vacuity', tuple(p.taken))
            raise PathEnd()
        self.ok_cases = getattr(self, 'ok_cases', 0) + 1
        is_gen = p.has_yield(fnode) and not isinstance(fnode, ast.Lambda)
        if is_gen:
            p.yielded = SSeq(z3.Empty(SeqV), 'tuple')
        outcome, value = 'normal', NONE
        try:
            p.exec_block(fr, fnode.body)
        except ReturnEx as r:
            value = r.value
        except PyRaise as e:
            outcome, value = 'raise', e
        except (BreakEx, ContinueEx):
            raise Unsupported('break/continue outside loop')
        allenv = dict(closure)
        allenv.update(p.pre_env)
        # parameters are evaluated in the post-state through the heap; rebinding of parameter names is ignored,
        # but in-place mutation of a list parameter (value semantics: the name was re-bound by the mutation)
        # is visible to the caller unless the function also assigns the name plainly
        plain = {t.id for n in ast.walk(fnode) if isinstance(n, (ast.Assign, ast.AugAssign, ast.AnnAssign))
                 for t in (n.targets if isinstance(n, ast.Assign) else [n.target]) if isinstance(t, ast.Name)}
        for n in pnames:
            if isinstance(fr.env.get(n), (SSeq, SSet)) and n not in plain:
                allenv[n] = fr.env[n]
        if outcome == 'raise':
            e = value
            allowed = None
            for exc, cond in c.raises.items():
                if exc_isa(e.exc, exc):
                    allowed = (exc, cond)
                    break
            if allowed is None:
                p.fail_path('safety', f'no {e.exc}', e.lineno, f'{e.exc} escapes at line {e.lineno}: {e.why}')
            else:
                exc, cond = allowed
                if cond is not None:
                    env2 = dict(allenv)
                    env2['old'] = SOldNS()
                    p.prove(p.truthy(p.eval_contract_fn(cond, env2)), 'raises', f'{exc} only when permitted', e.lineno)
                else:
                    p.ok_path('raises', f'{exc} permitted', e.lineno)
            self.check_frame(p, allenv, 'exceptional')
            return
        if is_gen:
            value = p.yielded
        env2 = dict(allenv)
        env2['result'] = value
        env2['old'] = SOldNS()
        if c.ghost is not None:
            p.run_ghost(c.ghost, env2)
        # raises_iff: normal termination implies no raise-condition holds
        for exc, cond in c.raises.items():
            if cond is not None and getattr(c, 'raises_iff', True) and exc in getattr(c, 'must_raise', ()):
                p.prove(z3.Not(p.truthy(p.eval_contract_fn(cond, env2))), 'raises', f'{exc} must be raised', None)
        for lab, e in c.ensures_list():
            try:
                goals = p.eval_contract_conjuncts(e, env2)
            except PyRaise as ex:
                raise Unsupported(f'postcondition {lab} not evaluable: {ex}')
            for k, goal in enumerate(goals):
                p.prove(goal, 'post', lab, getattr(p, 'cur_line', None), assume=False, part=k)
        self.check_frame(p, allenv, 'normal')

    def check_frame(self, p, env, when):
        c = self.contract
        if c.modifies is None:
            return
        p.ok_path('frame', f'fields outside modifies are checked ({when})')
        if any(getattr(rec.get('__shape__'), 'closed', False) for rec in p.pre_heap.values()):
            p.ok_path('frame', 'reads only the declared fields')
        allowed = set()
        for path in c.modifies:
            parts = path.split('.')
            v = env.get(parts[0])
            for q in parts[1:-1]:
                v = p.heap[v.oid][q] if isinstance(v, SObj) else None
            if isinstance(v, SObj):
                allowed.add((v.oid, parts[-1]))
        for fname, arr in p.fields.items():
            if f'fields:{fname}' in c.modifies or fname.startswith('__'):
                continue
            init = p.pre_fields.get(fname, p.fields0.get(fname))
            if init is not None and not arr.eq(init):
                p.prove(arr == init, 'frame', f'attribute {fname} of objects outside the heap model is unchanged ({when})', None)
        for oid, rec in p.heap.items():
            pre = p.pre_heap.get(oid)
            if pre is None or pre.get('__shape__') is None:
                continue
            for fld in rec:
                if fld not in pre and not fld.startswith('__') and (oid, fld) not in allowed:
                    p.prove(False, 'frame', f'{pre.get("__class__", "?").split(":")[-1]}.{fld} is not written ({when})', None, detail='new attribute stored on an object outside modifies')
        for oid, rec in p.pre_heap.items():
            sh = rec.get('__shape__')
            for fld, old in rec.items():
                if fld.startswith('__') or (oid, fld) in allowed:
                    continue
                if sh is not None and fld in sh.ghost:
                    continue
                new = p.heap[oid].get(fld)
                if new is old:
                    continue
                try:
                    same = p.equal(None, new, old) if new is not None else z3.BoolVal(False)
                except Unsupported:
                    same = z3.BoolVal(False)
                p.prove(same, 'frame', f'{rec.get("__class__", "?").split(":")[-1]}.{fld} unchanged ({when})', None)


class _SpecModCls:
    """module context for contract/spec functions: names resolve to spec functions and helpers"""
    def __init__(self):
        self.cache = {}

    def get(self, fn):
        import inspect
        m = inspect.getmodule(fn)
        name = m.__name__ if m else '?'
        if name not in self.cache:
            self.cache[name] = _FakeMod(name, m)
        return self.cache[name]


class _FakeMod:
    def __init__(self, name, pymod):
        self.name = 'spec:' + name
        self.pymod = pymod
        self.defs = {}
        self.assigns = {}
        self.imports = {}
        self.path = getattr(pymod, '__file__', '?')


_SpecMod = _SpecModCls()
_RECFUNS = {}


def _spec_mod_lookup(orig):
    def lookup(self, mod, name):
        if isinstance(mod, _FakeMod):
            if name in (getattr(self.d.contract, 'pure_ctors', None) or []):
                return SBuiltin('purector!' + name)
            if name in S.SPECFUNCS:
                return SSpecFn(S.SPECFUNCS[name])
            if name in ('implies', 'iff', 'ev', 'set_of', 'forall', 'ext', 'inputs_unchanged', 'allocated'):
                return SBuiltin('spec.' + name)
            v = getattr(mod.pymod, name, None)
            if isinstance(v, S.SpecFunc):
                return SSpecFn(v)
            if isinstance(v, (bool, int, str)) or (v is None and hasattr(mod.pymod, name)):
                return lift(v)
            if isinstance(v, tuple) and all(isinstance(x, (bool, int, str)) for x in v):
                return lift(v)
            import decimal as _dm, datetime as _dt
            if v is _dm.Decimal:
                return SBuiltin('decimal.Decimal')
            if v is _dt:
                return SModule('datetime')
            if v is _dt.date:
                return SBuiltin('datetime.date')
            from .interp_expr import BUILTIN_NAMES
            if name in BUILTIN_NAMES:
                return SBuiltin(name)
            return None
        return orig(self, mod, name)
    return lookup


ExprMixin._mod_lookup = _spec_mod_lookup(ExprMixin._mod_lookup)


def verify(contract, timeout_ms=10000, feas_ms=3000):
    d = Driver(contract, Budget(timeout_ms, feas_ms))
    return d.run()
