"""debug runner: verify contracts whose key matches argv[1]"""
import sys, json, importlib
sys.path.insert(0, '/verif')
from pyvc import spec as S
from pyvc.driver import verify
for m in sys.argv[2:]:
    importlib.import_module(m)
pat = sys.argv[1]
for key, c in S.CONTRACTS.items():
    if pat not in key or c.kind == 'assumed':
        continue
    r = verify(c)
    print('==', key, 'paths', r.paths, 'cases', r.cases, 'solver %.2fs wall %.2fs' % (r.solver_time, r.wall), 'missing', r.missing)
    agg = {}
    for o in r.obligations:
        agg.setdefault((o.kind, o.label), []).append(o)
    for (k, l), obs in agg.items():
        vs = sorted({o.verdict for o in obs})
        print('   ', k, l, vs, len(obs))
        for o in obs:
            if o.verdict != 'proved':
                print('        ', o.verdict, 'line', o.lineno, o.detail, json.dumps(o.model, default=str)[:400])
                break
    for u in r.unsupported[:5]:
        print('    UNSUPPORTED', u)
    for e in r.errors[:3]:
        print('    ERROR', e['why'], e.get('tb', '')[-600:])
