"""debug runner: verify contracts whose key contains argv[1] (one fresh process per contract, like ./check)
usage: python3-vt pyvc/run1.py <substring> contracts.cNN [...]"""
import sys, json, importlib, os
import concurrent.futures as cf, multiprocessing as mp
sys.path.insert(0, '/verif')


def work(args):
    key, mods = args
    sys.path.insert(0, '/verif')
    from pyvc import spec as S
    from pyvc.driver import verify
    for m in mods:
        importlib.import_module(m)
    c = S.CONTRACTS[key]
    r = verify(c, c.timeout or 10000)
    lines = ['== %s paths %d cases %d solver %.2fs wall %.2fs missing %s' % (key, r.paths, r.cases, r.solver_time, r.wall, r.missing)]
    agg = {}
    for o in r.obligations:
        agg.setdefault((o.kind, o.label), []).append(o)
    for (k, l), obs in agg.items():
        vs = sorted({o.verdict for o in obs})
        lines.append('    %s %s %s %d' % (k, l, vs, len(obs)))
        for o in obs:
            if o.verdict != 'proved':
                lines.append('         %s line %s %s %s' % (o.verdict, o.lineno, o.detail, json.dumps(o.model, default=str)[:400]))
                break
    for u in r.unsupported[:5]:
        lines.append('    UNSUPPORTED %s' % u)
    for e in r.errors[:3]:
        lines.append('    ERROR %s %s' % (e['why'], e.get('tb', '')[-600:]))
    return '\n'.join(lines)


if __name__ == '__main__':
    from pyvc import spec as S
    mods = sys.argv[2:]
    for m in mods:
        importlib.import_module(m)
    keys = [k for k, c in S.CONTRACTS.items() if sys.argv[1] in k and c.kind != 'assumed']
    if os.environ.get('PYVC_DEBUG'):
        for k in keys:
            print(work((k, mods)))
    else:
        with cf.ProcessPoolExecutor(max_workers=8, mp_context=mp.get_context('spawn'), max_tasks_per_child=1) as pool:
            for out in pool.map(work, [(k, mods) for k in keys]):
                print(out)
