"""Classes, calls, builtins, comprehensions."""
import ast
import z3
from . import spec as S
from . import modinfo
from .vals import *
from .core import *
from .interp_expr import Frame


PURE_DYN_METHODS_ = {'walk', 'get', 'keys', 'values', 'items', 'currencies', 'get_currency_units', 'is_empty', 'lower', 'upper',
                     'strip', 'quantize', 'weekday', 'isoweekday', 'isocalendar', 'date', 'get_positions', 'copy',
                     'split', 'rstrip', 'lstrip', 'startswith', 'endswith', 'format', 'group', 'total_seconds', 'strftime',
                     'to_string', 'as_tuple', 'is_zero', 'build', 'join', 'reduce', 'fullmatch', 'match', 'search', 'findall', 'sub'}


class ClassInfo:
    def __init__(self, qual, mod, node):
        self.qual, self.mod, self.node = qual, mod, node
        self.bases = modinfo.class_bases(mod, node)


class CallMixin:
    # ---- classes ---------------------------------------------------------
    def obj_class(self, o):
        heap = self.pre_heap if o.old else self.heap
        return self.d.classinfo(heap[o.oid]['__class__'])

    def mro(self, ci):
        out, seen = [], set()

        def walk(c):
            if c is None or c.qual in seen:
                return
            seen.add(c.qual)
            out.append(c)
            for b in c.bases:
                if b and ':' in b:
                    walk(self.d.classinfo(b))
        walk(ci)
        return out

    def find_method(self, ci, name):
        if ci is None:
            return None
        for c in self.mro(ci):
            for st in c.node.body:
                if isinstance(st, ast.FunctionDef) and st.name == name:
                    return (st, c)
        return None

    def bind_method(self, m, obj):
        st, c = m
        return SFunc(st, c.mod, f'{c.qual}.{st.name}', self_=obj, cls=c)

    def find_class_attr(self, ci, name):
        if ci is None:
            return None
        for c in self.mro(ci):
            found = None
            for st in c.node.body:
                if isinstance(st, ast.FunctionDef) and st.name == name:
                    found = ('method', st, c)
                elif isinstance(st, ast.Assign):
                    for t in st.targets:
                        if isinstance(t, ast.Name) and t.id == name:
                            found = ('attr', st.value, c)
            if found:
                if found[0] == 'attr':
                    key = ('classattr', c.qual, name)
                    if key not in self.gcache:
                        ov = self.d.contract.globals.get(f'{c.node.name}.{name}')
                        if ov is not None:
                            self.gcache[key] = self.sym_cases_fixed(ov, f'g.{c.node.name}.{name}')
                        else:
                            fr = Frame({}, c.mod, cls=c)
                            self.gcache[key] = self.eval(fr, found[1])
                    return ('attr', self.gcache[key], c)
                return found
        return None

    def is_subclass(self, ci, qual):
        return any(c.qual == qual for c in self.mro(ci))

    # ---- calls -------------------------------------------------------------
    def e_Call(self, fr, node):
        # method call with possible receiver mutation
        if isinstance(node.func, ast.Attribute):
            recv = self.eval(fr, node.func.value)
            if isinstance(recv, (SSeq, SSet, SIter)) or (isinstance(recv, STuple) and recv.kind == 'list'):
                args = [self.eval(fr, a) for a in node.args]
                kw = {k.arg: self.eval(fr, k.value) for k in node.keywords}
                return self.seq_method(fr, recv, node.func.attr, args, kw, node.func.value, node)
            if isinstance(recv, SDec) and node.func.attr in (getattr(self.d.contract, 'method_results', None) or {}):
                # pure method of a Decimal with a declared result shape (as_tuple): one symbolic result per receiver term
                f = SBuiltin('dynmeth!' + node.func.attr, recv)
            elif isinstance(recv, SDyn) and not recv.callable and (node.func.attr in PURE_DYN_METHODS_
                                                                    or node.func.attr in (getattr(self.d.contract, 'method_results', None) or {})):
                ln = getattr(node, 'lineno', None)
                if not self.specmode and not isinstance(recv.shape, (S.Rec, S.Opaque)) and not self.d.contract_assumes('METHODS_PRESENT'):
                    if self.branch(Val.is_VNone(recv.t)):
                        raise PyRaise('AttributeError', ln, f"'NoneType' object has no attribute '{node.func.attr}'")
                f = SBuiltin('dynmeth!' + node.func.attr, recv)
            else:
                f = self.getattr(fr, recv, node.func.attr, node.func)
        else:
            f = self.eval(fr, node.func)
        args = []
        for a in node.args:
            if isinstance(a, ast.Starred):
                v = self.eval(fr, a.value)
                if isinstance(v, STuple):
                    args += v.elems
                else:
                    args.append(('*', v))
            else:
                args.append(self.eval(fr, a))
        kw = {}
        for k in node.keywords:
            if k.arg is None:
                raise Unsupported('**kwargs call')
            kw[k.arg] = self.eval(fr, k.value)
        return self.call_value(fr, f, args, kw, node)

    def call_value(self, fr, f, args, kw, node=None):
        ln = getattr(node, 'lineno', None)
        if isinstance(f, SBuiltin):
            return self.call_builtin(fr, f, args, kw, node)
        if any(isinstance(a, tuple) for a in args):
            # f(*symbolic_sequence)
            if isinstance(f, SCallee):
                pre = [a for a in args if not isinstance(a, tuple)]
                star = [a[1] for a in args if isinstance(a, tuple)]
                if len(star) == 1 and args.index(('*', star[0])) == len(args) - 1:
                    g = uf(f'applyseq{len(pre)}', *([Val] * (len(pre) + 1)), SeqV, Val)
                    return SDyn(g(f.t, *[self.to_val(a) for a in pre], self.as_seq(star[0]).t))
            raise Unsupported('star-args call')
        if isinstance(f, SSpecFn):
            return self.call_spec(fr, f.sf, args, kw, node)
        if isinstance(f, SFunc):
            return self.call_func(fr, f, args, kw, node)
        if isinstance(f, SClass):
            return self.instantiate(fr, f, args, kw, node)
        if isinstance(f, SCallee):
            return SDyn(apply_fn(len(args))(f.t, *[self.to_val(a) for a in args]))
        if isinstance(f, SDyn):
            if f.callable or self.specmode or self.d.contract_assumes('PURE_CHILDREN'):
                if len(args) != 1:
                    if kw:
                        raise Unsupported('child node call arity')
                    r = apply_fn(len(args))(f.t, *[self.to_val(a) for a in args])
                else:
                    r = ev(f.t, self.to_val(args[0]))
                if not self.specmode:
                    # a call the code really makes: what it returns exists now, so it is none of the objects constructed later
                    self.assume(z3.Or(z3.Not(Val.is_VObj(r)), Val.o(r) > self.allocp))
                return SDyn(r)
            raise Unsupported(f'call of opaque value {f!r}')
        if isinstance(f, SGetter):
            if f.kind == 'attr':
                return self.getattr(fr, args[0], f.arg, node)
            return self.getitem(fr, args[0], f.arg, node)
        if isinstance(f, (STuple, SSeq, SInt, SStr, SNone, SBool, SDec)):
            if self.specmode:
                raise Unsupported('call of non-callable in spec')
            raise PyRaise('TypeError', ln, f'{type(f).__name__[1:].lower()} object is not callable')
        if isinstance(f, SObj):
            m = self.find_method(self.obj_class(f), '__call__')
            if m is not None:
                return self.call_value(fr, self.bind_method(m, f), args, kw, node)
            raise PyRaise('TypeError', ln, 'object is not callable')
        raise Unsupported(f'call of {f!r}')

    def bind_args(self, fnode, args, kw, fr_for_defaults, self_=None):
        a = fnode.args
        names = [x.arg for x in a.posonlyargs + a.args]
        env = {}
        pos = list(args)
        if self_ is not None:
            pos = [self_] + pos
        if len(pos) > len(names) and a.vararg is None:
            raise PyRaise('TypeError', getattr(fnode, 'lineno', None), 'too many positional arguments')
        for n, v in zip(names, pos):
            env[n] = v
        if a.vararg is not None:
            env[a.vararg.arg] = STuple(pos[len(names):], 'tuple')
        for k, v in kw.items():
            if k in env:
                raise PyRaise('TypeError', None, f'multiple values for {k}')
            env[k] = v
        defaults = a.defaults
        dnames = names[len(names) - len(defaults):] if defaults else []
        for n, dnode in zip(dnames, defaults):
            if n not in env:
                env[n] = self.eval(fr_for_defaults, dnode)
        for kwn, dnode in zip(a.kwonlyargs, a.kw_defaults):
            if kwn.arg not in env and dnode is not None:
                env[kwn.arg] = self.eval(fr_for_defaults, dnode)
        missing = [n for n in names if n not in env]
        if missing:
            raise PyRaise('TypeError', getattr(fnode, 'lineno', None), f'missing arguments {missing}')
        return env

    def call_func(self, fr, f, args, kw, node=None):
        pc = getattr(self.d.contract, 'pure_callees', None) or {}
        if self.specmode and f.qual in pc:
            # assumed pure callee inside a comprehension / specification: the spec function it is assumed to compute
            sf = pc[f.qual][0]
            return self.call_spec(fr, getattr(sf, 'sf', sf), args, kw, node)
        # modular: a contract for the callee?
        c = self.d.callee_contract(f.qual)
        if c is not None and f.qual not in self.d.contract.inline and not self.specmode:
            return self.call_contract(fr, c, f, args, kw, node)
        if isinstance(f.node, ast.Lambda):
            defs_fr = Frame({}, f.mod, closure=f.closure, cls=f.cls)
            env = self.bind_args(f.node, args, kw, defs_fr, f.self_)
            return self.eval(Frame(env, f.mod, f, f.cls, f.closure), f.node.body)
        if self.depth > 6:
            raise Unsupported(f'inlining depth exceeded at {f.qual}')
        if not self.d.may_inline(f.qual):
            raise Unsupported(f'call to {f.qual} which has no contract (not inlined)')
        self.d.inlined.add(f.qual)
        defs_fr = Frame({}, f.mod, closure=f.closure, cls=f.cls)
        env = self.bind_args(f.node, args, kw, defs_fr, f.self_)
        nfr = Frame(env, f.mod, f, f.cls, f.closure)
        self.depth += 1
        try:
            if self.has_yield(f.node):
                raise Unsupported(f'inlined generator {f.qual}')
            self.exec_block(nfr, f.node.body)
            return NONE
        except ReturnEx as r:
            return r.value
        finally:
            self.depth -= 1

    def has_yield(self, fnode):
        for n in ast.walk(fnode):
            if isinstance(n, (ast.Yield, ast.YieldFrom)):
                # ignore yields of nested defs
                return True
        return False

    def instantiate(self, fr, cls, args, kw, node=None):
        ci = self.d.classinfo(cls.qual)
        if ci is None:
            raise Unsupported(f'instantiate external class {cls.qual}')
        c = self.d.callee_contract(cls.qual + '.__new__')
        o = self.alloc(cls.qual)
        m = self.find_method(ci, '__init__')
        if m is not None:
            self.call_value(fr, self.bind_method(m, o), args, kw, node)
        return o

    def call_spec(self, fr, sf, args, kw, node=None):
        if kw:
            raise Unsupported('kwargs to spec function')
        if sf.uninterpreted or sf.rec:
            return self.d.call_specfn_symbolic(self, sf, args)
        fn = sf.tree
        env = {a.arg: v for a, v in zip(fn.args.args, args)}
        if len(env) != len(fn.args.args):
            raise Unsupported(f'spec function {sf.name} arity')
        self.specmode += 1
        try:
            return self.eval_spec_body(Frame(env, self.d.spec_mod(sf)), fn.body)
        finally:
            self.specmode -= 1

    def eval_spec_body(self, fr, body):
        """body of a spec function: (docstring) assignments, if/return chains -> one value"""
        for i, st in enumerate(body):
            if isinstance(st, ast.Expr) and isinstance(st.value, ast.Constant):
                continue
            if isinstance(st, ast.Assign) and len(st.targets) == 1 and isinstance(st.targets[0], ast.Name):
                fr.env[st.targets[0].id] = self.eval(fr, st.value)
                continue
            if isinstance(st, ast.Return):
                return self.eval(fr, st.value) if st.value is not None else NONE
            if isinstance(st, ast.If):
                c = self.truthy(self.eval(fr, st.test))
                rest = body[i + 1:]
                sc = z3.simplify(c)
                if z3.is_true(sc):
                    return self.eval_spec_body(Frame(dict(fr.env), fr.mod), st.body + rest)
                if z3.is_false(sc):
                    return self.eval_spec_body(Frame(dict(fr.env), fr.mod), st.orelse + rest)
                a = self.eval_spec_body(Frame(dict(fr.env), fr.mod), st.body + rest)
                b = self.eval_spec_body(Frame(dict(fr.env), fr.mod), st.orelse + rest)
                return self.merge(c, a, b)
            raise Unsupported(f'statement {type(st).__name__} in spec function')
        return NONE

    # ---- modular call ---------------------------------------------------------
    def call_contract(self, fr, c, f, args, kw, node=None):
        ln = getattr(node, 'lineno', None)
        fnode = f.node
        defs_fr = Frame({}, f.mod, closure=f.closure, cls=f.cls)
        env = self.bind_args(fnode, args, kw, defs_fr, f.self_)
        self.d.used_contracts.add(c.key)
        label = f'call {c.key}@{ln}'
        if c.requires is not None:
            pre = self.eval_contract_fn(c.requires, env)
            self.prove(self.truthy(pre), 'call-pre', label, ln)
        pre_env = dict(env)
        saved_pre = (self.pre_env, self.pre_heap, self.pre_fields)
        self.pre_env, self.pre_heap, self.pre_fields = pre_env, {k: dict(v) for k, v in self.heap.items()}, dict(self.fields)
        try:
            # exceptional alternatives
            alts = ['normal'] + list(c.raises)
            k = self.choose(len(alts)) if len(alts) > 1 else 0
            for path in (c.modifies or []):
                if path.startswith('fields:'):
                    self.field_arr(path[7:])
                    self.fields[path[7:]] = z3.Const(self.fresh('hvF_' + path[7:]), z3.ArraySort(Val, Val))
                    continue
                self.havoc_path(env, path)
            if k > 0:
                exc = alts[k]
                cond = c.raises[exc]
                if cond is not None:
                    self.assume(self.truthy(self.eval_contract_fn(cond, env)))
                raise PyRaise(exc, ln, f'raised by callee {c.key}')
            for exc, cond in c.raises.items():
                if cond is not None and getattr(c, 'raises_iff', False):
                    self.assume(z3.Not(self.truthy(self.eval_contract_fn(cond, env))))
            res = NONE
            if c.result is not None:
                cases = c.result.cases()
                j = self.choose(len(cases)) if len(cases) > 1 else 0
                res = self.sym(cases[j], self.fresh(f'ret.{fnode.name}'), record=False)
            env2 = dict(env)
            env2['result'] = res
            env2['old'] = SOldNS()
            if c.ghost is not None:
                self.run_ghost(c.ghost, env2)
            for lab, e in c.ensures_list():
                self.assume(self.truthy(self.eval_contract_fn(e, env2)))
            return res
        finally:
            self.pre_env, self.pre_heap, self.pre_fields = saved_pre

    def havoc_path(self, env, path):
        parts = path.split('.')
        v = env.get(parts[0])
        if v is None:
            raise Unsupported(f'modifies path {path}')
        if len(parts) == 1:
            raise Unsupported('modifies of a parameter itself')
        for p in parts[1:-1]:
            v = self.heap[v.oid][p]
        if not isinstance(v, SObj):
            raise Unsupported(f'modifies path {path} through non-object')
        cur = self.heap[v.oid].get(parts[-1])
        sh = self.heap[v.oid].get('__shape__')
        fs = sh.allfields().get(parts[-1]) if sh is not None else None
        self.heap[v.oid][parts[-1]] = self.havoc_like(cur, path, fs)

    def havoc_like(self, cur, name, shape=None):
        n = self.fresh('hv.' + name)
        if isinstance(cur, SInt): return SInt(z3.Int(n))
        if isinstance(cur, SBool): return SBool(z3.Bool(n))
        if isinstance(cur, SStr): return SStr(z3.String(n))
        if isinstance(cur, SDec): return SDec(z3.Const(n, Dec))
        if isinstance(cur, SSeq): return SSeq(z3.Const(n, SeqV), cur.kind, cur.elem)
        if isinstance(cur, SSet): return SSet(z3.Const(n, z3.ArraySort(Val, B)))
        if isinstance(cur, STuple) and cur.kind == 'list': return SSeq(z3.Const(n, SeqV), 'list')
        if isinstance(cur, (SDyn, SNone)) or cur is None:
            return SDyn(z3.Const(n, Val))
        if isinstance(cur, SDate):
            t = z3.Int(n)
            self.assume(z3.And(t >= 1, t <= MAXORD))
            return SDate(t)
        raise Unsupported(f'havoc of {cur!r}')

    def eval_contract_fn(self, fn, env, mode='spec'):
        """evaluate a contract lambda/def (pure) against an environment by parameter name"""
        argnames, body = S.fn_tree(fn)
        e = {}
        for a in argnames:
            if a == 'old':
                e[a] = SOldNS()
            elif a in env:
                e[a] = env[a]
            elif a in self.d.contract.globals:
                e[a] = self.mod_lookup(self.d.mod, a)
            else:
                raise Unsupported(f'contract function parameter {a} not bound')
        if getattr(fn, '__closure__', None):
            for nm, cell in zip(fn.__code__.co_freevars, fn.__closure__):
                try:
                    v = cell.cell_contents
                except ValueError:
                    continue
                if v is None or isinstance(v, (bool, int, str)):
                    e.setdefault(nm, lift(v))
        fr = Frame(e, self.d.spec_mod_of(fn))
        self.specmode += 1
        try:
            if isinstance(body, list):
                return self.eval_spec_body(fr, body)
            return self.eval(fr, body)
        finally:
            self.specmode -= 1

    def eval_contract_conjuncts(self, fn, env):
        """like eval_contract_fn, but a top-level `and` is split: returns a list of z3 Bools (proved one by one)"""
        argnames, body = S.fn_tree(fn)
        if isinstance(body, list) or not (isinstance(body, ast.BoolOp) and isinstance(body.op, ast.And)):
            return [self.truthy(self.eval_contract_fn(fn, env))]
        e = {}
        for a in argnames:
            if a == 'old':
                e[a] = SOldNS()
            elif a in env:
                e[a] = env[a]
            elif a in self.d.contract.globals:
                e[a] = self.mod_lookup(self.d.mod, a)
            else:
                raise Unsupported(f'contract function parameter {a} not bound')
        if getattr(fn, '__closure__', None):
            for nm, cell in zip(fn.__code__.co_freevars, fn.__closure__):
                try:
                    v = cell.cell_contents
                except ValueError:
                    continue
                if v is None or isinstance(v, (bool, int, str)):
                    e.setdefault(nm, lift(v))
        fr = Frame(e, self.d.spec_mod_of(fn))
        out = []
        self.specmode += 1
        try:
            for part in body.values:
                out.append(self.truthy(self.eval(fr, part)))
        finally:
            self.specmode -= 1
        return out

    def run_ghost(self, fn, env):
        argnames, body = S.fn_tree(fn)
        e = {}
        for a in argnames:
            e[a] = SOldNS() if a == 'old' else env[a]
        fr = Frame(e, self.d.spec_mod_of(fn))
        self.specmode += 1
        try:
            for st in body:
                if isinstance(st, ast.Assign) and len(st.targets) == 1:
                    self.assign(fr, st.targets[0], self.eval(fr, st.value))
                elif isinstance(st, ast.Expr) and isinstance(st.value, ast.Constant):
                    pass
                elif isinstance(st, ast.Pass):
                    pass
                else:
                    raise Unsupported('ghost code must be simple assignments')
        finally:
            self.specmode -= 1

    # ---- sequence methods (receiver may be mutated: write back through the lvalue) ---
    def seq_method(self, fr, recv, name, args, kw, recv_node, node):
        ln = getattr(node, 'lineno', None)
        if isinstance(recv, STuple):
            recv = self.as_seq(recv)
        if isinstance(recv, SSet):
            if name == 'add':
                self.check_alias(fr, recv)
                self.assign(fr, recv_node, SSet(z3.Store(recv.t, self.to_val(args[0]), True)))
                return NONE
            raise Unsupported(f'set.{name}')
        if isinstance(recv, SIter):
            raise Unsupported(f'iterator.{name}')
        t = recv.t
        L = z3.Length(t)
        if name == 'append':
            self.check_alias(fr, recv)
            u = z3.Unit(self.to_val(args[0]))
            r = z3.Concat(t, u)
            self.seq_facts('concat', r, t, u)
            self.assign(fr, recv_node, SSeq(r, recv.kind, recv.elem))
            return NONE
        if name == 'extend':
            self.check_alias(fr, recv)
            self.assign(fr, recv_node, SSeq(z3.Concat(t, self.as_seq(args[0]).t), recv.kind, recv.elem))
            return NONE
        if name == 'pop':
            self.check_alias(fr, recv)
            if args:
                k = self.as_int(args[0])
            else:
                k = z3.IntVal(-1)
            if self.branch(z3.Or(k < -L, k >= L)):
                raise PyRaise('IndexError', ln, 'pop index out of range')
            idx = z3.If(k < 0, L + k, k)
            val = t[idx]
            new = z3.Concat(z3.SubSeq(t, 0, idx), z3.SubSeq(t, idx + 1, L - idx - 1))
            sk = z3.simplify(k)
            if z3.is_int_value(sk) and sk.as_long() == 0:
                val = t[0]
                new = z3.SubSeq(t, 1, L - 1)
            self.assign(fr, recv_node, SSeq(new, recv.kind, recv.elem))
            return self.from_val(val, recv.elem) if recv.elem is not None else SDyn(val)
        if name == 'copy':
            return SSeq(t, recv.kind, recv.elem)
        if name == 'index':
            x = self.to_val(args[0])
            if self.branch(z3.Not(z3.Contains(t, z3.Unit(x)))):
                raise PyRaise('ValueError', ln, 'value is not in list')
            k = z3.Int(self.fresh('idx'))
            j = z3.Int(self.fresh('j'))
            self.assume(z3.And(k >= 0, k < L, t[k] == x))
            self.assume(z3.ForAll([j], z3.Implies(z3.And(j >= 0, j < k), t[j] != x)))
            return SInt(k)
        if name == 'sort' and not args and set(kw) <= {'key', 'reverse'}:
            # xs.sort(key=, reverse=): xs becomes sorted(xs, key=, reverse=) (the stable sorted permutation), written back through the lvalue
            self.check_alias(fr, recv)
            reverse = False
            if kw.get('reverse') is not None:
                sr = z3.simplify(self.truthy(kw['reverse']))
                if not (z3.is_true(sr) or z3.is_false(sr)):
                    raise Unsupported('sort with symbolic reverse')
                reverse = z3.is_true(sr)
            out = self.sorted_model(fr, SSeq(t, 'list', recv.elem), kw.get('key'), reverse, node)
            self.assign(fr, recv_node, SSeq(out.t, recv.kind, recv.elem))
            return NONE
        if name == 'count' or name == 'sort' or name == 'insert' or name == 'remove' or name == 'reverse':
            raise Unsupported(f'list.{name}')
        raise Unsupported(f'sequence method {name}')

    def check_alias(self, fr, seqv):
        """value-semantics guard: refuse to mutate a list that is reachable under two names"""
        n = 0
        for v in fr.env.values():
            if v is seqv: n += 1
        for rec in self.heap.values():
            for v in rec.values():
                if v is seqv: n += 1
        if n > 1:
            raise Unsupported('mutation of an aliased list (value semantics would be unsound)')

    # ---- comprehensions ----------------------------------------------------------
    def e_ListComp(self, fr, node):
        return self.comprehension(fr, node, 'list')

    def e_GeneratorExp(self, fr, node):
        return self.comprehension(fr, node, 'tuple')

    def comprehension(self, fr, node, kind):
        if len(node.generators) != 1:
            raise Unsupported('nested comprehension')
        gen = node.generators[0]
        it = self.eval(fr, gen.iter)
        if isinstance(it, SBuiltin) and it.name == 'range!':
            it = it.self_
        if isinstance(it, STuple):
            out = []
            for e in it.elems:
                nfr = Frame(dict(fr.env), fr.mod, fr.func, fr.cls, fr.closure)
                self.assign(nfr, gen.target, e)
                ok = True
                for cond in gen.ifs:
                    c = self.truthy(self.eval(nfr, cond))
                    if self.specmode:
                        sc = z3.simplify(c)
                        if z3.is_true(sc): continue
                        if z3.is_false(sc): ok = False; break
                        raise Unsupported('symbolic filter in spec comprehension')
                    if not self.branch(c):
                        ok = False
                        break
                if ok:
                    out.append(self.eval(nfr, node.elt))
            if kind == 'list':
                return SSeq(self.seq_of_tuple(STuple(out)), 'list')
            return STuple(out, 'tuple')
        if isinstance(it, SRange):
            return self.quant_or_map_range(fr, node, gen, it, kind)
        index_name = None
        if isinstance(it, SEnum):
            # enumerate(seq): the target is (index, element)
            if not (isinstance(gen.target, ast.Tuple) and len(gen.target.elts) == 2 and isinstance(gen.target.elts[0], ast.Name)):
                raise Unsupported('enumerate comprehension target')
            index_name = gen.target.elts[0].id
            gen = ast.comprehension(target=gen.target.elts[1], iter=gen.iter, ifs=gen.ifs, is_async=0)
            it = it.seq
        seq = self.as_seq(it)
        pc = getattr(self.d.contract, 'pure_callees', None) or {}
        if pc and not self.specmode:
            # a callee assumed pure but allowed to raise: the comprehension as a whole may end with that exception
            # (for a non-empty sequence); otherwise every call returned and the element expression is the spec function
            called = {n.func.attr if isinstance(n.func, ast.Attribute) else getattr(n.func, 'id', None) for n in ast.walk(node) if isinstance(n, ast.Call)}
            for qual, (sf, excs) in sorted(pc.items()):
                if qual.rsplit('.', 1)[-1].rsplit(':', 1)[-1] in called:
                    for exc in excs:
                        if self.branch(z3.And(z3.Bool(self.fresh('compraise')), z3.Length(seq.t) > 0)):
                            raise PyRaise(exc, getattr(node, 'lineno', None), f'raised by {qual} inside the comprehension')
        if gen.ifs or index_name is not None:
            return self.filter_comprehension(fr, node, gen, seq, kind, index_name)
        # map: r = MAP_k(seq, captured...) with len(r) == len(seq) and r[j] == elt(seq[j]) for all j.
        # The symbol depends only on the element expression (target renamed) so that the same
        # comprehension written in code and in a specification denotes the same term.
        j = z3.Int(self.fresh('j'))
        nfr = Frame(dict(fr.env), fr.mod, fr.func, fr.cls, fr.closure)
        elem = self.from_val(seq.t[j], seq.elem) if seq.elem is not None else SDyn(seq.t[j])
        self.assign(nfr, gen.target, elem)
        self.specmode += 1
        try:
            body = self.eval(nfr, node.elt)
        finally:
            self.specmode -= 1
        tnames = {n.id for n in ast.walk(gen.target) if isinstance(n, ast.Name)}
        free = []
        inner = []                             # names bound by comprehensions nested in the element expression
        elt = node.elt
        pcs = getattr(self.d.contract, 'pure_callees', None) or {}
        specnames = set()
        if pcs:
            # a call of an assumed-pure callee denotes its spec function: self._compile(x) and compiled_of(x) are the same term
            import copy as _copy0
            short = {q.rsplit('.', 1)[-1].rsplit(':', 1)[-1]: getattr(sf, 'sf', sf).name for q, (sf, _) in pcs.items()}
            specnames = set(short.values())

            class _Pure(ast.NodeTransformer):
                def visit_Call(self, n):
                    self.generic_visit(n)
                    if isinstance(n.func, ast.Attribute) and n.func.attr in short and isinstance(n.func.value, ast.Name) and n.func.value.id == 'self':
                        return ast.Call(func=ast.Name(id=short[n.func.attr], ctx=ast.Load()), args=n.args, keywords=n.keywords)
                    return n
            elt = _Pure().visit(_copy0.deepcopy(node.elt))
        for n in ast.walk(elt):
            if isinstance(n, ast.comprehension):
                for m in ast.walk(n.target):
                    if isinstance(m, ast.Name) and m.id not in inner:
                        inner.append(m.id)
        for n in ast.walk(elt):          # captured names in order of first occurrence
            if isinstance(n, ast.Name) and n.id not in tnames and n.id not in free and n.id not in inner and n.id not in specnames:
                free.append(n.id)
        r = None
        if isinstance(gen.target, ast.Name) and not (set(inner) & tnames):
            import copy as _copy, hashlib as _hl
            caps, ren = [], {nm: f'_b{k}' for k, nm in enumerate(inner)}
            try:
                for nm in free:
                    v = self.lookup(nfr, nm)
                    if isinstance(v, (SBuiltin, SSpecFn, SModule, SFunc, SClass)):
                        continue
                    ren[nm] = f'_c{len(caps)}'
                    caps.append(self.to_val(v))

                class _Ren(ast.NodeTransformer):
                    def visit_Name(self, n):
                        if n.id in tnames:
                            return ast.Name(id='_x', ctx=n.ctx)
                        if n.id in ren:
                            return ast.Name(id=ren[n.id], ctx=n.ctx)
                        return n
                dumped = ast.dump(_Ren().visit(_copy.deepcopy(elt)))
                key = 'MAP_' + _hl.sha1((dumped + kind).encode()).hexdigest()[:10]
                F = uf(key + f'_{len(caps)}', SeqV, *([Val] * len(caps)), SeqV)
                r = F(seq.t, *caps)
            except Unsupported:
                r = None
        if r is None:
            r = z3.Const(self.fresh('map'), SeqV)
        self.assume(z3.Length(r) == z3.Length(seq.t))
        self.assume(z3.ForAll([j], z3.Implies(z3.And(j >= 0, j < z3.Length(seq.t)), r[j] == self.to_val(body))))
        return SSeq(r, kind)

    def _elem_env(self, fr, gen, seq, idx, index_name):
        nfr = Frame(dict(fr.env), fr.mod, fr.func, fr.cls, fr.closure)
        elem = self.from_val(seq.t[idx], seq.elem) if seq.elem is not None else SDyn(seq.t[idx])
        self.assign(nfr, gen.target, elem)
        if index_name is not None:
            nfr.env[index_name] = SInt(idx)
        return nfr

    def term_signature(self, terms, bound):
        """(hash of the structure of the terms, their free constants other than `bound`): two comprehensions with the same
        element / key / condition structure over the same free constants denote the same function application"""
        import hashlib
        from z3 import z3util
        bids = {b.get_id() for b in bound}
        free, seen = [], set()
        for t in terms:
            for v in z3util.get_vars(t):
                if v.get_id() not in bids and v.get_id() not in seen and not str(v).startswith('q!'):
                    seen.add(v.get_id())
                    free.append(v)
        free.sort(key=lambda v: str(v))
        sig = hashlib.sha1(' | '.join(t.sexpr() for t in terms).encode()).hexdigest()[:10]
        return sig, free

    def filter_comprehension(self, fr, node, gen, seq, kind, index_name):
        """[elt(i, x) for i, x in enumerate(seq) if cond(x)] as a fresh sequence r characterised by an order-preserving
        bijection between the kept indices of seq and the indices of r (witness functions idx / pos):
        trusted encoding of Python's comprehension semantics, no induction needed by the solver."""
        n = z3.Length(seq.t)
        j, j2, i = z3.Int(self.fresh('j')), z3.Int(self.fresh('j')), z3.Int(self.fresh('i'))

        def cond_at(k):
            nfr = self._elem_env(fr, gen, seq, k, index_name)
            cs = [self.truthy(self.eval(nfr, c)) for c in gen.ifs]
            return z3.And(*cs) if cs else z3.BoolVal(True)

        def elt_at(k):
            nfr = self._elem_env(fr, gen, seq, k, index_name)
            return self.to_val(self.eval(nfr, node.elt))
        self.specmode += 1
        try:
            # the comprehension denotes FILT(cond, elt, n): a term that depends only on the condition and element
            # functions (as lambdas over the index), so the same comprehension in code and in a specification is
            # the same term
            q = z3.Int('q!filt')
            sig, free = self.term_signature([cond_at(q), elt_at(q)], [q, seq.t])
            fs = [v.sort() for v in free]
            r = uf('FILT_' + sig, SeqV, *fs, SeqV)(seq.t, *free)
            IDX = uf('FILT_idx_' + sig, SeqV, *fs, I, I)
            POS = uf('FILT_pos_' + sig, SeqV, *fs, I, I)
            idx = lambda x: IDX(seq.t, *free, x)
            pos = lambda x: POS(seq.t, *free, x)
            key = ('filt-axioms', r.get_id())
            if key not in self.gcache:
                self.gcache[key] = True
                L = z3.Length(r)
                self.assume(z3.And(L >= 0, L <= n))
                self.assume(z3.ForAll([j], z3.Implies(z3.And(j >= 0, j < L),
                            z3.And(idx(j) >= j, idx(j) < n, cond_at(idx(j)), r[j] == elt_at(idx(j)), pos(idx(j)) == j))))
                self.assume(z3.ForAll([j, j2], z3.Implies(z3.And(j >= 0, j < j2, j2 < L), idx(j) < idx(j2))))
                self.assume(z3.ForAll([i], z3.Implies(z3.And(i >= 0, i < n, cond_at(i)), z3.And(pos(i) >= 0, pos(i) <= i, pos(i) < L, idx(pos(i)) == i))))
        finally:
            self.specmode -= 1
        out = SSeq(r, kind)
        if isinstance(node.elt, ast.Name) and isinstance(gen.target, ast.Name) and node.elt.id == gen.target.id and seq.elem is not None:
            out.elem = seq.elem        # [x for x in xs if c(x)]: the kept elements are elements of xs and have their declared shape
        return out

    def e_DictComp(self, fr, node):
        """{key(i, x): val(i, x) for i, x in enumerate(seq) if cond(x)}: last write wins (witness function w)"""
        if len(node.generators) != 1:
            raise Unsupported('nested dict comprehension')
        gen = node.generators[0]
        it = self.eval(fr, gen.iter)
        index_name = None
        if isinstance(it, SEnum):
            if not (isinstance(gen.target, ast.Tuple) and len(gen.target.elts) == 2 and isinstance(gen.target.elts[0], ast.Name)):
                raise Unsupported('enumerate comprehension target')
            index_name = gen.target.elts[0].id
            gen = ast.comprehension(target=gen.target.elts[1], iter=gen.iter, ifs=gen.ifs, is_async=0)
            it = it.seq
        seq = self.as_seq(it)
        n = z3.Length(seq.t)
        k, i = z3.Const(self.fresh('k'), Val), z3.Int(self.fresh('i'))

        def at(expr_node, kk, cond=False):
            nfr = self._elem_env(fr, gen, seq, kk, index_name)
            if cond:
                cs = [self.truthy(self.eval(nfr, c)) for c in gen.ifs]
                return z3.And(*cs) if cs else z3.BoolVal(True)
            return self.to_val(self.eval(nfr, expr_node))
        self.specmode += 1
        try:
            # the dict is a term DICT_has/get(key, value, cond, n) of the key / value / condition functions (lambdas over
            # the index): the same comprehension in code and in a specification is the same term
            q = z3.Int('q!dict')
            terms = [at(node.key, q), at(node.value, q), at(None, q, True)]
            sig, free = self.term_signature(terms, [q, seq.t])
            has = uf('DICT_has_' + sig, SeqV, *[v.sort() for v in free], z3.ArraySort(Val, B))(seq.t, *free)
            get = uf('DICT_get_' + sig, SeqV, *[v.sort() for v in free], z3.ArraySort(Val, Val))(seq.t, *free)
            W = uf('DICT_w_' + sig, SeqV, *[v.sort() for v in free], Val, I)
            w = lambda kk: W(seq.t, *free, kk)
            key_ = ('dict-axioms', has.get_id(), get.get_id())
            if key_ not in self.gcache:
                self.gcache[key_] = True
                self.assume(z3.ForAll([i], z3.Implies(z3.And(i >= 0, i < n, at(None, i, True)), z3.And(z3.Select(has, at(node.key, i)), w(at(node.key, i)) >= i))))
                self.assume(z3.ForAll([k], z3.Implies(z3.Select(has, k), z3.And(
                    w(k) >= 0, w(k) < n, at(None, w(k), True), at(node.key, w(k)) == k, z3.Select(get, k) == at(node.value, w(k))))))
                self.assume(z3.ForAll([k, i], z3.Implies(z3.And(z3.Select(has, k), i > w(k), i < n, at(None, i, True)), at(node.key, i) != k)))
            def inst(kk):
                # the witness axiom at one looked-up key: saves the solver an instantiation it often does not find in time
                return z3.Implies(z3.Select(has, kk), z3.And(
                    w(kk) >= 0, w(kk) < n, at(None, w(kk), True), at(node.key, w(kk)) == kk, z3.Select(get, kk) == at(node.value, w(kk))))
        finally:
            self.specmode -= 1

        def inst_spec(kk):
            self.specmode += 1
            try:
                return inst(kk)
            finally:
                self.specmode -= 1
        return SDict(has, get, inst_spec)

    def e_SetComp(self, fr, node):
        """{elt(x) for x in seq [if cond(x)]}: membership = exists an index; the element sequence is remembered"""
        lst = self.comprehension(fr, node, 'list')
        if isinstance(lst, STuple):
            lst = self.as_seq(lst)
        return SSet(self.setof(lst.t), src=lst)

    def sorted_model(self, fr, seq, keyf, reverse, node):
        """sorted(seq, key=f): a stable sorted permutation (witness functions perm / inv)"""
        n = z3.Length(seq.t)
        r = z3.Const(self.fresh('sorted'), SeqV)
        perm = z3.Function(self.fresh('perm'), I, I)
        inv = z3.Function(self.fresh('inv'), I, I)
        a, b = z3.Int(self.fresh('a')), z3.Int(self.fresh('b'))

        def key_at(s, k):
            e = self.from_val(s[k], seq.elem) if seq.elem is not None else SDyn(s[k])
            if keyf is None:
                return e
            return self.call_value(fr, keyf, [e], {}, node)
        self.specmode += 1
        try:
            self.assume(z3.Length(r) == n)
            self.assume(z3.ForAll([a], z3.Implies(z3.And(a >= 0, a < n), z3.And(perm(a) >= 0, perm(a) < n, r[a] == seq.t[perm(a)], inv(perm(a)) == a))))
            self.assume(z3.ForAll([a], z3.Implies(z3.And(a >= 0, a < n), z3.And(inv(a) >= 0, inv(a) < n, perm(inv(a)) == a))))
            lt = lambda x, y: self.truthy(self.compare(fr, ast.Lt(), x, y, node))
            if reverse:
                self.assume(z3.ForAll([a, b], z3.Implies(z3.And(a >= 0, a < b, b < n), z3.Not(lt(key_at(r, a), key_at(r, b))))))
            else:
                self.assume(z3.ForAll([a, b], z3.Implies(z3.And(a >= 0, a < b, b < n), z3.Not(lt(key_at(r, b), key_at(r, a))))))
            # stability
            self.assume(z3.ForAll([a, b], z3.Implies(z3.And(a >= 0, a < b, b < n, z3.Not(lt(key_at(r, a), key_at(r, b))), z3.Not(lt(key_at(r, b), key_at(r, a)))), perm(a) < perm(b))))
        finally:
            self.specmode -= 1
        out = SSeq(r, 'list', seq.elem)
        out.witness = (perm, inv, seq)
        return out

    def quant_or_map_range(self, fr, node, gen, rng, kind):
        raise Unsupported('comprehension over symbolic range outside all()/any()')

    def quantify(self, fr, node, universal):
        """all(P(j) for j in range(a, b)) / any(...) with symbolic bounds -> quantifier;
        over a symbolic sequence: quantifier over index."""
        if not isinstance(node, ast.GeneratorExp) or len(node.generators) != 1:
            return None
        gen = node.generators[0]
        it = self.eval(fr, gen.iter)
        j = z3.Int(self.fresh('q'))
        nfr = Frame(dict(fr.env), fr.mod, fr.func, fr.cls, fr.closure)
        if isinstance(it, SRange):
            dom = z3.And(j >= it.lo, j < it.hi)
            self.assign(nfr, gen.target, SInt(j))
        elif isinstance(it, (SSeq, SDyn)) or (isinstance(it, STuple) and False):
            seq = self.as_seq(it)
            dom = z3.And(j >= 0, j < z3.Length(seq.t))
            self.assign(nfr, gen.target, self.from_val(seq.t[j], seq.elem) if seq.elem is not None else SDyn(seq.t[j]))
        elif isinstance(it, STuple):
            vals = []
            for e in it.elems:
                nfr = Frame(dict(fr.env), fr.mod, fr.func, fr.cls, fr.closure)
                self.assign(nfr, gen.target, e)
                cs = [self.truthy(self.eval(nfr, c)) for c in gen.ifs]
                body = self.truthy(self.eval(nfr, node.elt))
                vals.append(z3.Implies(z3.And(*cs), body) if universal and cs else (z3.And(*(cs + [body])) if cs else body))
            if universal:
                return SBool(z3.And(*vals) if vals else z3.BoolVal(True))
            return SBool(z3.Or(*vals) if vals else z3.BoolVal(False))
        else:
            return None
        self.specmode += 1
        try:
            cs = [self.truthy(self.eval(nfr, c)) for c in gen.ifs]
            body = self.truthy(self.eval(nfr, node.elt))
        finally:
            self.specmode -= 1
        dom = z3.And(dom, *cs) if cs else dom
        if universal:
            return SBool(z3.ForAll([j], z3.Implies(dom, body)))
        return SBool(z3.Exists([j], z3.And(dom, body)))


class SEnum(SV):
    def __init__(self, seq):
        self.seq = seq


class SRange(SV):
    def __init__(self, lo, hi):
        self.lo, self.hi = lo, hi
