"""Models of Python built-ins and library functions (the trusted library contracts).

Every name modelled here is listed in evidence.trusted_base when used."""
import ast
import z3
from . import spec as S
from . import modinfo
from .vals import *
from .core import *
from .interp_call import SRange, SEnum

_KW_USERS = {}

TYPE_NAMES = {'int', 'str', 'bool', 'list', 'tuple', 'dict', 'set', 'slice', 'type', 'object', 'float',
              'decimal.Decimal', 'datetime.date', 'collections.abc.Hashable', 'typing.Sequence', 'typing.Mapping'}


class BuiltinMixin:
    def call_builtin(self, fr, f, args, kw, node=None):
        name = f.name
        ln = getattr(node, 'lineno', None)
        self.d.used_builtins.add(name)
        m = getattr(self, 'b_' + name.replace('.', '_'), None)
        ext = getattr(self.d.contract, 'externals', None) or {}
        if m is None and name in ext:
            nres = ext[name]
            creq = (getattr(self.d.contract, 'call_requires', None) or {}).get(name)
            if creq is not None and not self.specmode:
                # what the function hands to this external is part of its contract: an obligation over the caller's state at the call
                env = dict(fr.closure)
                env.update(fr.env)
                env['args'] = STuple(list(args), 'tuple')
                self.prove(self.truthy(self.eval_contract_fn(creq, env)), 'call-pre', f'arguments of {name}', ln)
            self.d.used_builtins.add('external(uninterpreted, pure): ' + name)
            ts = [self.to_val(a) for a in args] + [self.to_val(v) for k, v in sorted(kw.items())]
            def one(k):
                return SDyn(uf(f'ext_{name}_{k}_{len(ts)}', *([Val] * len(ts)), Val)(*ts))
            if nres == 1:
                return one(0)
            return STuple([one(k) for k in range(nres)], 'tuple')
        if m is None:
            if name in EXC_PARENTS or name in ('Exception',):
                return SBuiltin('exc!' + name, STuple(args))
            raise Unsupported(f'builtin {name} not modelled (line {ln})')
        if kw:
            # a model that never looks at keyword arguments must not be applied to a call that passes some (key=, default=, start=, ...)
            uses = _KW_USERS.get(m.__name__)
            if uses is None:
                import inspect
                try:
                    src = inspect.getsource(m)
                except (OSError, TypeError):
                    src = 'kw.'
                uses = _KW_USERS[m.__name__] = src.count('kw') > 1
            if not uses:
                raise Unsupported(f'builtin {name} called with keyword arguments {sorted(kw)} that its model does not interpret (line {ln})')
        return m(fr, f, args, kw, node)

    # -- spec helpers
    def b_spec_implies(self, fr, f, args, kw, node):
        return SBool(z3.Implies(self.truthy(args[0]), self.truthy(args[1])))

    def b_spec_iff(self, fr, f, args, kw, node):
        return SBool(self.truthy(args[0]) == self.truthy(args[1]))

    def b_spec_set_of(self, fr, f, args, kw, node):
        seq = self.as_seq(args[0])
        return SSet(self.setof(seq.t), src=seq)

    def b_spec_forall(self, fr, f, args, kw, node):
        """forall(lambda v, w: P(v, w)): prover-only quantifier over all values (loop invariants, lemmas)"""
        lam = args[0]
        names = [a.arg for a in lam.node.args.args]
        consts = [z3.Const(self.fresh('all_' + n), Val) for n in names]
        env = dict(lam.closure)
        env.update({n: SDyn(c) for n, c in zip(names, consts)})
        from .interp_expr import Frame
        self.specmode += 1
        try:
            body = self.truthy(self.eval(Frame(env, lam.mod, lam, lam.cls, lam.closure), lam.node.body))
        finally:
            self.specmode -= 1
        return SBool(z3.ForAll(consts, body))

    def b_spec_ev(self, fr, f, args, kw, node):
        return SDyn(ev(self.to_val(args[0]), self.to_val(args[1])))

    # -- core
    def b_len(self, fr, f, args, kw, node):
        v = args[0]
        if isinstance(v, STuple): return lift(len(v.elems))
        if isinstance(v, SSeq): return SInt(z3.Length(v.t))
        if isinstance(v, SStr): return SInt(z3.Length(v.t))
        if isinstance(v, SObj):
            m = self.find_method(self.obj_class(v), '__len__')
            if m is not None:
                return self.call_value(fr, self.bind_method(m, v), [], {}, node)
            raise PyRaise('TypeError', getattr(node, 'lineno', None), 'object has no len()')
        if isinstance(v, SDyn):
            if not self.specmode and not self.d.contract_assumes('SIZED'):
                if self.branch(z3.Not(Val.is_VSeq(v.t))):
                    raise PyRaise('TypeError', getattr(node, 'lineno', None), 'object has no len()')
            return SInt(z3.Length(items(Val.h(v.t))))
        if isinstance(v, SNone):
            raise PyRaise('TypeError', getattr(node, 'lineno', None), "object of type 'NoneType' has no len()")
        raise Unsupported(f'len({v!r})')

    def type_test(self, v, tname):
        """isinstance(v, builtin type) as z3 Bool"""
        T, F = z3.BoolVal(True), z3.BoolVal(False)
        if tname == 'object': return T
        if tname in ('typing.Sequence', 'collections.abc.Sequence'):
            # lists, tuples and strings are sequences; sets, dicts, numbers, dates, None and plain objects are not
            if isinstance(v, (SSeq, STuple, SStr)): return T
            if isinstance(v, SDyn): return z3.Or(Val.is_VSeq(v.t), Val.is_VStr(v.t))
            return F
        if tname in ('typing.Mapping', 'collections.abc.Mapping'):
            if isinstance(v, SDyn): return uf('is_dict', Val, B)(v.t)
            return T if type(v).__name__ in ('SDict', 'SDictC') else F
        if isinstance(v, SDyn):
            t = v.t
            return {'int': z3.Or(Val.is_VInt(t), Val.is_VBool(t)), 'bool': Val.is_VBool(t), 'str': Val.is_VStr(t),
                    'decimal.Decimal': Val.is_VDec(t), 'datetime.date': Val.is_VDate(t),
                    'list': z3.And(Val.is_VSeq(t), uf('seq_is_list', I, B)(Val.h(t))),
                    'tuple': z3.And(Val.is_VSeq(t), z3.Not(uf('seq_is_list', I, B)(Val.h(t)))),
                    'slice': F, 'type': uf('is_type', Val, B)(t),
                    'dict': uf('is_dict', Val, B)(t), 'set': uf('is_set', Val, B)(t), 'float': F}.get(tname, None)
        table = {SInt: {'int'}, SBool: {'int', 'bool'}, SStr: {'str'}, SDec: {'decimal.Decimal'}, SDate: {'datetime.date'},
                 SNone: set(), SSlice: {'slice'}, SClass: {'type'}, SSet: {'set'}}
        if isinstance(v, (SSeq, STuple)):
            return T if tname == v.kind else F
        for k, names in table.items():
            if isinstance(v, k):
                return T if tname in names else F
        if isinstance(v, SObj):
            return F
        return None

    def b_isinstance(self, fr, f, args, kw, node):
        v, c = args
        classes = c.elems if isinstance(c, STuple) else [c]
        tests = []
        for k in classes:
            tests.append(self.isinstance1(fr, v, k, node))
        return SBool(z3.Or(*tests) if len(tests) > 1 else tests[0])

    def isinstance1(self, fr, v, k, node):
        oc = getattr(self.d.contract, 'opaque_ctors', None) or {}
        if oc and isinstance(v, SDyn) and isinstance(k, (SBuiltin, SClass)):
            short = (k.name if isinstance(k, SBuiltin) else k.qual).replace(':', '.').split('.')[-1].replace('ctor!', '')
            if short in oc:
                # objects built by the contract's opaque constructors carry the constructor's identity
                return z3.And(Val.is_VObj(v.t), self.fld('__ctor__', v.t) == Val.VInt(z3.IntVal(class_id('ctor:' + short))))
        if isinstance(k, SBuiltin):
            nm = k.name
            r = self.type_test(v, nm)
            if r is None:
                if isinstance(v, SDyn):
                    return isinst(v.t, z3.IntVal(class_id('builtins:' + nm)))
                raise Unsupported(f'isinstance({v!r}, {nm})')
            return r
        if isinstance(k, SClass):
            if isinstance(v, SObj):
                return z3.BoolVal(self.is_subclass(self.obj_class(v), k.qual))
            if isinstance(v, SDyn) and isinstance(v.shape, S.Rec) and v.shape.isa and ':' in v.shape.isa and not k.qual.endswith('!singleton'):
                # the contract declares the value's class: decided from the class hierarchy of /repo
                ci = self.d.classinfo(v.shape.isa)
                if ci is not None:
                    return z3.BoolVal(self.is_subclass(ci, k.qual))
                m = modinfo.load(v.shape.isa.split(':')[0])
                nm = v.shape.isa.split(':')[1]
                call = m.assigns.get(nm, [None])[-1] if m is not None else None
                if isinstance(call, ast.Call) and call.args and isinstance(call.args[0], ast.Constant) and call.args[0].value == nm:
                    # a class manufactured at import time (X = node('X', ...)): its only base in /repo is the module's Node
                    return z3.BoolVal(k.qual in (v.shape.isa, v.shape.isa.split(':')[0] + ':Node'))
            if isinstance(v, SDyn):
                return z3.And(Val.is_VObj(v.t), isinst(v.t, z3.IntVal(class_id(k.qual))))
            return z3.BoolVal(False)
        if isinstance(k, SDyn):
            # type(self) style: class object obtained dynamically
            if isinstance(v, SDyn):
                return uf('isinst_dyn', Val, Val, B)(v.t, k.t)
        raise Unsupported(f'isinstance class {k!r}')

    def b_issubclass(self, fr, f, args, kw, node):
        """issubclass(C, K): decided for two classes of /repo; an uninterpreted predicate of (C, K) when C is an opaque class value
        (e.g. the dtype of a compiled node) and K a named class"""
        c, k = args
        if isinstance(k, STuple):
            parts = [self.truthy(self.b_issubclass(fr, f, [c, e], kw, node)) for e in k.elems]
            return SBool(z3.Or(*parts) if parts else z3.BoolVal(False))
        if isinstance(c, SClass) and isinstance(k, SClass):
            return mkbool(self.is_subclass(self.d.classinfo(c.qual), k.qual))
        if isinstance(c, SDyn) and isinstance(k, (SBuiltin, SClass)):
            nm = k.name if isinstance(k, SBuiltin) else k.qual
            return SBool(uf('issubclass_dyn', Val, I, B)(c.t, z3.IntVal(class_id('cls:' + nm))))
        raise Unsupported('issubclass on these values')

    def b_type(self, fr, f, args, kw, node):
        v = args[0]
        if isinstance(v, SObj):
            return SClass(self.heap[v.oid]['__class__'])
        if isinstance(v, SDyn):
            return SDyn(uf('typeof', Val, Val)(v.t))
        names = {SInt: 'int', SBool: 'bool', SStr: 'str'}
        for k, n in names.items():
            if isinstance(v, k):
                return SBuiltin(n)
        raise Unsupported(f'type({v!r})')

    def b_super(self, fr, f, args, kw, node):
        from .vals import SSuper
        if fr.cls is None or 'self' not in fr.env:
            raise Unsupported('super() outside a method')
        return SSuper(fr.cls, fr.env['self'])

    def b_object___init__(self, fr, f, args, kw, node):
        return NONE

    def b_tuple(self, fr, f, args, kw, node):
        if not args: return STuple([], 'tuple')
        v = args[0]
        if isinstance(v, STuple): return STuple(v.elems, 'tuple')
        if isinstance(v, SSeq): return SSeq(v.t, 'tuple', v.elem)
        if isinstance(v, SObj):
            return self.iter_object(fr, v, 'tuple', node)
        if isinstance(v, SDyn): return SSeq(self.as_seq(v).t, 'tuple')
        raise Unsupported(f'tuple({v!r})')

    def b_list(self, fr, f, args, kw, node):
        if not args: return SSeq(z3.Empty(SeqV), 'list')
        v = args[0]
        if isinstance(v, STuple): return SSeq(self.seq_of_tuple(v), 'list')
        if isinstance(v, SSeq): return SSeq(v.t, 'list', v.elem)
        if isinstance(v, SObj): return self.iter_object(fr, v, 'list', node)
        if isinstance(v, (SDyn, SIter)): return SSeq(self.as_seq(v).t, 'list')
        raise Unsupported(f'list({v!r})')

    def iter_object(self, fr, o, kind, node):
        """tuple(obj)/list(obj) for a Sequence-like object defining __len__ and __getitem__"""
        ci = self.obj_class(o)
        ml, mg = self.find_method(ci, '__len__'), self.find_method(ci, '__getitem__')
        mi = self.find_method(ci, '__iter__')
        if mi is None and ml is not None and mg is not None:
            n = self.call_value(fr, self.bind_method(ml, o), [], {}, node)
            sn = z3.simplify(self.as_int(n))
            if not z3.is_int_value(sn):
                raise Unsupported('symbolic __len__ in iteration protocol')
            elems = [self.call_value(fr, self.bind_method(mg, o), [lift(k)], {}, node) for k in range(sn.as_long())]
            return STuple(elems, kind)
        raise Unsupported('iteration over object')

    def b_set(self, fr, f, args, kw, node):
        if not args:
            return SSet(z3.K(Val, z3.BoolVal(False)))
        if isinstance(args[0], SSet):
            return args[0]
        seq = self.as_seq(args[0])
        return SSet(self.setof(seq.t), src=seq)

    def b_frozenset(self, fr, f, args, kw, node):
        return self.b_set(fr, f, args, kw, node)       # immutability plays no role for membership / comparison

    def b_range(self, fr, f, args, kw, node):
        if len(args) == 1:
            lo, hi = z3.IntVal(0), self.as_int(args[0])
        elif len(args) == 2:
            lo, hi = self.as_int(args[0]), self.as_int(args[1])
        else:
            raise Unsupported('range with step')
        slo, shi = z3.simplify(lo), z3.simplify(hi)
        if z3.is_int_value(slo) and z3.is_int_value(shi) and shi.as_long() - slo.as_long() <= 64:
            return STuple([lift(k) for k in range(slo.as_long(), shi.as_long())], 'tuple')
        return SRange(lo, hi)

    def b_enumerate(self, fr, f, args, kw, node):
        v = args[0]
        st = args[1] if len(args) > 1 else kw.get('start')
        if st is not None:
            s0 = z3.simplify(self.as_int(st)) if isinstance(st, (SInt, SBool)) else None
            if s0 is None or not (z3.is_int_value(s0) and s0.as_long() == 0):
                raise Unsupported('enumerate with a start value other than 0')
        if isinstance(v, STuple):
            start = 0
            return STuple([STuple([lift(i + start), e]) for i, e in enumerate(v.elems)], 'tuple')
        if isinstance(v, (SSeq, SDyn)):
            return SEnum(self.as_seq(v))
        raise Unsupported('enumerate over this iterable')

    def b_zip(self, fr, f, args, kw, node):
        if all(isinstance(a, STuple) for a in args):
            return STuple([STuple(list(es)) for es in zip(*[a.elems for a in args])], 'tuple')
        raise Unsupported('zip over symbolic sequences')

    def b_reversed(self, fr, f, args, kw, node):
        v = args[0]
        if isinstance(v, STuple):
            return STuple(list(reversed(v.elems)), 'tuple')
        raise Unsupported('reversed over symbolic sequence')

    def b_sorted(self, fr, f, args, kw, node):
        v = args[0]
        if isinstance(v, SSet) and v.src is not None:
            v = v.src
        if isinstance(v, STuple) and not v.elems:
            return SSeq(z3.Empty(SeqV), 'list')
        seq = self.as_seq(v)
        rev = kw.get('reverse')
        reverse = False
        if rev is not None:
            sr = z3.simplify(self.truthy(rev))
            if not (z3.is_true(sr) or z3.is_false(sr)):
                raise Unsupported('sorted with symbolic reverse')
            reverse = z3.is_true(sr)
        return self.sorted_model(fr, seq, kw.get('key'), reverse, node)

    def b_all(self, fr, f, args, kw, node):
        return self._allany(fr, args, node, True)

    def b_any(self, fr, f, args, kw, node):
        return self._allany(fr, args, node, False)

    def _allany(self, fr, args, node, universal):
        v = args[0]
        if isinstance(v, SSet) and v.src is not None:
            v = v.src
        if isinstance(v, STuple):
            ts = [self.truthy(e) for e in v.elems]
            if universal:
                return SBool(z3.And(*ts) if ts else z3.BoolVal(True))
            return SBool(z3.Or(*ts) if ts else z3.BoolVal(False))
        if isinstance(v, SSeq):
            j = z3.Int(self.fresh('q'))
            e = self.from_val(v.t[j], v.elem) if v.elem is not None else SDyn(v.t[j])
            dom = z3.And(j >= 0, j < z3.Length(v.t))
            if universal:
                return SBool(z3.ForAll([j], z3.Implies(dom, self.truthy(e))))
            return SBool(z3.Exists([j], z3.And(dom, self.truthy(e))))
        raise Unsupported('all/any over this iterable')

    def b_int(self, fr, f, args, kw, node):
        v = args[0]
        if isinstance(v, (SInt, SBool)): return SInt(self.as_int(v))
        from . import casts
        return casts.to_int(self, v, node)

    def b_bool(self, fr, f, args, kw, node):
        return SBool(self.truthy(args[0]))

    def b_str(self, fr, f, args, kw, node):
        v = args[0]
        if isinstance(v, SStr): return v
        return SStr(uf('str_of', Val, z3.StringSort())(self.to_val(v)))

    def b_repr(self, fr, f, args, kw, node):
        return SStr(uf('repr_of', Val, z3.StringSort())(self.to_val(args[0])))

    def b_hash(self, fr, f, args, kw, node):
        return SInt(hashf(self.to_val(args[0])))

    def b_abs(self, fr, f, args, kw, node):
        v = args[0]
        if isinstance(v, (SInt, SBool)):
            x = self.as_int(v)
            return SInt(z3.If(x < 0, -x, x))
        if isinstance(v, SDec):
            return SDec(uf('dec_abs', Dec, Dec)(v.t))
        return SDyn(uf('val_abs', Val, Val)(self.to_val(v)))

    def b_getattr(self, fr, f, args, kw, node):
        o, n = args[0], args[1]
        sn = z3.simplify(n.t) if isinstance(n, SStr) else None
        import os
        if os.environ.get('PYVC_TRACE'): print('getattr', o, n, sn, args[2:])
        if sn is not None and z3.is_string_value(sn):
            try:
                return self.getattr(fr, o, sn.as_string(), node)
            except PyRaise as e:
                if e.exc == 'AttributeError' and len(args) > 2:
                    return args[2]
                raise
        if isinstance(o, SObj) and isinstance(n, SStr):
            # symbolic attribute name on a heap object: case split over its fields
            rec = self.heap[o.oid]
            for k, v in rec.items():
                if k.startswith('__'): continue
                if self.branch(n.t == z3.StringVal(k)):
                    return v
            if len(args) > 2:
                return args[2]
            raise PyRaise('AttributeError', getattr(node, 'lineno', None), 'no such attribute (symbolic name)')
        raise Unsupported('getattr with symbolic name')

    def b_dataclasses_asdict(self, fr, f, args, kw, node):
        """asdict(obj) for an instance of a @dataclass class of /repo whose fields hold scalars: a dict from the annotated
        class attributes (in order) to the current attribute values"""
        o = args[0]
        if not isinstance(o, SObj):
            raise Unsupported('asdict of a non-heap value')
        ci = self.obj_class(o)
        if not any(ast.unparse(d).split('(')[0].endswith('dataclass') for d in ci.node.decorator_list):
            raise PyRaise('TypeError', getattr(node, 'lineno', None), 'asdict() should be called on dataclass instances')
        out = {}
        for st in ci.node.body:
            if isinstance(st, ast.AnnAssign) and isinstance(st.target, ast.Name):
                out[st.target.id] = self.getattr(fr, o, st.target.id, node)
        return SDictC(out)

    def b_m_get(self, fr, f, args, kw, node):
        d = f.self_
        if isinstance(d, SDict):
            k = self.to_val(args[0])
            default = self.to_val(args[1]) if len(args) > 1 else Val.VNone
            self.dict_hint(d, k)
            return SDyn(z3.If(z3.Select(d.has, k), z3.Select(d.get, k), default))
        if isinstance(d, SDictC):
            k = z3.simplify(args[0].t) if isinstance(args[0], SStr) else None
            if k is not None and z3.is_string_value(k):
                return d.d.get(k.as_string(), args[1] if len(args) > 1 else NONE)
        raise Unsupported('.get on this value')

    def b_m_items(self, fr, f, args, kw, node):
        d = f.self_
        if isinstance(d, SDictC):
            return STuple([STuple([lift(k), v]) for k, v in d.d.items()], 'tuple')
        raise Unsupported('.items() of a symbolic mapping')

    def b_m_keys(self, fr, f, args, kw, node):
        d = f.self_
        if isinstance(d, SDictC):
            return STuple([lift(k) for k in d.d], 'tuple')
        raise Unsupported('.keys() of a symbolic mapping')

    def b_setattr(self, fr, f, args, kw, node):
        o, n, v = args
        sn = z3.simplify(n.t) if isinstance(n, SStr) else None
        if not isinstance(o, SObj) or sn is None or not z3.is_string_value(sn):
            raise Unsupported('setattr with symbolic name or non-object')
        self.heap[o.oid][sn.as_string()] = v
        self.written.add((o.oid, sn.as_string()))
        return NONE

    def b_spec_allocated(self, fr, f, args, kw, node):
        """allocated(x): x existed before the call or was constructed since (its identity is above the allocation pointer)"""
        t = self.to_val(args[0])
        return SBool(z3.Or(z3.Not(Val.is_VObj(t)), Val.o(t) > self.allocp))

    def b_spec_inputs_unchanged(self, fr, f, args, kw, node):
        """inputs_unchanged('name', ...): the named attributes of every object that existed before the call are unchanged"""
        v = z3.Const(self.fresh('v'), Val)
        cs = []
        for a in args:
            nm = z3.simplify(a.t).as_string()
            cs.append(z3.ForAll([v], z3.Implies(z3.And(Val.is_VObj(v), Val.o(v) >= 0), self.fld(nm, v) == self.fld(nm, v, old=True))))
        return SBool(z3.And(*cs) if cs else z3.BoolVal(True))

    def b_spec_ext(self, fr, f, args, kw, node):
        n = z3.simplify(args[0].t).as_string()
        from . import modinfo
        prefix, _, last = n.rpartition('.')
        if prefix and modinfo.load(prefix) is not None:
            v = self.mod_lookup(modinfo.load(prefix), last)
            if v is not None:
                return v
        return SBuiltin(n)

    def b_iter(self, fr, f, args, kw, node):
        v = args[0]
        if isinstance(v, (SSeq, STuple, SDyn)):
            o = self.alloc('builtins:iterator', {'seq': self.as_seq(v), 'pos': SInt(z3.IntVal(0))})
            return SIter(o.oid)
        raise Unsupported(f'iter({v!r})')

    def b_next(self, fr, f, args, kw, node):
        it = args[0]
        if not isinstance(it, SIter):
            raise Unsupported('next() of non-iterator')
        rec = self.heap[it.oid]
        seq, pos = rec['seq'], rec['pos']
        if self.branch(pos.t >= z3.Length(seq.t)):
            if len(args) > 1:
                return args[1]
            raise PyRaise('StopIteration', getattr(node, 'lineno', None))
        rec['pos'] = SInt(pos.t + 1)
        t = seq.t[pos.t]
        return self.from_val(t, seq.elem) if seq.elem is not None else SDyn(t)

    def b_NotImplemented(self, fr, f, args, kw, node):
        raise Unsupported('call NotImplemented')

    def b_min(self, fr, f, args, kw, node):
        return self._minmax(args, True)

    def b_max(self, fr, f, args, kw, node):
        return self._minmax(args, False)

    def _minmax(self, args, ismin):
        if len(args) == 1 and isinstance(args[0], STuple):
            args = args[0].elems
        if all(isinstance(a, (SInt, SBool)) for a in args) and args:
            r = self.as_int(args[0])
            for a in args[1:]:
                x = self.as_int(a)
                r = z3.If(x < r, x, r) if ismin else z3.If(x > r, x, r)
            return SInt(r)
        raise Unsupported('min/max over these operands')

    # -- operator / itertools / copy
    def b_operator_attrgetter(self, fr, f, args, kw, node):
        n = z3.simplify(args[0].t)
        if not z3.is_string_value(n) or len(args) != 1:
            raise Unsupported('attrgetter with symbolic name')
        return SGetter('attr', n.as_string())

    def b_operator_itemgetter(self, fr, f, args, kw, node):
        if len(args) != 1:
            raise Unsupported('itemgetter with several items')
        return SGetter('item', args[0])

    def b_operator_contains(self, fr, f, args, kw, node):
        return SBool(self.contains(fr, args[0], args[1], node))

    def b_operator_not_(self, fr, f, args, kw, node):
        return SBool(z3.Not(self.truthy(args[0])))

    def b_itertools_islice(self, fr, f, args, kw, node):
        if len(args) != 2:
            raise Unsupported('islice with start/step')
        seq = self.as_seq(args[0])
        n = self.as_int(args[1])
        if not self.specmode and self.branch(n < 0):
            raise PyRaise('ValueError', getattr(node, 'lineno', None), 'Stop argument for islice() must be None or an integer: 0 <= x <= sys.maxsize')
        # for 0 <= n the first n elements are exactly the slice [:n]: one term for both, so that code written with
        # islice and a specification written with a slice denote the same sequence
        r = self.slice_seq(seq, NONE, SInt(n))
        return SSeq(r.t, 'tuple', seq.elem)

    def b_copy_copy(self, fr, f, args, kw, node):
        v = args[0]
        if isinstance(v, SObj):
            rec = dict(self.heap[v.oid])
            o = self.alloc(rec['__class__'])
            self.heap[o.oid].update(rec)
            return o
        if isinstance(v, (SSeq, SDyn)):
            return v
        raise Unsupported('copy.copy')

    def b_decimal_Decimal(self, fr, f, args, kw, node):
        from . import casts
        return casts.to_decimal(self, args[0] if args else lift(0), node)

    def b_datetime_timedelta(self, fr, f, args, kw, node):
        if args or set(kw) - {'days'}:
            raise Unsupported('timedelta with non-day arguments')
        d = kw.get('days', lift(0))
        if not isinstance(d, (SInt, SBool)):
            raise Unsupported('timedelta(days=non-int)')
        n = self.as_int(d)
        if not self.specmode and self.branch(z3.Or(n > 999999999, n < -999999999)):
            raise PyRaise('OverflowError', getattr(node, 'lineno', None), 'days out of range for timedelta')
        return STd(n)

    def b_datetime_date(self, fr, f, args, kw, node):
        from . import dates
        return dates.make_date(self, args, node)

    # -- sequence/str methods reached through getattr (non-mutating)
    def b_m_days(self, fr, f, args, kw, node):
        raise Unsupported('days()')

    def b_datetime_datetime_strptime(self, fr, f, args, kw, node):
        x, fmt = args
        if isinstance(x, SDyn):
            if not self.specmode and self.branch(z3.Not(Val.is_VStr(x.t))):
                raise PyRaise('TypeError', getattr(node, 'lineno', None), 'strptime() argument 1 must be str')
            x = SStr(Val.s(x.t))
        if not isinstance(x, SStr):
            raise Unsupported('strptime of non-string')
        ok = uf('str_is_date_for', z3.StringSort(), z3.StringSort(), B)(x.t, fmt.t)
        if not self.specmode and self.branch(z3.Not(ok)):
            raise PyRaise('ValueError', getattr(node, 'lineno', None), 'time data does not match format')
        o = uf('str_to_date', z3.StringSort(), z3.StringSort(), I)(x.t, fmt.t)
        self.assume(z3.And(o >= 1, o <= MAXORD))
        return SDate(o)

    def b_m_date(self, fr, f, args, kw, node):
        return f.self_

    def b_m_toordinal(self, fr, f, args, kw, node):
        return SInt(f.self_.t)

    def b_m_weekday(self, fr, f, args, kw, node):
        # date.weekday(): Monday == 0; ordinal 1 (0001-01-01) is a Monday
        return SInt((f.self_.t + 6) % 7)

    def b_m_isoweekday(self, fr, f, args, kw, node):
        return SInt((f.self_.t + 6) % 7 + 1)

    def b_m_lower(self, fr, f, args, kw, node):
        return SStr(uf('str_lower', z3.StringSort(), z3.StringSort())(f.self_.t))

    def b_m_upper(self, fr, f, args, kw, node):
        return SStr(uf('str_upper', z3.StringSort(), z3.StringSort())(f.self_.t))

    def b_m_join(self, fr, f, args, kw, node):
        """sep.join(strings): concatenation for a literal sequence; for a symbolic sequence an uninterpreted string
        (only ever used to build messages: nothing is assumed about it beyond being a function of its arguments).
        A non-string element (TypeError) is not modelled: the elements are taken to be strings."""
        if not isinstance(f.self_, SStr) or len(args) != 1:
            raise Unsupported('join')
        v = args[0]
        if isinstance(v, STuple) and all(isinstance(e, SStr) for e in v.elems):
            if not v.elems:
                return SStr(z3.StringVal(''))
            out = v.elems[0].t
            for e in v.elems[1:]:
                out = z3.Concat(out, f.self_.t, e.t)
            return SStr(out)
        seq = self.as_seq(v)
        return SStr(uf('str_join', z3.StringSort(), SeqV, z3.StringSort())(f.self_.t, seq.t))

    def b_m_strip(self, fr, f, args, kw, node):
        if args:
            raise Unsupported('strip(chars)')
        return SStr(uf('str_strip', z3.StringSort(), z3.StringSort())(f.self_.t))

    def b_m_format(self, fr, f, args, kw, node):
        """str.format on a literal template whose replacement fields are plain ({} / {0} / {name}, no conversion or format
        spec) and whose arguments are strings: the concatenation of the literal pieces and the arguments"""
        import string as _string
        tpl = z3.simplify(f.self_.t) if isinstance(f.self_, SStr) else None
        if tpl is None or not z3.is_string_value(tpl):
            raise Unsupported('format on a non-literal template')
        pieces, auto = [], 0
        for lit, field, spec, conv in _string.Formatter().parse(tpl.as_string()):
            if lit:
                pieces.append(z3.StringVal(lit))
            if field is None:
                continue
            if spec or conv:
                raise Unsupported('format spec / conversion')
            if field == '':
                v = args[auto]
                auto += 1
            elif field.isdigit():
                v = args[int(field)]
            elif field in kw:
                v = kw[field]
            else:
                raise Unsupported(f'format field {field!r}')
            if isinstance(v, SDyn) and not self.specmode and self.branch(Val.is_VStr(v.t)):
                v = SStr(Val.s(v.t))
            if not isinstance(v, SStr):
                # str() of a value that is not a string: an uninterpreted text of the value
                v = SStr(uf('str_of', Val, z3.StringSort())(self.to_val(v)))
            pieces.append(v.t)
        if not pieces:
            return SStr(z3.StringVal(''))
        return SStr(z3.Concat(*pieces) if len(pieces) > 1 else pieces[0])

    def b_m_startswith(self, fr, f, args, kw, node):
        return SBool(z3.PrefixOf(args[0].t, f.self_.t))

    def b_m_endswith(self, fr, f, args, kw, node):
        return SBool(z3.SuffixOf(args[0].t, f.self_.t))

    def b_m_index(self, fr, f, args, kw, node):
        return self.seq_method(fr, f.self_, 'index', args, kw, None, node)

    def b_m_split(self, fr, f, args, kw, node):
        t = z3.simplify(f.self_.t)
        if z3.is_string_value(t) and not args:
            return STuple([lift(x) for x in t.as_string().split()], 'list')
        raise Unsupported('str.split on symbolic string')

    def b_m_copy(self, fr, f, args, kw, node):
        return f.self_
