"""Models of int(x) / Decimal(x) on non-int operands (trusted library contracts)."""
import z3
from .vals import *
from .core import Unsupported, PyRaise


def to_int(run, v, node):
    ln = getattr(node, 'lineno', None)
    if isinstance(v, SStr):
        ok = uf('str_is_intlit', z3.StringSort(), B)(v.t)
        if not run.specmode and run.branch(z3.Not(ok)):
            raise PyRaise('ValueError', ln, 'invalid literal for int()')
        return SInt(uf('str_to_int', z3.StringSort(), I)(v.t))
    if isinstance(v, SDec):
        fin = uf('dec_is_finite', Dec, B)(v.t)
        nan = uf('dec_is_nan', Dec, B)(v.t)
        if not run.specmode:
            if run.branch(nan):
                raise PyRaise('ValueError', ln, 'cannot convert NaN to integer')
            if run.branch(z3.Not(fin)):
                raise PyRaise('OverflowError', ln, 'cannot convert Infinity to integer')
        return SInt(uf('dec_trunc', Dec, I)(v.t))
    if isinstance(v, SNone):
        raise PyRaise('TypeError', ln, 'int() argument must be a string or a number')
    if isinstance(v, SDyn):
        t = v.t
        if not run.specmode:
            if run.branch(z3.Or(Val.is_VNone(t), Val.is_VObj(t), Val.is_VSeq(t), Val.is_VDate(t))):
                raise PyRaise('TypeError', ln, 'int() argument must be a string or a number')
            if run.branch(z3.And(Val.is_VStr(t), z3.Not(uf('str_is_intlit', z3.StringSort(), B)(Val.s(t))))):
                raise PyRaise('ValueError', ln, 'invalid literal for int()')
            if run.branch(z3.And(Val.is_VDec(t), uf('dec_is_nan', Dec, B)(Val.d(t)))):
                raise PyRaise('ValueError', ln, 'cannot convert NaN to integer')
            if run.branch(z3.And(Val.is_VDec(t), z3.Not(uf('dec_is_finite', Dec, B)(Val.d(t))))):
                raise PyRaise('OverflowError', ln, 'cannot convert Infinity to integer')
        return SInt(uf('val_to_int', Val, I)(t))
    raise Unsupported(f'int({v!r})')


def to_decimal(run, v, node):
    ln = getattr(node, 'lineno', None)
    if isinstance(v, (SInt, SBool)):
        return SDec(int2dec(run.as_int(v)))
    if isinstance(v, SDec):
        return v
    if isinstance(v, SStr):
        ok = uf('str_is_declit', z3.StringSort(), B)(v.t)
        if not run.specmode and run.branch(z3.Not(ok)):
            raise PyRaise('InvalidOperation', ln, 'invalid literal for Decimal()')
        return SDec(uf('str_to_dec', z3.StringSort(), Dec)(v.t))
    if isinstance(v, SNone):
        raise PyRaise('TypeError', ln, 'conversion from NoneType to Decimal is not supported')
    if isinstance(v, SDyn):
        t = v.t
        if not run.specmode:
            if run.branch(z3.Or(Val.is_VNone(t), Val.is_VObj(t), Val.is_VDate(t))):
                raise PyRaise('TypeError', ln, 'conversion to Decimal is not supported')
            if run.branch(z3.And(Val.is_VSeq(t), z3.Not(uf('seq_is_dectuple', I, B)(Val.h(t))))):
                raise PyRaise('ValueError', ln, 'invalid tuple for Decimal()')
            if run.branch(z3.And(Val.is_VStr(t), z3.Not(uf('str_is_declit', z3.StringSort(), B)(Val.s(t))))):
                raise PyRaise('InvalidOperation', ln, 'invalid literal for Decimal()')
        return SDec(uf('val_to_dec', Val, Dec)(t))
    raise Unsupported(f'Decimal({v!r})')
