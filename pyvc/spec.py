"""Contract language of pyvc.

This module is imported by BOTH interpreters:

* python3-vt (z3 present, beanquery's dependencies absent): the VC engine reads the
  contract objects, takes the *source* of requires/ensures/ghost/spec functions through
  ``inspect`` and interprets it symbolically.
* /venv/bin/python (beanquery importable, no z3): the same contract objects are
  evaluated natively: T3 scopes, replay of solver counter-models.

Therefore: no z3 import and no beanquery import at module import time.
"""
import inspect
import itertools
import textwrap
import ast as _ast

CONTRACTS = {}      # target qualname(+variant) -> Contract
SPECFUNCS = {}      # name -> SpecFunc
LIBRARY = {}        # trusted library contracts: dotted name -> LibContract


# ----------------------------------------------------------------------------
# helpers usable inside contracts (dual semantics: native here, symbolic in engine)

def implies(a, b):
    return (not a) or bool(b)


def iff(a, b):
    return bool(a) == bool(b)


class Tok:
    """Native stand-in for an opaque value (a row, a context, a node identity)."""
    __slots__ = ('tag', 'k')

    def __init__(self, tag, k):
        self.tag = tag
        self.k = k

    def __repr__(self):
        return f'<{self.tag}{self.k}>'

    def __eq__(self, other):
        return isinstance(other, Tok) and (self.tag, self.k) == (other.tag, other.k)

    def __hash__(self):
        return hash((self.tag, self.k))

    def __lt__(self, other):
        return (self.tag, self.k) < (other.tag, other.k)


class FakeNode:
    """Native stand-in for a compiled child node: calling it returns a value from a
    table keyed by the context (PURE_CHILDREN: no side effect, never raises)."""

    def __init__(self, k, table=None, default=None, dtype=object):
        self.k = k
        self.table = dict(table or {})
        self.default = default
        self.dtype = dtype
        self.calls = 0

    def __call__(self, context):
        self.calls += 1
        try:
            return self.table.get(context, self.default)
        except TypeError:
            return self.default

    def __repr__(self):
        return f'<node{self.k}:{self.table or self.default!r}>'

    def __eq__(self, other):
        return isinstance(other, FakeNode) and (self.k, self.table, self.default) == (other.k, other.table, other.default)

    def __hash__(self):
        return hash(('FakeNode', self.k))


def forall(pred):
    raise NotImplementedError('forall() is prover-only (loop invariants and lemmas)')


def allocated(x):
    return True


def inputs_unchanged(*names):
    return True      # natively: checked by the frame comparison of the harness


def ext(name):
    """an external (library) function by dotted name; symbolically an uninterpreted pure function"""
    import importlib
    mod, _, fn = name.rpartition('.')
    return getattr(importlib.import_module(mod), fn)


def set_of(seq):
    return set(seq)


def ev(node, context):
    """value of child node on context (native: call it)."""
    return node(context)


class SpecFunc:
    def __init__(self, fn, rec=False, uninterpreted=False, sig=None, axioms=None):
        self.fn = fn
        self.name = fn.__name__
        self.rec = rec
        self.uninterpreted = uninterpreted
        self.sig = sig
        self.axioms = axioms or []
        self._tree = None

    @property
    def tree(self):
        if self._tree is None:
            src = textwrap.dedent(inspect.getsource(self.fn))
            mod = _ast.parse(src)
            self._tree = mod.body[0]
        return self._tree

    def __call__(self, *a, **k):
        return self.fn(*a, **k)


def spec(fn=None, *, rec=False, uninterpreted=False, sig=None):
    """Mark a pure Python function as a specification function.

    rec=True: translated to a z3 RecFunction (sig = ([argkinds], retkind) required).
    uninterpreted=True: symbolically an uninterpreted symbol (native body is the
    trusted reference implementation); sig required.
    """
    def deco(f):
        sf = SpecFunc(f, rec=rec, uninterpreted=uninterpreted, sig=sig)
        SPECFUNCS[f.__name__] = sf
        return sf
    if fn is not None:
        return deco(fn)
    return deco


# ----------------------------------------------------------------------------
# shapes: what a parameter / field / closure variable looks like.

class Shape:
    def cases(self):
        """Expand Opt/Union into alternatives (list of case-free shapes)."""
        return [self]

    def enum(self, budget=3):
        raise NotImplementedError(type(self).__name__)

    def describe(self):
        return type(self).__name__


class NoneS(Shape):
    def enum(self, budget=3):
        return [None]


class Int(Shape):
    def __init__(self, lo=None, hi=None, pool=None):
        self.lo, self.hi, self.pool = lo, hi, pool

    def enum(self, budget=3):
        pool = self.pool if self.pool is not None else [0, 1, 2, -1, 3, -2, 5, -7, 7, 8]
        return [v for v in pool if (self.lo is None or v >= self.lo) and (self.hi is None or v <= self.hi)][:max(budget + 3, 4)]


class Bool(Shape):
    def enum(self, budget=3):
        return [False, True]


class Str(Shape):
    def __init__(self, pool=None):
        self.pool = pool

    def enum(self, budget=3):
        return list(self.pool or ['', 'a', 'ab', 'B'])


class DecS(Shape):
    def enum(self, budget=3):
        from decimal import Decimal
        return [Decimal('0'), Decimal('1.5'), Decimal('-2'), Decimal('0.00'), Decimal('3')]


class DateS(Shape):
    def enum(self, budget=3):
        import datetime
        return [datetime.date(2024, 2, 29), datetime.date(1999, 12, 31), datetime.date(2000, 1, 1), datetime.date(2023, 7, 15)]


class Opaque(Shape):
    """An opaque identity (row, context, type object ...)."""
    def __init__(self, tag='o', n=3, natives=None):
        self.tag, self.n, self.natives = tag, n, natives

    def enum(self, budget=3):
        if self.natives is not None:
            return list(self.natives)
        return [Tok(self.tag, k) for k in range(self.n)]


class Dyn(Shape):
    """A dynamically typed BQL value: None | bool | int | Decimal | str | date | opaque."""
    def __init__(self, kinds=('none', 'bool', 'int', 'dec', 'str', 'date', 'obj'), pool=None):
        self.kinds = tuple(kinds)
        self.pool = pool

    def enum(self, budget=3):
        if self.pool is not None:
            return list(self.pool)
        from decimal import Decimal
        import datetime
        out = []
        if 'none' in self.kinds: out.append(None)
        if 'bool' in self.kinds: out += [False, True]
        if 'int' in self.kinds: out += [0, 1, -3]
        if 'dec' in self.kinds: out += [Decimal('0'), Decimal('2.5')]
        if 'str' in self.kinds: out += ['', 'x']
        if 'date' in self.kinds: out += [datetime.date(2024, 1, 31)]
        if 'obj' in self.kinds: out += [Tok('v', 0)]
        return out


class ListOf(Shape):
    def __init__(self, elem, kind='list', minlen=0, maxlen=3, distinct=False):
        self.elem, self.kind, self.minlen, self.maxlen, self.distinct = elem, kind, minlen, maxlen, distinct

    def enum(self, budget=3):
        out = []
        elems = self.elem.enum(budget)
        mk = list if self.kind == 'list' else tuple
        for n in range(self.minlen, min(self.maxlen, budget) + 1):
            cnt = 0
            for combo in itertools.product(elems, repeat=n):
                if self.distinct and len(set(map(repr, combo))) != len(combo):
                    continue
                out.append(mk(combo))
                cnt += 1
                if cnt >= 12:
                    break
        return out


def TupleOf(elem, **kw):
    return ListOf(elem, kind='tuple', **kw)


class Fixed(Shape):
    """Concrete-length heterogeneous list/tuple."""
    def __init__(self, shapes, kind='tuple'):
        self.shapes, self.kind = list(shapes), kind

    def cases(self):
        alts = [s.cases() for s in self.shapes]
        return [Fixed(list(c), self.kind) for c in itertools.product(*alts)]

    def enum(self, budget=3):
        mk = list if self.kind == 'list' else tuple
        return [mk(c) for c in itertools.islice(itertools.product(*(s.enum(budget) for s in self.shapes)), 40)]


class Opt(Shape):
    def __init__(self, shape):
        self.shape = shape

    def cases(self):
        return [NoneS()] + self.shape.cases()

    def enum(self, budget=3):
        return [None] + self.shape.enum(budget)


class Union(Shape):
    def __init__(self, *shapes):
        self.shapes = shapes

    def cases(self):
        out = []
        for s in self.shapes:
            out += s.cases()
        return out

    def enum(self, budget=3):
        out = []
        for s in self.shapes:
            out += s.enum(budget)
        return out


class Child(Shape):
    """A compiled child node: callable value; symbolic: ev(node, ctx) uninterpreted."""
    def __init__(self, values=None, contexts=None):
        self.values = values
        self.contexts = contexts

    def enum(self, budget=3):
        vals = self.values if self.values is not None else Dyn().enum()
        return [FakeNode(k, default=v) for k, v in enumerate(vals)]


class Callee(Shape):
    """An opaque callable parameter (e.g. the wrapped BQL function body): symbolically
    apply(f, args) uninterpreted and pure."""
    def __init__(self, natives=None):
        self.natives = natives

    def enum(self, budget=3):
        return list(self.natives or [lambda *a: ('applied',) + a])


class Const(Shape):
    """A concrete Python value known to the contract (flag in a closure, constant)."""
    def __init__(self, value):
        self.value = value

    def enum(self, budget=3):
        return [self.value]


class Obj(Shape):
    """A heap object of a class in /repo with declared fields (plus ghost fields).

    cls: 'module:Class' qualname of the real class (methods come from its AST);
    fields: name -> Shape;  ghost: name -> Shape (specification-only state);
    native: callable(fieldvalues dict) -> real object, for T3/replay.
    """
    def __init__(self, cls, fields=None, ghost=None, native=None, where=None, closed=False, complete=False):
        self.cls, self.fields, self.ghost, self.native = cls, dict(fields or {}), dict(ghost or {}), native
        self.complete = complete  # the fields are ALL instance attributes of the object: reading any other name is an AttributeError
        self.closed = closed     # reads clause: the function may read only the declared fields of this object
        self.where = where   # optional lambda over the object: shape invariant (symbolic assume / native filter)

    def allfields(self):
        d = dict(self.fields)
        d.update(self.ghost)
        return d

    def cases(self):
        names = list(self.allfields())
        alts = [self.allfields()[n].cases() for n in names]
        out = []
        for combo in itertools.product(*alts):
            f = {n: s for n, s in zip(names, combo) if n in self.fields}
            g = {n: s for n, s in zip(names, combo) if n in self.ghost}
            out.append(Obj(self.cls, f, g, self.native, self.where, self.closed, self.complete))
        return out

    def enum(self, budget=3):
        names = list(self.allfields())
        pools = [self.allfields()[n].enum(budget) for n in names]
        out = []
        for combo in itertools.islice(itertools.product(*pools), 4000):
            vals = dict(zip(names, combo))
            out.append(('__obj__', self, vals))
        return out


class Rec(Shape):
    """An immutable record-like opaque value whose attributes are read through
    uninterpreted field functions; natively a SimpleNamespace-like object."""
    def __init__(self, tag='rec', attrs=None, truthy=True, isa=None, native=None):
        self.native = native     # callable(attrs dict) -> real object, for native evaluation / replay
        self.tag = tag
        self.attrs = dict(attrs or {})
        self.truthy = truthy     # named tuples and directives are never falsy
        self.isa = isa           # qualified class name the value is an instance of (for isinstance tests)

    def enum(self, budget=3):
        names = list(self.attrs)
        pools = [self.attrs[n].enum(budget) for n in names]
        out = []
        for combo in itertools.islice(itertools.product(*pools), 60):
            attrs = dict(zip(names, combo))
            out.append(self.native(attrs) if self.native is not None else Record(self.tag, attrs))
        return out


class Record:
    def __init__(self, tag, attrs):
        self.__dict__.update(attrs)
        self._tag = tag

    def __repr__(self):
        return f'{self._tag}({", ".join(f"{k}={v!r}" for k, v in self.__dict__.items() if k != "_tag")})'


# ----------------------------------------------------------------------------

class Old:
    """native pre-state snapshot: old.<param> gives the deep-copied argument."""
    def __init__(self, d):
        self.__dict__.update(d)


class Contract:
    FIELDS = ('params', 'closure', 'requires', 'ensures', 'ghost', 'raises', 'modifies', 'loops',
              'assumes', 'props', 'inline', 'native', 'result', 'tier', 'unroll', 'globals',
              'scope', 'note', 'kind', 'decreases', 'lemmas', 'timeout', 'modular', 'must_raise', 'raises_iff', 'externals', 'callees', 'method_results', 'use', 'opaque_ctors', 'hints', 'pure_ctors', 'pure_callees', 'call_requires')

    def __init__(self, target, cls, variant=None):
        self.target = target
        self.variant = variant
        self.key = target if variant is None else f'{target}[{variant}]'
        self.params = {}
        self.closure = {}
        self.globals = {}
        self.requires = None
        self.ensures = None          # function or list of (label, function)
        self.ghost = None
        self.raises = {}             # excname -> condition function over params (may be None = always allowed)
        self.modifies = None         # list of 'param.field' strings; None = not checked
        self.loops = {}              # ordinal -> dict(inv=fn, modifies=[names], decreases=fn)
        self.assumes = []
        self.props = []
        self.inline = []             # functions whose *real body* is inlined instead of used by contract
        self.native = None           # callable returning the real function for T3/replay
        self.result = None           # Shape of the result when used modularly by callers
        self.tier = 'T1'
        self.unroll = None
        self.scope = None            # optional native scope generator
        self.note = ''
        self.kind = 'function'
        self.lemmas = []
        self.timeout = None
        self.modular = None
        self.must_raise = ()
        self.raises_iff = True
        self.externals = {}
        self.callees = {}
        self.method_results = {}
        self.use = None
        self.opaque_ctors = {}
        self.hints = []
        self.pure_ctors = []
        self.call_requires = {}      # external dotted name -> lambda over the caller's variables and `args`: proved at every call of that external
        self.pure_callees = {}       # qual -> (spec function, [exceptions]): a callee assumed to be that pure function (used inside comprehensions)
        for k, v in vars(cls).items():
            if k.startswith('_'):
                continue
            if k not in self.FIELDS:
                raise TypeError(f'unknown contract field {k} in {target}')
            if isinstance(v, staticmethod):
                v = v.__func__
            setattr(self, k, v)
        if isinstance(self.props, str):
            self.props = [self.props]

    def ensures_list(self):
        e = self.ensures
        if e is None:
            return []
        if callable(e):
            return [('post', e)]
        return list(e)


def contract(target, variant=None):
    def deco(cls):
        c = Contract(target, cls, variant)
        if c.key in CONTRACTS:
            raise KeyError(f'duplicate contract {c.key}')
        CONTRACTS[c.key] = c
        return c
    return deco


_file_trees = {}


def _file_tree(path):
    if path not in _file_trees:
        with open(path, encoding='utf-8') as f:
            _file_trees[path] = _ast.parse(f.read())
    return _file_trees[path]


_fn_tree_cache = {}


def fn_tree(fn):
    """AST of a contract function (lambda or def) -> (argnames, body node | list of stmts)."""
    if isinstance(fn, SpecFunc):
        fn = fn.fn
    key = id(fn)
    if key in _fn_tree_cache:
        return _fn_tree_cache[key]
    code = fn.__code__
    tree = _file_tree(code.co_filename)
    argnames = list(code.co_varnames[:code.co_argcount])
    cands = []
    for node in _ast.walk(tree):
        if isinstance(node, (_ast.Lambda, _ast.FunctionDef)) and node.lineno == code.co_firstlineno:
            if isinstance(node, _ast.FunctionDef) and node.name != fn.__name__:
                continue
            if isinstance(node, _ast.Lambda) and fn.__name__ != '<lambda>':
                continue
            if [a.arg for a in node.args.args] == argnames:
                cands.append(node)
        elif isinstance(node, _ast.FunctionDef) and node.name == fn.__name__ and node.decorator_list \
                and min(d.lineno for d in node.decorator_list) == code.co_firstlineno:
            cands.append(node)
    if len(cands) > 1:
        same = []
        for c in cands:
            if isinstance(c, _ast.Lambda):
                cc = compile(_ast.Expression(c), code.co_filename, 'eval').co_consts[0]
                if cc.co_code == code.co_code and cc.co_consts == code.co_consts and cc.co_names == code.co_names:
                    same.append(c)
        cands = same or cands
    if not cands:
        raise ValueError(f'cannot find source of {fn} at {code.co_filename}:{code.co_firstlineno}')
    node = cands[0]
    r = (argnames, node.body)
    _fn_tree_cache[key] = r
    return r


class SliceS(Shape):
    """a slice object slice(lo, hi) with optional int bounds"""
    def __init__(self, lo=None, hi=None):
        self.lo = lo or Opt(Int())
        self.hi = hi or Opt(Int())

    def cases(self):
        return [SliceS(a, b) for a in self.lo.cases() for b in self.hi.cases()]

    def enum(self, budget=3):
        vals = [None, 0, 1, 2, -1, 7, 9, -8]
        return [slice(a, b) for a in vals for b in vals]


class KwArgs(Shape):
    """**kwargs with a fixed key set"""
    def __init__(self, items):
        self.items = dict(items)

    def cases(self):
        names = list(self.items)
        alts = [self.items[n].cases() for n in names]
        return [KwArgs(dict(zip(names, c))) for c in itertools.product(*alts)]

    def enum(self, budget=3):
        names = list(self.items)
        pools = [self.items[n].enum(budget) for n in names]
        return [dict(zip(names, c)) for c in itertools.islice(itertools.product(*pools), 200)]


class GlobalRef(Shape):
    """a module-level singleton of /repo (e.g. a sentinel created with object())"""
    def __init__(self, qual):
        self.qual = qual

    def enum(self, budget=3):
        import importlib
        mod, _, name = self.qual.partition(':')
        return [getattr(importlib.import_module(mod), name)]
