"""Extraction: locate functions/classes of /repo by qualified name in the file's ast.

What extraction keeps: the FunctionDef/ClassDef nodes exactly as parsed from the working
tree.  What it drops: decorators (except property/staticmethod/classmethod markers which
are interpreted), docstrings, annotations.
"""
import ast
import hashlib
import os

REPO = os.environ.get('VERIF_REPO', '/repo')


class ModInfo:
    def __init__(self, name, path):
        self.name, self.path = name, path
        with open(path, encoding='utf-8') as f:
            self.src = f.read()
        self.tree = ast.parse(self.src)
        self.lines = self.src.splitlines()
        self.imports = {}     # local alias -> ('module', dotted) | ('from', dotted_module, name)
        self.defs = {}        # name -> [nodes] (FunctionDef/ClassDef), in order
        self.assigns = {}     # name -> [value nodes]
        self._scan()

    def _scan(self):
        pkg = self.name.rsplit('.', 1)[0] if '.' in self.name else ''
        is_pkg = os.path.basename(self.path) == '__init__.py'
        base = self.name if is_pkg else pkg
        for node in self.tree.body:
            if isinstance(node, ast.Import):
                for a in node.names:
                    if a.asname:
                        self.imports[a.asname] = ('module', a.name)
                    else:
                        self.imports[a.name.split('.')[0]] = ('module', a.name.split('.')[0])
            elif isinstance(node, ast.ImportFrom):
                mod = node.module or ''
                if node.level:
                    parts = base.split('.')
                    parts = parts[:len(parts) - (node.level - 1)]
                    mod = '.'.join(parts + ([mod] if mod else []))
                for a in node.names:
                    self.imports[a.asname or a.name] = ('from', mod, a.name)
            elif isinstance(node, (ast.FunctionDef, ast.ClassDef)):
                self.defs.setdefault(node.name, []).append(node)
            elif isinstance(node, ast.Assign):
                for t in node.targets:
                    if isinstance(t, ast.Name):
                        self.assigns.setdefault(t.id, []).append(node.value)

    def segment(self, node):
        start = node.lineno
        if getattr(node, 'decorator_list', None):
            start = min(start, min(d.lineno for d in node.decorator_list))
        text = '\n'.join(self.lines[start - 1:node.end_lineno])
        return start, node.end_lineno, hashlib.sha1(text.encode()).hexdigest()


_cache = {}


def module_path(name):
    p = os.path.join(REPO, *name.split('.'))
    if os.path.isdir(p):
        return os.path.join(p, '__init__.py')
    return p + '.py'


def load(name):
    key = (REPO, name)
    if key not in _cache:
        path = module_path(name)
        if not os.path.exists(path):
            return None
        _cache[key] = ModInfo(name, path)
    return _cache[key]


def clear_cache():
    _cache.clear()


def _defs_in(body):
    """defs directly reachable in a statement list (descending into if/for/try/with
    blocks but not into nested defs), in source order."""
    out = []
    for st in body:
        if isinstance(st, (ast.FunctionDef, ast.ClassDef)):
            out.append(st)
        else:
            for fld in ('body', 'orelse', 'finalbody', 'handlers'):
                sub = getattr(st, fld, None)
                if isinstance(sub, list):
                    for h in sub:
                        if isinstance(h, ast.ExceptHandler):
                            out += _defs_in(h.body)
                    out += _defs_in([s for s in sub if isinstance(s, ast.stmt)])
    return out


class TargetMissing(Exception):
    pass


def resolve(qual):
    """'pkg.mod:A.b#1.c' -> (ModInfo, node, [enclosing nodes])."""
    modname, _, path = qual.partition(':')
    mod = load(modname)
    if mod is None:
        raise TargetMissing(f'module {modname} not found')
    body = mod.tree.body
    chain = []
    node = None
    for seg in path.split('.'):
        name, _, ordinal = seg.partition('#')
        k = int(ordinal) if ordinal else None
        cands = [d for d in _defs_in(body) if d.name == name]
        if not cands and isinstance(node, ast.ClassDef):
            # a method the class inherits: the contract on Class.method is about the function Python would call, which is
            # the first definition along the base classes (single inheritance chains of /repo classes)
            seen, todo = set(), [(mod, node)]
            while todo and not cands:
                m0, c0 = todo.pop(0)
                for bq in class_bases(m0, c0):
                    if not bq or ':' not in bq or bq in seen:
                        continue
                    seen.add(bq)
                    try:
                        bm, bn, _ = resolve(bq)
                    except TargetMissing:
                        continue
                    if not isinstance(bn, ast.ClassDef):
                        continue
                    got = [d for d in _defs_in(bn.body) if d.name == name]
                    if got:
                        cands, mod = got, bm
                        chain[-1] = bn
                        break
                    todo.append((bm, bn))
        if not cands:
            raise TargetMissing(f'{qual}: no definition named {name}')
        if k is None:
            node = cands[-1]      # python semantics: last definition wins
        else:
            if k >= len(cands):
                raise TargetMissing(f'{qual}: {name}#{k} not found')
            node = cands[k]
        chain.append(node)
        body = node.body
    return mod, node, chain[:-1]


def class_bases(mod, cnode):
    """resolve base class expressions to 'module:Class' quals where possible."""
    out = []
    for b in cnode.bases:
        q = resolve_expr_qual(mod, b)
        out.append(q)
    return out


def resolve_expr_qual(mod, expr):
    """Name / dotted Attribute -> 'module:Name' for things defined in /repo, else dotted."""
    parts = []
    e = expr
    while isinstance(e, ast.Attribute):
        parts.append(e.attr)
        e = e.value
    if not isinstance(e, ast.Name):
        return None
    parts.append(e.id)
    parts.reverse()
    head = parts[0]
    if head in mod.defs and len(parts) == 1:
        return f'{mod.name}:{head}'
    if head in mod.imports:
        imp = mod.imports[head]
        if imp[0] == 'from':
            target_mod, nm = imp[1], imp[2]
            # could be a submodule or a name in the module
            sub = load(f'{target_mod}.{nm}') if target_mod else load(nm)
            if sub is not None:
                cur = sub.name
                rest = parts[1:]
            else:
                m = load(target_mod)
                if m is not None and len(parts) == 1:
                    # re-exported name?
                    if nm in m.defs:
                        return f'{target_mod}:{nm}'
                    if nm in m.imports:
                        return resolve_expr_qual(m, ast.Name(id=nm))
                    return f'{target_mod}:{nm}'
                return '.'.join([target_mod, nm] + parts[1:])
        else:
            cur = imp[1]
            rest = parts[1:]
        # walk submodules
        while rest:
            nxt = load(f'{cur}.{rest[0]}')
            if nxt is None:
                break
            cur = nxt.name
            rest = rest[1:]
        m = load(cur)
        if m is None:
            return '.'.join([cur] + rest)
        if not rest:
            return cur          # a module
        if len(rest) == 1:
            if rest[0] in m.defs:
                return f'{cur}:{rest[0]}'
            if rest[0] in m.imports:
                return resolve_expr_qual(m, ast.Name(id=rest[0]))
            return f'{cur}:{rest[0]}'
        return f'{cur}:' + '.'.join(rest)
    return '.'.join(parts)
