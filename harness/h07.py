"""C07 bounded native harness: result shape and naming."""
import itertools
import random
from decimal import Decimal

import beanquery
from beanquery import parser
from harness.common import make_conn, Result, pmap
from harness import ledger

COLS = [('a', int), ('b', str), ('c', Decimal)]
ROWS = [(1, 'x', Decimal('1')), (2, None, Decimal('2')), (None, 'y', None), (2, 'x', Decimal('3'))]

EXPRS = ['a', 'b', 'c', 'a + 1', 'a+1', ' a  +   1', '(a + 1)', 'length(b)', 'coalesce(a, 0)', 'a * (a + 2)', '-a', 'a = 2', 'b IS NULL',
         'a /* c */ + 1', 'upper( b )', 'NOT a = 1', 'a BETWEEN 1 AND 2', 'sum(a)', 'count(*)', 'max(a) + 1', 'A', 'LENGTH(B)']


def expected_name(expr, alias):
    if alias is not None:
        return alias
    e = expr.strip()
    if e.lower() in ('a', 'b', 'c'):
        return e.lower()
    return None      # expression text: checked by name_ok()


def name_ok(name, expr, query):
    """the name is a slice of the statement text that parses back to the target expression"""
    if name not in query:
        return False
    try:
        return parser.parse(f'SELECT {name}').targets[0].expression == parser.parse(f'SELECT {expr}').targets[0].expression
    except Exception:
        return False


def is_agg(e):
    return any(f in e.lower() for f in ('sum(', 'count(', 'max('))


def check(case):
    targets, hidden_group, hidden_order, having = case
    aggq = any(is_agg(e) for e, _ in targets)
    tt = ', '.join(e + (f' AS {al}' if al else '') for e, al in targets)
    q = f'SELECT {tt} FROM #t'
    if hidden_group:
        q += ' GROUP BY ' + ', '.join(hidden_group)
        if having:
            q += ' HAVING count(*) > 0'
    if hidden_order:
        q += ' ORDER BY ' + ', '.join(hidden_order)
    conn = make_conn(t=(COLS, ROWS))
    try:
        curs = conn.execute(q)
    except beanquery.ProgrammingError as e:
        return None       # rejected statements are C05's business
    except Exception as e:
        return ('statement executes or is rejected with a ProgrammingError', {'query': q}, f'{type(e).__name__}: {e}', None)
    desc = curs.description
    names = [d.name for d in desc]
    exp = [expected_name(e, al) for e, al in targets]
    bad = len(names) != len(exp) or any((x is not None and n != x) or (x is None and not name_ok(n, e, q)) for n, x, (e, al) in zip(names, exp, targets))
    if bad:
        return ('description lists exactly the SELECT targets in order, named by alias / column name / exact source text', {'query': q}, names, exp)
    for row in curs.fetchall():
        if len(row) != len(desc):
            return ('every row has exactly one value per described column', {'query': q}, len(row), len(desc))
    # the expression-text name parses back to the same expression
    for (e, al), d in zip(targets, desc):
        if al is None and d.name not in ('a', 'b', 'c'):
            try:
                a1 = parser.parse(f'SELECT {d.name}').targets[0].expression
                a2 = parser.parse(f'SELECT {e}').targets[0].expression
            except Exception as ex:
                return ('expression-text name parses back to the same expression', {'query': q, 'name': d.name}, f'{type(ex).__name__}', 'parse ok')
            if a1 != a2:
                return ('expression-text name parses back to the same expression', {'query': q, 'name': d.name}, repr(a1)[:100], repr(a2)[:100])
    return None


def cases(tier, seed):
    rng = random.Random(seed)
    out = []
    nonagg = [e for e in EXPRS if not is_agg(e)]
    aggs = [e for e in EXPRS if is_agg(e)]
    for e in nonagg:
        out.append(([(e, None)], [], [], False))
        out.append(([(e, 'z')], [], [], False))
        out.append(([(e, None), ('a', None), (e, 'dup'), ('b', 'dup')], [], ['c', 'a + 7'], False))
    for e in aggs:
        out.append(([(e, None)], [], [], False))
        out.append(([('b', None), (e, None)], ['b', 'a'], ['min(c)'], True))
        out.append(([(e, 'total')], ['b'], ['b'], False))
    for _ in range(150 if tier == 'quick' else 1500):
        k = rng.randint(1, 4)
        if rng.random() < 0.4:
            targets = [(rng.choice(aggs), rng.choice([None, 'q', 'total']))for _ in range(k)]
            hg = rng.sample(['a', 'b', 'c', 'length(b)'], rng.randint(0, 3))
            ho = rng.sample(['sum(c)', 'count(b)', 'max(a)'], rng.randint(0, 2)) + ([hg[0]] if hg and rng.random() < 0.5 else [])
            out.append((targets, hg, ho, bool(hg) and rng.random() < 0.5))
        else:
            targets = [(rng.choice(nonagg), rng.choice([None, None, 'q', 'w'])) for _ in range(k)]
            ho = rng.sample(['a', 'b', 'c', 'a * 3', 'length(b)', 'c DESC'], rng.randint(0, 3))
            out.append((targets, [], ho, False))
    return out


def wildcard(res):
    """`*` expands to the table's default columns in declaration order, on every table kind"""
    conn = make_conn(t=(COLS, ROWS))
    res.case('wild-user')
    d = [c.name for c in conn.execute('SELECT * FROM #t').description]
    if d != ['a', 'b', 'c']:
        res.violation('h07:wildcard:user-table', '* expands to the declared columns in declaration order', {'query': 'SELECT * FROM #t'}, d, ['a', 'b', 'c'])
    # a table whose default columns are a re-ordered subset of its stored columns: `*` follows the declared default order
    from harness.common import MemTable

    class Reordered(MemTable):
        wildcard_columns = ['c', 'a']
    conn.tables['w'] = Reordered('w', COLS, ROWS)
    for q, want in [('SELECT * FROM #w', ['c', 'a']), ('SELECT * FROM #w ORDER BY b', ['c', 'a']), ('SELECT * FROM (SELECT * FROM #w)', ['c', 'a'])]:
        res.case(('wild-reordered', q))
        cur = conn.execute(q)
        d, rows = [c.name for c in cur.description], cur.fetchall()
        ai, ci = [n for n, _ in COLS].index('a'), [n for n, _ in COLS].index('c')
        exp = sorted([(r[ci], r[ai]) for r in ROWS], key=repr)
        if d != want or sorted([tuple(r) for r in rows], key=repr) != exp:
            res.violation('h07:wildcard:declared-order', '* expands to the table default columns in their declared order', {'query': q}, (d, rows[:2]), (want, exp[:2]))
    # a statement parsed once and executed against different tables: `*` expands to the columns of the table at hand each time
    from beanquery import parser as _parser
    stmt = _parser.parse('SELECT * FROM #t')
    nested = _parser.parse('SELECT * FROM (SELECT * FROM #t)')
    other = make_conn(t=([('p', int), ('q', str)], [(1, 'x'), (2, 'y')]))
    for st, label in ((stmt, 'plain'), (nested, 'nested')):
        for c2, want in ((conn, ['a', 'b', 'c']), (other, ['p', 'q']), (conn, ['a', 'b', 'c'])):
            res.case(('wild-parsed-once', label, tuple(want)))
            try:
                cur = c2.execute(st)
                d, n = [c.name for c in cur.description], {len(r) for r in cur.fetchall()}
            except Exception as e:  # noqa
                d, n = f'{type(e).__name__}: {e}', set()
            if d != want or n - {len(want)}:
                res.violation('h07:wildcard:parsed-once', '* expands to the default columns of the table the statement is executed against, also for a statement parsed once', {'statement': label}, d, want)
    # a group key referenced twice (position and name): every cell still holds the value of its own target
    for q, plain in [('SELECT a, c, count(*) FROM #t GROUP BY 1, a, c', 'SELECT a, c, count(*) FROM #t GROUP BY a, c'), ('SELECT b, a, c, count(*) FROM #t GROUP BY a, a, b, c', 'SELECT b, a, c, count(*) FROM #t GROUP BY a, b, c')]:
        res.case(('dup-group-ref', q))
        try:
            got, want = conn.execute(q).fetchall(), conn.execute(plain).fetchall()
        except Exception as e:  # noqa
            got, want = f'{type(e).__name__}: {e}', None
        if got != want:
            res.violation('h07:dup-group-ref:' + q[:60], 'every cell holds the value of its own target expression (repeated GROUP BY references change nothing)', {'query': q}, got if isinstance(got, str) else got[:3], want[:3] if want else None)
    # `*` over a subquery names the columns exactly as the subquery does (expression text with upper-case letters included)
    for inner in ['SELECT SUM(a), b FROM #t GROUP BY b', "SELECT a + A, b = 'X' FROM #t", 'SELECT Length(b), UPPER(b) FROM #t']:
        res.case(('wild-subquery-names', inner))
        try:
            idesc = [c.name for c in conn.execute(inner).description]
            odesc = [c.name for c in conn.execute(f'SELECT * FROM ({inner})').description]
        except Exception as e:  # noqa
            idesc, odesc = 'inner', f'{type(e).__name__}: {e}'
        if idesc != odesc:
            res.violation('h07:wildcard:subquery-names', '* over a subquery returns its output columns under their names', {'inner': inner}, odesc, idesc)
    res.case('wild-subquery')
    d = [c.name for c in conn.execute('SELECT * FROM (SELECT c, a + 1 AS k, b FROM #t ORDER BY a)').description]
    if d != ['c', 'k', 'b']:
        res.violation('h07:wildcard:subquery', '* over a subquery returns its output columns', {'query': 'SELECT * FROM (SELECT c, a + 1 AS k, b FROM #t ORDER BY a)'}, d, ['c', 'k', 'b'])
    # several different subqueries in one process, and nested ones: each exposes exactly its own output columns
    seq = [('SELECT * FROM (SELECT a AS y, sum(c) AS total FROM #t GROUP BY a)', ['y', 'total']), ('SELECT * FROM (SELECT b AS x, length(b) AS s FROM #t)', ['x', 's']),
           ('SELECT * FROM (SELECT * FROM (SELECT c, a FROM #t) WHERE a > 1)', ['c', 'a']), ('SELECT * FROM (SELECT a FROM #t)', ['a'])]
    for q, cols in seq:
        res.case('wild-seq:' + q)
        try:
            cur = conn.execute(q)
            d = [c.name for c in cur.description]
            rows = cur.fetchall()
        except Exception as e:
            d, rows = f'{type(e).__name__}: {e}', []
        if d != cols or any(len(r) != len(cols) for r in rows):
            res.violation('h07:wildcard:subquery-sequence', '* over a subquery returns exactly its output columns whatever was compiled before', {'query': q}, d, cols)
    lc = ledger.connect()
    expect = {}
    for tname, table in lc.tables.items():
        if not tname:
            continue
        cols = list(table.wildcard_columns)
        decl = list(table.columns.keys())
        # default columns must come in declaration order
        pos = [decl.index(c) for c in cols if c in decl]
        if pos != sorted(pos) or len(pos) != len(cols):
            res.violation('h07:wildcard-order:' + tname, 'default columns are declared columns in declaration order', {'table': tname}, cols, decl)
        expect[tname] = cols
    for tname, cols in expect.items():
        res.case('wild-' + tname)
        q = f'SELECT * FROM #{tname}'
        try:
            curs = lc.execute(q)
            d = [c.name for c in curs.description]
            rows = curs.fetchall()
        except Exception as e:
            d, rows = f'{type(e).__name__}: {e}', []
        if d != cols:
            res.violation('h07:wildcard:' + tname, '* expands to the table default columns in declaration order', {'query': q, 'ledger': 'A'}, d, cols)
        if any(len(r) != len(cols) for r in rows):
            res.violation('h07:wildcard-rowlen:' + tname, 'every row has one value per described column', {'query': q, 'ledger': 'A'}, [len(r) for r in rows][:3], len(cols))


def lifecycle(res):
    """the description is a function of the statement alone: the same on an empty result, after other statements (also PRINT, also
    on another table) were compiled on the connection, and for a result that is still held while the connection executes more"""
    conn = make_conn(t=(COLS, ROWS), e=(COLS, []))
    for q, want in [('SELECT a, b AS k, a + 1 FROM #t WHERE a > 100000', ['a', 'k', 'a + 1']), ('SELECT a, b FROM #t LIMIT 0', ['a', 'b']),
                    ('SELECT * FROM #e', ['a', 'b', 'c']), ('SELECT b, count(*) AS n FROM #t GROUP BY b HAVING count(*) > 1000', ['b', 'n']),
                    ('SELECT k FROM (SELECT a AS k FROM #t WHERE a > 100000)', ['k']), ('SELECT count(*) AS n FROM #e', ['n'])]:
        res.case(('empty-result', q))
        try:
            cur = conn.execute(q)
            got = None if cur.description is None else [d.name for d in cur.description]
            n = len(cur.fetchall())
        except Exception as ex:
            got, n = f'{type(ex).__name__}: {ex}', -1
        if got != want:
            res.violation('h07:empty-result-description:' + q[:50], 'the description lists the targets also when no row is returned', {'query': q, 'rows': n}, got, want)
    # two results of Connection.execute held at once
    res.case('coexisting-results')
    first = conn.execute('SELECT a, b AS k FROM #t')
    second = conn.execute('SELECT c FROM #t WHERE a > 1')
    d1, d2 = [d.name for d in first.description], [d.name for d in second.description]
    w1 = first.fetchall()
    if d1 != ['a', 'k'] or d2 != ['c'] or any(len(r) != 2 for r in w1) or len(w1) != len(ROWS):
        res.violation('h07:coexisting-results', 'a result keeps describing its own statement while the connection executes other statements', {'queries': ['SELECT a, b AS k FROM #t', 'SELECT c FROM #t WHERE a > 1']},
                      (d1, d2, w1[:2]), (['a', 'k'], ['c'], len(ROWS)))
    # a ledger connection: `*` and bare columns resolve against the default table whatever was compiled before
    from harness import ledger
    lc = ledger.connect()
    want_star = [d.name for d in ledger.connect().execute('SELECT *').description]
    want_cols = [d.name for d in ledger.connect().execute('SELECT account, number').description]
    for before in ('PRINT FROM year = 2020', 'SELECT type FROM #entries', 'SELECT account FROM #accounts', 'BALANCES', 'JOURNAL'):
        res.case(('after-compile', before))
        try:
            lc.compile(lc.parse(before))
            got_star = [d.name for d in lc.execute('SELECT *').description]
            got_cols = [d.name for d in lc.execute('SELECT account, number').description]
        except Exception as ex:
            got_star = got_cols = f'{type(ex).__name__}: {ex}'
        if got_star != want_star or got_cols != want_cols:
            res.violation('h07:after-compile:' + before[:30], 'the targets of a statement resolve against its own table, whatever the connection compiled before', {'compiled_before': before},
                          (got_star, got_cols), (want_star, want_cols))


def run(tier, seed):
    res = Result('targets: aliased / bare-column / expression targets with odd spacing, comments, parentheses and letter case, duplicate names, '
                 '0-3 hidden GROUP BY / ORDER BY / HAVING expressions; wildcard on every table kind; distinct = distinct query')
    cs = cases(tier, seed)
    for case, bad in zip(cs, pmap(check, cs, chunk=8)):
        res.case(repr(case), {'case': repr(case)[:200]})
        if bad:
            clause, cse, obs, exp = bad
            res.violation('h07:' + clause[:50] + ':' + cse['query'][:80], clause, cse, obs, exp)
    wildcard(res)
    lifecycle(res)
    return res.asdict()


def replay(case):
    if case.get('ledger') or case['query'].startswith('SELECT *'):
        r = Result()
        wildcard(r)
        hit = [v for v in r.violations if v['case'].get('query') == case['query']]
        return {'status': 'reproduced' if hit else 'not-reproduced', 'detail': hit[:1]}
    conn = make_conn(t=(COLS, ROWS))
    try:
        curs = conn.execute(case['query'])
        return {'status': 'reproduced', 'detail': {'names': [d.name for d in curs.description], 'rows': repr(curs.fetchall())[:300]}}
    except Exception as e:
        return {'status': 'reproduced', 'detail': f'{type(e).__name__}: {e}'}
