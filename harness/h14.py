"""C14 bounded native harness: BALANCES / JOURNAL / PRINT."""
import io
import re
import textwrap
import datetime

import beanquery
from beanquery import parser, compiler, query_execute
from beancount import loader
from beancount.core import data, inventory, position, convert, getters
from beancount.parser import printer
from beancount.core.compare import hash_entry

from harness.common import Result
from harness import ledger

TYPE_ORDER = ['Assets', 'Liabilities', 'Equity', 'Income', 'Expenses']
FN = {None: lambda p: p, 'units': lambda p: position.Position(p.units, None) if True else p, 'cost': None}


def apply_fn(f, inv):
    if f is None: return inv
    if f == 'units': return inv.reduce(convert.get_units)
    if f == 'cost': return inv.reduce(convert.get_cost)


FROM_PARTS = {'': ('', ''), ' year = 2020': ('year = 2020', ''), ' OPEN ON 2020-01-15 CLOSE ON 2020-02-10': ('', ' OPEN ON 2020-01-15 CLOSE ON 2020-02-10'), ' CLOSE': ('', ' CLOSE'),
              " account ~ 'Assets' OPEN ON 2020-01-05": ("account ~ 'Assets'", ' OPEN ON 2020-01-05'), ' OPEN ON 2021-01-04 CLOSE ON 2021-01-07 CLEAR': ('', ' OPEN ON 2021-01-04 CLOSE ON 2021-01-07 CLEAR'),
              " account ~ 'Expenses'": ("account ~ 'Expenses'", ''), ' number < -10 CLOSE ON 2020-02-10': ('number < -10', ' CLOSE ON 2020-02-10')}


def posts_of(conn, from_clause):
    """rows (entry-id-free) of the postings table under the FROM clause, via a plain SELECT on a connection of its own in which
    the filter expression of the clause is written as WHERE (a FROM expression filters rows like a WHERE condition, posting by posting)"""
    expr, quals = FROM_PARTS[from_clause]
    q = 'SELECT date, flag, payee, narration, account, position' + (f' FROM{quals}' if quals else '') + (f' WHERE {expr}' if expr else '')
    return conn.execute(q).fetchall()


def check_ledger(res, name, src):
    entries, _, options = ledger.load(src)
    conn = ledger.connect(src)
    froms = list(FROM_PARTS)
    wheres = [None, "account ~ 'Assets'", "currency = 'USD'", "number > 0"]
    wpred = {None: lambda r: True, "account ~ 'Assets'": lambda r: 'assets' in r[4].lower(), "currency = 'USD'": lambda r: r[5].units.currency == 'USD', "number > 0": lambda r: r[5].units.number > 0}
    for f in (None, 'units', 'cost'):
        for frm in froms:
            base = posts_of(ledger.connect(src), frm)       # the reference never shares a connection (and its tables) with the statement under test
            for w in wheres:
                # BALANCES
                stmt = 'BALANCES' + (f' AT {f}' if f else '') + (f' FROM{frm}' if frm else '') + (f' WHERE {w}' if w else '')
                res.case((name, stmt))
                try:
                    got = conn.execute(stmt).fetchall()
                except Exception as ex:
                    res.violation('h14:balances-crash:' + type(ex).__name__, 'BALANCES executes', {'ledger': name, 'statement': stmt}, f'{type(ex).__name__}: {ex}', 'rows')
                    continue
                tot = {}
                for r in base:
                    if wpred[w](r):
                        tot.setdefault(r[4], inventory.Inventory()).add_position(r[5])
                want = [(a, apply_fn(f, tot[a])) for a in sorted(tot, key=lambda a: (TYPE_ORDER.index(a.split(':')[0]), a))]
                if [tuple(g) for g in got] != want:
                    res.violation('h14:balances', 'BALANCES returns the per-account sum of [f of] position ordered by account type then name', {'ledger': name, 'statement': stmt}, got[:3], want[:3])
            # JOURNAL
            # (complete account names that are also the prefix of other accounts: the pattern is a regular expression search)
            for acct in (None, 'Assets', 'bank', 'Expenses:Food', 'Assets:Bank', 'Nosuch', 'A.*:C', '^Income'):
                stmt = 'JOURNAL' + (f" '{acct}'" if acct else '') + (f' AT {f}' if f else '') + (f' FROM{frm}' if frm else '')
                res.case((name, stmt))
                try:
                    got = conn.execute(stmt).fetchall()
                except Exception as ex:
                    res.violation('h14:journal-crash:' + type(ex).__name__, 'JOURNAL executes', {'ledger': name, 'statement': stmt}, f'{type(ex).__name__}: {ex}', 'rows')
                    continue
                run, want = inventory.Inventory(), []
                for r in base:
                    if acct is None or re.search(acct, r[4], re.IGNORECASE):
                        run.add_position(r[5])
                        pos = r[5]
                        if f == 'units': pos = convert.get_units(pos)
                        if f == 'cost': pos = convert.get_cost(pos)
                        want.append((r[0], r[1], textwrap.shorten(r[2], 48) if r[2] is not None else None, textwrap.shorten(r[3], 80) if r[3] is not None else None,
                                     r[4], pos, apply_fn(f, inventory.Inventory(run))))
                if [tuple(g) for g in got] != want:
                    bad = next(((a, b) for a, b in zip(got, want) if tuple(a) != b), (len(got), len(want)))
                    res.violation('h14:journal', 'JOURNAL returns the posting register of the postings whose account matches the regular expression', {'ledger': name, 'statement': stmt}, bad[0], bad[1])
    # account patterns with quotes
    for pat in ('a"b', "it's", 'x\\d'):
        q = "'" if "'" not in pat else '"'
        stmt = f'JOURNAL {q}{pat}{q}'
        res.case((name, stmt))
        try:
            got = conn.execute(stmt).fetchall()
            if got != []:
                res.violation('h14:journal-quote-rows', 'no account matches the pattern', {'ledger': name, 'statement': stmt}, got[:1], [])
        except Exception as ex:
            res.violation('h14:journal-pattern-quoting', 'JOURNAL accepts every account pattern the string literal can denote', {'ledger': name, 'statement': stmt}, f'{type(ex).__name__}: {ex}', '[]')
    # PRINT
    D = datetime.date
    for frm, kw in [('', {}), (' year = 2020', {}), (" type = 'transaction'", {}),
                    (' OPEN ON 2020-01-15 CLOSE ON 2020-02-10', dict(open=D(2020, 1, 15), close=D(2020, 2, 10))),
                    (' CLOSE ON 2020-02-01 CLEAR', dict(close=D(2020, 2, 1), clear=True)), (" flag = '!'", {}),
                    (' month = 2 OPEN ON 2020-01-03', dict(open=D(2020, 1, 3))), (' CLOSE', dict(close=True)), (' CLEAR', dict(clear=True)),
                    (' year = 2020 OPEN ON 2020-02-01 CLOSE ON 2020-03-01 CLEAR', dict(open=D(2020, 2, 1), close=D(2020, 3, 1), clear=True)),
                    (' CLOSE ON 2020-02-03 CLEAR', dict(close=D(2020, 2, 3), clear=True)), (' CLOSE ON 2020-01-21 CLEAR', dict(close=D(2020, 1, 21), clear=True)),
                    # has_account: every account a directive names (a pad names two), decided here with Beancount's own getter
                    (" has_account('Equity:Opening')", dict(_pred=lambda e: any(re.search('Equity:Opening', a) for a in getters.get_entry_accounts(e)))),
                    (" has_account('Bank')", dict(_pred=lambda e: any(re.search('Bank', a) for a in getters.get_entry_accounts(e)))),
                    (" has_account('Expenses:Food')", dict(_pred=lambda e: any(re.search('Expenses:Food', a) for a in getters.get_entry_accounts(e)))),
                    # filter expressions that are not booleans select by truth value, as WHERE does (a non-empty set / string, a non-zero number)
                    # (the tags / links columns are those of transactions: NULL for a tagged note or document, which the ledger has)
                    (' tags', dict(_pred=lambda e: isinstance(e, data.Transaction) and bool(e.tags))), (' links', dict(_pred=lambda e: isinstance(e, data.Transaction) and bool(e.links))),
                    (" 'food' IN tags", dict(_pred=lambda e: isinstance(e, data.Transaction) and 'food' in e.tags)),
                    (" 'link1' IN links", dict(_pred=lambda e: isinstance(e, data.Transaction) and 'link1' in e.links)),
                    (' payee', dict(_pred=lambda e: bool(getattr(e, 'payee', None)))), (' year', dict(_pred=lambda e: True)),
                    (" meta('ref')", dict(_pred=lambda e: bool((e.meta or {}).get('ref')))), (' narration', dict(_pred=lambda e: bool(getattr(e, 'narration', None)))),
                    (' tags OPEN ON 2020-01-03', dict(open=D(2020, 1, 3), _pred=lambda e: isinstance(e, data.Transaction) and bool(e.tags)))]:
        kw = dict(kw)
        pred = kw.pop('_pred', None)
        stmt = 'PRINT' + (f' FROM{frm}' if frm else '')
        res.case((name, stmt))
        try:
            c_print = compiler.compile(conn, parser.parse(stmt))
            out = io.StringIO()
            query_execute.execute_print(c_print, out)
        except Exception as ex:
            res.violation('h14:print-crash:' + type(ex).__name__, 'PRINT executes', {'ledger': name, 'statement': stmt}, f'{type(ex).__name__}: {ex}', 'text')
            continue
        # the directives satisfying the FROM expression after OPEN/CLOSE/CLEAR, in ledger order
        ids = [r[0] for r in conn.execute('SELECT id FROM #entries' if not frm else f'SELECT id FROM #entries WHERE id IN (SELECT id FROM #entries)').fetchall()] if False else None
        # reference: the connection's entries table with the qualifiers written in the statement (BeanTable.update / prepare
        # are under T1 contracts in C13), not the table object the compiled statement happens to carry
        table = conn.tables['entries'].update(**{'open': None, 'close': None, 'clear': None, **kw})
        if pred is not None:
            want_entries = [row.entry for row in table if pred(row.entry)]
        else:
            want_entries = [row.entry for row in table if c_print.where is None or c_print.where(row)]
        back, errors, _ = loader.load_string(out.getvalue())
        strip = lambda e: e._replace(meta={k: v for k, v in e.meta.items() if k not in ('filename', 'lineno') and not k.startswith('__')},
                                     **({'postings': [p._replace(meta={k: v for k, v in (p.meta or {}).items() if k not in ('filename', 'lineno') and not k.startswith('__')}) for p in e.postings]} if isinstance(e, data.Transaction) else {}))
        a = [hash_entry(strip(e), exclude_meta=True) for e in back if not isinstance(e, data.Open) or True]
        b = [hash_entry(strip(e), exclude_meta=True) for e in want_entries]
        if sorted(a) != sorted(b):
            res.violation('h14:print-lossless', 'PRINT emits exactly the selected directives in syntax that loads back to equal directives', {'ledger': name, 'statement': stmt}, (len(a), len(set(a) - set(b))), len(b))
        # ledger order
        dates_out = [e.date for e in back]
        if [e.date for e in want_entries] != sorted(e.date for e in want_entries) and False:
            pass
        # the first line of every printed directive (date, keyword or flag, first word) against the first lines of the expected
        # directives printed one by one: same directives in the same order, also among directives of one day
        head = lambda text: [tuple(l.split()[:3]) for l in text.splitlines() if re.match(r'\d{4}-\d{2}-\d{2} ', l)]
        got_heads = head(out.getvalue())
        want_heads = [head(printer.format_entry(e))[0] for e in want_entries]
        if got_heads != want_heads:
            k = next((i for i, (a_, b_) in enumerate(zip(got_heads, want_heads)) if a_ != b_), min(len(got_heads), len(want_heads)))
            res.violation('h14:print-order', 'PRINT emits the directives in ledger order', {'ledger': name, 'statement': stmt}, got_heads[max(0, k - 1):k + 3], want_heads[max(0, k - 1):k + 3])


def run(tier, seed):
    res = Result('ledgers A and B x summary functions {none, units, cost} x 6 FROM clauses x 4 WHERE conditions for BALANCES; x 7 account patterns for JOURNAL; '
                 'account patterns containing quotes; 7 PRINT filters re-loaded with the Beancount loader; distinct = (ledger, statement)')
    check_ledger(res, 'A', ledger.LEDGER_A)
    check_ledger(res, 'B', ledger.LEDGER_B)
    return res.asdict()


def replay(case):
    r = Result()
    check_ledger(r, case.get('ledger', 'A'), ledger.LEDGER_A if case.get('ledger', 'A') == 'A' else ledger.LEDGER_B)
    hit = [v for v in r.violations if v['case'].get('statement') == case.get('statement')]
    return {'status': 'reproduced' if hit else 'not-reproduced', 'detail': repr(hit[:1])[:600]}
