"""C06 bounded native harness: parsing inverts printing (spec printer written from the statement's
precedence table); the shipped parser is the TatSu translation of the published grammar."""
import datetime
import itertools
import os
import random
from decimal import Decimal

from beanquery import parser
from beanquery.parser import ast
from harness.common import Result, pmap

A = ast
LEVEL = {A.Or: 1, A.And: 2, A.Not: 3, A.Add: 5, A.Sub: 5, A.Mul: 6, A.Div: 6, A.Mod: 6, A.Neg: 7}
for c in (A.Equal, A.NotEqual, A.Greater, A.GreaterEq, A.Less, A.LessEq, A.Match, A.NotMatch, A.In, A.NotIn, A.IsNull, A.IsNotNull, A.Between):
    LEVEL[c] = 4
BINSYM = {A.Equal: '=', A.NotEqual: '!=', A.Greater: '>', A.GreaterEq: '>=', A.Less: '<', A.LessEq: '<=', A.Match: '~', A.NotMatch: '!~', A.In: 'IN', A.NotIn: 'NOT IN',
          A.Add: '+', A.Sub: '-', A.Mul: '*', A.Div: '/', A.Mod: '%'}


def level(n):
    return LEVEL.get(type(n), 8)


# block comments in every closing shape: stars before the closing slash, empty comments, slashes and stars inside, several lines
COMMENTS = [' /* c */ ', ' /* boxed **/ ', ' /***/ ', ' /**/ ', ' /** doc */ ', ' /* a * b / c */ ', ' /* two\n lines **/ ', ' /****/ ', ' /* x ***/ ']


class Printer:
    def __init__(self, rng=None, redundant=False, noise=False):
        self.rng, self.redundant, self.noise = rng, redundant, noise

    def kw(self, s):
        if self.rng is None:
            return s
        return ''.join(ch.upper() if self.rng.random() < 0.5 else ch.lower() for ch in s)

    def ident(self, s):
        return self.kw(s)

    def join(self, toks):
        if not self.noise:
            return ' '.join(toks)
        out = []
        for t in toks:
            out.append(t)
            r = self.rng.random()
            out.append(' ' if r < 0.6 else ('\n  ' if r < 0.72 else (self.rng.choice(COMMENTS) if r < 0.9 else '\t')))
        return ''.join(out).rstrip()

    def lit(self, v):
        if v is None: return self.kw('NULL')
        if v is True: return self.kw('TRUE')
        if v is False: return self.kw('FALSE')
        if isinstance(v, int): return str(v)
        if isinstance(v, Decimal):
            s = format(v, 'f')
            return s if '.' in s else s + '.'
        if isinstance(v, datetime.date): return v.isoformat()
        if isinstance(v, str): return ("'" + v + "'") if "'" not in v else ('"' + v + '"')
        if isinstance(v, list): return '(' + ', '.join(self.lit(x) for x in v) + (',' if len(v) == 1 else '') + ')'
        raise ValueError(v)

    def sub(self, n, need):
        """operand n in a slot that requires level >= need"""
        s = self.expr(n)
        if level(n) < need or (self.redundant and level(n) < 8 and need < 8):
            return '( ' + s + ' )'
        return s

    def expr(self, n):
        t = type(n)
        if t is A.Constant: return self.lit(n.value)
        if t is A.Column: return self.ident(n.name)
        if t is A.Placeholder: return '%s' if n.name == '' else f'%({n.name})s'
        if t is A.Asterisk: return '*'
        if t is A.Function: return self.join([self.ident(n.fname), '(', ' , '.join(self.expr(o) for o in n.operands), ')'])
        if t is A.Attribute: return self.expr(n.operand) + ' . ' + self.ident(n.name)
        if t is A.Subscript: return self.expr(n.operand) + " [ '" + n.key + "' ]"
        if t is A.Or: return self.join(list(itertools.chain.from_iterable((self.sub(a, 2), self.kw('OR')) for a in n.args))[:-1])
        if t is A.And: return self.join(list(itertools.chain.from_iterable((self.sub(a, 3), self.kw('AND')) for a in n.args))[:-1])
        if t is A.Not: return self.join([self.kw('NOT'), self.sub(n.operand, 3)])
        if t is A.Neg: return self.join(['-', self.sub(n.operand, 7)])
        if t is A.IsNull: return self.join([self.sub(n.operand, 5), self.kw('IS'), self.kw('NULL')])
        if t is A.IsNotNull: return self.join([self.sub(n.operand, 5), self.kw('IS'), self.kw('NOT'), self.kw('NULL')])
        if t is A.Between: return self.join([self.sub(n.operand, 5), self.kw('BETWEEN'), self.sub(n.lower, 5), self.kw('AND'), self.sub(n.upper, 5)])
        if t in (A.Add, A.Sub): return self.join([self.sub(n.left, 5), BINSYM[t], self.sub(n.right, 6)])
        if t in (A.Mul, A.Div, A.Mod): return self.join([self.sub(n.left, 6), BINSYM[t], self.sub(n.right, 7)])
        if t in BINSYM: return self.join([self.sub(n.left, 5)] + [self.kw(w) for w in BINSYM[t].split()] + [self.sub(n.right, 5)])
        if t is A.Select: return '( ' + self.stmt(n) + ' )'
        raise ValueError(t)

    def from_(self, f):
        if isinstance(f, A.Table): return '#' + f.name      # table names are case-sensitive tokens, not identifiers
        if isinstance(f, A.Select): return '( ' + self.stmt(f) + ' )'
        toks = []
        if f.expression is not None: toks.append(self.expr(f.expression))
        if f.open is not None: toks += [self.kw('OPEN'), self.kw('ON'), f.open.isoformat()]
        if f.close is not None: toks += [self.kw('CLOSE')] + ([self.kw('ON'), f.close.isoformat()] if f.close is not True else [])
        if f.clear: toks.append(self.kw('CLEAR'))
        return self.join(toks)

    def stmt(self, s):
        t = type(s)
        if t is A.Select:
            toks = [self.kw('SELECT')]
            if s.distinct: toks.append(self.kw('DISTINCT'))
            if isinstance(s.targets, A.Asterisk): toks.append('*')
            else:
                toks.append(' , '.join(self.expr(x.expression) + (f' {self.kw("AS")} {self.ident(x.name)}' if x.name else '') for x in s.targets))
            if s.from_clause is not None: toks += [self.kw('FROM'), self.from_(s.from_clause)]
            if s.where_clause is not None: toks += [self.kw('WHERE'), self.expr(s.where_clause)]
            if s.group_by is not None:
                toks += [self.kw('GROUP'), self.kw('BY'), ' , '.join(str(c) if isinstance(c, int) else self.expr(c) for c in s.group_by.columns)]
                if s.group_by.having is not None: toks += [self.kw('HAVING'), self.expr(s.group_by.having)]
            if s.order_by is not None:
                toks += [self.kw('ORDER'), self.kw('BY'), ' , '.join((str(o.column) if isinstance(o.column, int) else self.expr(o.column)) +
                         (' ' + self.kw('DESC') if o.ordering == A.Ordering.DESC else (' ' + self.kw('ASC') if self.rng and self.rng.random() < 0.5 else '')) for o in s.order_by)]
            if s.pivot_by is not None: toks += [self.kw('PIVOT'), self.kw('BY'), ' , '.join(str(c) if isinstance(c, int) else self.expr(c) for c in s.pivot_by.columns)]
            if s.limit is not None: toks += [self.kw('LIMIT'), str(s.limit)]
            return self.join(toks)
        if t is A.Balances:
            toks = [self.kw('BALANCES')]
            if s.summary_func: toks += [self.kw('AT'), self.ident(s.summary_func)]
            if s.from_clause is not None: toks += [self.kw('FROM'), self.from_(s.from_clause)]
            if s.where_clause is not None: toks += [self.kw('WHERE'), self.expr(s.where_clause)]
            return self.join(toks)
        if t is A.Journal:
            toks = [self.kw('JOURNAL')]
            if s.account: toks.append(self.lit(s.account))
            if s.summary_func: toks += [self.kw('AT'), self.ident(s.summary_func)]
            if s.from_clause is not None: toks += [self.kw('FROM'), self.from_(s.from_clause)]
            return self.join(toks)
        if t is A.Print:
            return self.join([self.kw('PRINT')] + ([self.kw('FROM'), self.from_(s.from_clause)] if s.from_clause is not None else []))
        raise ValueError(t)


C = A.Column
K = A.Constant
LEAVES = [C('a'), C('b_2'), K(1), K(Decimal('2.50')), K('s'), K(None), K(True), K(datetime.date(2024, 2, 29)), A.Function('f', [C('x')]), A.Function('g', []),
          A.Attribute(C('a'), 'u'), A.Subscript(C('m'), 'key'), K([1, 2]), A.Placeholder('')]


def one_level(x, y, z):
    out = [A.Or([x, y]), A.Or([x, y, z]), A.And([x, y]), A.And([x, y, z]), A.Not(x), A.Neg(x), A.IsNull(x), A.IsNotNull(x), A.Between(x, y, z)]
    for t in BINSYM:
        out.append(t(x, y))
    out += [A.Function('h', [x, y]), A.Function('count', [A.Asterisk()])]
    return out


def exprs(tier, rng):
    out = list(LEAVES)
    a, b, c = C('a'), C('b'), K(3)
    d1 = one_level(a, b, c)
    out += d1
    # depth 2: every parent x every child x every operand position (exhaustive)
    for parent in one_level(None, None, None):
        pt = type(parent)
        for child in d1:
            if pt in (A.Or, A.And):
                out += [pt([child, b]), pt([a, child]), pt([a, child, c])]
            elif pt in (A.Not, A.Neg, A.IsNull, A.IsNotNull):
                out.append(pt(child))
            elif pt is A.Between:
                out += [A.Between(child, b, c), A.Between(a, child, c), A.Between(a, b, child)]
            elif pt is A.Function:
                out += [A.Function('h', [child, b]), A.Function('h', [a, child])]
            else:
                out += [pt(child, b), pt(a, child)]
    # every pair nested once more (depth 3), sampled
    d2 = [e for e in out if e not in LEAVES and e not in d1]
    for _ in range(300 if tier == 'quick' else 5000):
        p = rng.choice(d1)
        ch = rng.choice(d2)
        pt = type(p)
        if pt in (A.Or, A.And): out.append(pt([ch, rng.choice(d1)]))
        elif pt in (A.Not, A.Neg, A.IsNull, A.IsNotNull): out.append(pt(ch))
        elif pt is A.Between: out.append(A.Between(rng.choice(LEAVES), ch, rng.choice(d1)))
        elif pt is A.Function: out.append(A.Function('h', [ch]))
        else: out.append(pt(rng.choice(d1), ch))
    # attribute / subscript chains
    out += [A.Attribute(A.Attribute(C('a'), 'b'), 'c'), A.Attribute(A.Function('f', [a]), 'x'), A.Subscript(A.Attribute(C('e'), 'meta'), 'k'), A.Attribute(A.Subscript(C('m'), 'k'), 'z'),
            A.Neg(A.Attribute(C('a'), 'b')), A.Neg(K(5)), A.Neg(A.Neg(a)), A.Not(A.Not(a))]
    # literals
    lits = [0, 7, 1234567890123456789012345, Decimal('0.5'), Decimal('10.'), Decimal('3.14159'),
            # more digits than the default decimal context keeps: a literal denotes exactly the number written
            Decimal('1.00000000000000000000000000001'), Decimal('123456789012345678901234567890.123456789'), Decimal('0.000000000000000000000000000000000001'),
            '', 'it is', 'say "hi"', "it's", 'a;b -- c /* d */', None, True, False,
            datetime.date(1, 1, 1), datetime.date(9999, 12, 31), [1, 2, 3], ['a', 'b'], [Decimal('1.5'), 2], [datetime.date(2024, 1, 1), None], [1]]
    out += [K(v) for v in lits]
    return out


def statements(tier, rng):
    T = lambda e, n=None: A.Target(e, n)
    a, b = C('a'), C('b')
    S = lambda targets=None, f=None, w=None, g=None, o=None, p=None, l=None, d=None: A.Select(targets or [T(a)], f, w, g, o, p, l, d)
    froms = [None, A.Table('t'), A.Table(''), A.Table('postings'), S(f=A.Table('t')), A.From(A.Equal(C('year'), K(2020)), None, None, None),
             A.From(None, datetime.date(2020, 1, 1), None, None), A.From(None, None, True, None), A.From(None, None, datetime.date(2021, 1, 1), None), A.From(None, None, None, True),
             A.From(None, datetime.date(2020, 1, 1), datetime.date(2021, 1, 1), True), A.From(None, datetime.date(2020, 1, 1), True, True), A.From(a, datetime.date(2020, 1, 1), True, None),
             A.From(A.And([a, b]), None, datetime.date(2021, 1, 1), True), A.From(a, None, None, True)]
    out = []
    for f in froms:
        out.append(S(f=f))
    wheres = [None, A.Greater(a, K(1))]
    groups = [None, A.GroupBy([a], None), A.GroupBy([1, A.Add(a, K(1))], A.Greater(A.Function('sum', [b]), K(0)))]
    orders = [None, [A.OrderBy(a, A.Ordering.ASC)], [A.OrderBy(1, A.Ordering.DESC), A.OrderBy(A.Function('f', [b]), A.Ordering.ASC)]]
    pivots = [None, A.PivotBy([1, 2]), A.PivotBy([a, b])]
    limits = [None, 0, 10]
    dist = [None, True]
    for w, g, o, p, l, d in itertools.product(wheres, groups, orders, pivots, limits, dist):
        out.append(S([T(a), T(A.Function('sum', [b]), 'total')], A.Table('t'), w, g, o, p, l, d))
    out.append(A.Select(A.Asterisk(), None, None, None, None, None, None, None))
    out.append(A.Select(A.Asterisk(), A.Table('t'), wheres[1], None, None, None, 5, True))
    for fn, f, w in itertools.product([None, 'units'], froms[5:], wheres):
        out.append(A.Balances(fn, f, w))
    for acct, fn, f in itertools.product([None, 'Assets:.*', "it's"], [None, 'cost'], [None] + froms[5:9]):
        out.append(A.Journal(acct, fn, f))
    for f in [None] + froms[5:]:
        out.append(A.Print(f))
    # IN subquery and nested selects
    out.append(S(w=A.In(a, S(f=A.Table('u')))))
    out.append(S(w=A.NotIn(a, S([T(b)], A.Table('u'), A.Less(b, K(3))))))
    return out


def check_expr(item):
    e, style = item
    rng = random.Random(style[1])
    pr = Printer(rng if style[0] != 'plain' else None, redundant=style[0] == 'redundant', noise=style[0] == 'noise')
    try:
        text = 'SELECT ' + pr.expr(e)
    except ValueError:
        return None
    try:
        got = parser.parse(text).targets[0].expression
    except Exception as ex:
        return ('printed expression parses', {'text': text[:300]}, f'{type(ex).__name__}', repr(e)[:200])
    if got != e:
        return ('parsing the printed text yields the same AST (precedence, associativity, literals)', {'text': text[:300]}, repr(got)[:300], repr(e)[:300])
    return None


def check_stmt(item):
    s, style = item
    rng = random.Random(style[1])
    pr = Printer(rng if style[0] != 'plain' else None, redundant=style[0] == 'redundant', noise=style[0] == 'noise')
    text = pr.stmt(s)
    try:
        got = parser.parse(text)
    except Exception as ex:
        return ('printed statement parses', {'text': text[:300]}, f'{type(ex).__name__}', repr(s)[:200])
    if got != s:
        return ('parsing the printed statement yields the same AST', {'text': text[:300]}, repr(got)[:300], repr(s)[:300])
    return None


NONASSOC = ['SELECT a = b = c', 'SELECT a < b < c', 'SELECT a IS NULL IS NULL', 'SELECT a BETWEEN 1 AND 2 BETWEEN 3 AND 4', 'SELECT a IN b IN c', 'SELECT a ~ b ~ c', 'SELECT a = b != c']


def grammar_identity(res):
    """the shipped parser.py is the TatSu translation of bql.ebnf"""
    import tatsu
    import beanquery.parser as P
    d = os.path.dirname(P.__file__)
    res.case('parser-regeneration')
    gen = tatsu.to_python_sourcecode(open(os.path.join(d, 'bql.ebnf')).read(), name='BQL')
    cur = open(os.path.join(d, 'parser.py')).read()
    if gen != cur:
        import difflib
        diff = list(difflib.unified_diff(cur.splitlines(), gen.splitlines(), 'parser.py', 'generated from bql.ebnf', lineterm='', n=0))
        res.violation('h06:parser-is-not-the-grammar', 'the shipped parser is the TatSu translation of the published grammar', {'files': ['parser/bql.ebnf', 'parser/parser.py']}, diff[:12], 'identical')


def run(tier, seed):
    res = Result('expression ASTs: every parent operator x child operator x operand position at depth 2 (exhaustive), sampled depth 3, attribute/subscript/call chains, every literal form with '
                 'boundary values; statements: every FROM form, all combinations of WHERE / GROUP BY+HAVING / ORDER BY / PIVOT BY / LIMIT / DISTINCT, BALANCES / JOURNAL / PRINT; each printed in '
                 'minimal-parentheses, redundant-parentheses, random-letter-case and whitespace/comment-noise styles; non-associative comparisons rejected; parser.py regenerated from bql.ebnf; '
                 'distinct = (AST, style)')
    rng = random.Random(seed)
    es = exprs(tier, rng)
    styles = [('plain', 0), ('redundant', 1), ('case', 2), ('noise', 3)]
    items = [(e, st) for e in es for st in styles]
    for (e, st), bad in zip(items, pmap(check_expr, items, chunk=64)):
        res.case((repr(e), st[0]), {'ast': repr(e)[:120], 'style': st[0]})
        if bad:
            if isinstance(e, A.Constant) and isinstance(e.value, list) and None in e.value[1:]:
                res.violation('h06:list-literal-with-null-element', bad[0], bad[1], bad[2], bad[3])
                continue
            res.violation('h06:expr:' + type(e).__name__ + ':' + st[0] + ':' + bad[1]['text'][:50], bad[0], bad[1], bad[2], bad[3])
    ss = statements(tier, rng)
    items = [(s, st) for s in ss for st in styles]
    for (s, st), bad in zip(items, pmap(check_stmt, items, chunk=32)):
        res.case((repr(s), st[0]), {'statement_ast': repr(s)[:120], 'style': st[0]})
        if bad:
            res.violation('h06:stmt:' + type(s).__name__ + ':' + st[0] + ':' + bad[1]['text'][:50], bad[0], bad[1], bad[2], bad[3])
    for t in NONASSOC:
        res.case(t)
        try:
            parser.parse(t)
            res.violation('h06:nonassoc:' + t, 'comparisons are non-associative', {'text': t}, 'accepted', 'ParseError')
        except parser.ParseError:
            pass
    # every comment shape on its own, in front of, inside and after a statement: the statement parses as without the comment
    base = parser.parse('SELECT a, b WHERE a > 1')
    for c in COMMENTS:
        for text in (f'{c}SELECT a, b WHERE a > 1', f'SELECT a,{c}b WHERE a > 1', f'SELECT a, b WHERE a > 1{c}', f'SELECT a, b{c}WHERE{c}a > 1'):
            res.case(('comment', text))
            try:
                got = parser.parse(text)
            except Exception as e:  # noqa
                got = f'{type(e).__name__}: {e}'
            if got != base:
                res.violation('h06:comment:' + c.strip()[:20], 'block comments are white space, whatever their closing looks like', {'text': text}, repr(got)[:200], repr(base)[:200])
    # operator sequences written without white space denote what the spaced, parenthesised spelling denotes (there is no `--` token)
    for tight, spaced in [('SELECT a--b', 'SELECT a - (- b)'), ('SELECT a -- b', 'SELECT a - (- b)'), ('SELECT a --b', 'SELECT a - (- b)'), ('SELECT --a', 'SELECT - (- a)'),
                          ('SELECT a*--b', 'SELECT a * (- (- b))'), ('SELECT 1--1 AS x FROM #t WHERE a--b > 7', 'SELECT 1 - (- 1) AS x FROM #t WHERE a - (- b) > 7'),
                          ('SELECT a-b', 'SELECT a - b'), ('SELECT a+-b', 'SELECT a + (- b)'), ('SELECT a<-1', 'SELECT a < (- 1)'), ('SELECT a>=-b*c', 'SELECT a >= ((- b) * c)'),
                          ('SELECT a!=-b', 'SELECT a != (- b)'), ('SELECT a/-b%-c', 'SELECT (a / (- b)) % (- c)')]:
        res.case(('tight', tight))
        try:
            got = parser.parse(tight)
        except Exception as e:  # noqa
            got = f'{type(e).__name__}: {e}'
        want = parser.parse(spaced)
        if got != want:
            res.violation('h06:tight-operators:' + tight, 'operator sequences without white space parse like their spaced spelling', {'text': tight}, repr(got)[:200], repr(want)[:200])
    # a date-shaped token that is no calendar date is an error, never a subtraction
    for text in ('SELECT 2014-02-30', 'SELECT 2023-02-29', 'SELECT 2024-13-01', 'SELECT 2024-00-10', 'SELECT a FROM #t WHERE d > 2024-04-31', 'SELECT 0000-01-01', 'SELECT 2024-01-32'):
        res.case(('invalid-date', text))
        try:
            got = repr(parser.parse(text))[:120]
        except parser.ParseError:
            continue
        except Exception as e:  # noqa
            got = f'{type(e).__name__}: {e}'
        res.violation('h06:invalid-date:' + text, 'a date literal that is not a calendar date is rejected with ParseError', {'text': text}, got, 'ParseError')
    # string literals are taken verbatim between their delimiters, whatever surrounds the statement (indentation of its lines, quote
    # characters of the other kind at the ends of the literal, line breaks inside it)
    from beanquery.parser import ast as A2
    for lit in ['a\n    b', '  lead', 'trail  ', '\n', ' \n \n x', '"say"', 'say"', "it's", '"', 'a\n\n  b\n ']:
        q = "'" if "'" not in lit else '"'
        if q in lit:
            continue
        for text in (f'SELECT {q}{lit}{q}', f'    SELECT {q}{lit}{q}\n    FROM #t\n', f'\tSELECT a\n\tWHERE b = {q}{lit}{q}'):
            res.case(('literal', text))
            try:
                got = [n.value for n in parser.parse(text).walk() if isinstance(n, A2.Constant)]
            except Exception as e:  # noqa
                got = f'{type(e).__name__}: {e}'
            if got != [lit]:
                res.violation('h06:string-literal:' + repr(lit), 'a string literal denotes exactly the characters between its delimiters', {'text': text}, got, [lit])
    # redundant parentheses around a FROM expression (and around parts of it) do not change the statement
    for plain, paren in [('SELECT a FROM year = 2014', 'SELECT a FROM (year = 2014)'), ('SELECT a FROM x AND y CLOSE', 'SELECT a FROM (x AND y) CLOSE'),
                         ('SELECT a FROM x OR y', 'SELECT a FROM (x) OR y'), ('SELECT a FROM x OPEN ON 2020-01-01', 'SELECT a FROM ((x)) OPEN ON 2020-01-01'),
                         ('SELECT a FROM (SELECT b FROM x)', 'SELECT a FROM (SELECT b FROM (x))'), ('BALANCES FROM year = 2014', 'BALANCES FROM (year = 2014)')]:
        res.case(('from-parens', paren))
        try:
            a1, a2 = parser.parse(plain), parser.parse(paren)
        except Exception as e:  # noqa
            res.violation('h06:from-parens:' + paren, 'redundant parentheses around a FROM expression parse', {'text': paren}, f'{type(e).__name__}: {e}', 'same AST as without')
            continue
        if a1 != a2:
            res.violation('h06:from-parens:' + paren, 'redundant parentheses do not change the AST', {'text': paren}, repr(a2)[:200], repr(a1)[:200])
    # parsing is a function of the text: what was done with an earlier parse of the same text (compiling it numbers its positional
    # placeholders in place) does not show in a later parse
    import copy
    from harness.common import make_conn
    for text, params in [('SELECT a, %s FROM #t WHERE a > %s', (1, 0)), ('SELECT %s + %s FROM #t', (1, 2)), ('SELECT a FROM #t WHERE a IN (SELECT a FROM #t WHERE a > %s) AND a < %s', (0, 9))]:
        res.case(('parse-after-execute', text))
        first = parser.parse(text)
        snapshot = copy.deepcopy(first)
        try:
            conn = make_conn(t=([('a', int)], [(1,), (2,)]))
            conn.execute(text, params).fetchall()
            conn.execute(first, params).fetchall()
        except Exception as e:  # noqa
            res.violation('h06:parse-after-execute:run', 'the statement executes', {'text': text}, f'{type(e).__name__}: {e}', 'rows')
            continue
        again = parser.parse(text)
        if again != snapshot:
            res.violation('h06:parse-after-execute', 'parsing a text yields the same AST whatever was done with an earlier parse of the same text', {'text': text}, repr(again)[:300], repr(snapshot)[:300])
    grammar_identity(res)
    return res.asdict()


def replay(case):
    if 'files' in case:
        r = Result()
        grammar_identity(r)
        return {'status': 'reproduced' if r.violations else 'not-reproduced', 'detail': repr(r.violations[:1])[:800]}
    try:
        got = parser.parse(case['text'])
        return {'status': 'reproduced', 'detail': repr(got)[:600]}
    except Exception as e:
        return {'status': 'reproduced', 'detail': f'{type(e).__name__}: {e}'}
