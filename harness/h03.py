"""C03 bounded native harness: ORDER BY / DISTINCT / LIMIT against the statement's definition
(successive stable sorts from the last key to the first, NULL first under ASC and last under DESC;
then projection, first-occurrence de-duplication, prefix)."""
import itertools
import random
from decimal import Decimal

from harness.common import make_conn, Result, pmap

COLS = [('a', int), ('b', str), ('c', Decimal), ('n', int)]
D = Decimal
ROWS = [
    (2, 'x', D('1.0'), 0), (1, None, D('2'), 1), (None, 'y', None, 2), (2, 'x', D('0.5'), 3), (1, 'z', D('2'), 4),
    (None, None, D('2'), 5), (3, 'x', None, 6), (2, 'y', D('1.0'), 7), (1, None, D('-1'), 8),
]
NAMES = [c for c, _ in COLS]
KEYEXPRS = {   # text -> python on row
    'a': lambda r: r[0], 'b': lambda r: r[1], 'c': lambda r: r[2], 'n': lambda r: r[3],
    'a + 1': lambda r: None if r[0] is None else r[0] + 1,
    'coalesce(a, 0)': lambda r: 0 if r[0] is None else r[0],
    'length(b)': lambda r: None if r[1] is None else len(r[1]),
    '-n': lambda r: -r[3],
}


def sort_spec(rows, keyfns_dirs):
    rows = list(rows)
    for fn, desc in reversed(keyfns_dirs):
        rows.sort(key=lambda r: (fn(r) is not None, fn(r) if fn(r) is not None else 0), reverse=desc)
    return rows


def expected(nrows, targets, order, distinct, limit):
    rows = ROWS[:nrows]
    srt = sort_spec(rows, [(KEYEXPRS[k], d) for k, d in order])
    proj = [tuple(KEYEXPRS[t](r) for t in targets) for r in srt]
    if distinct:
        seen, out = set(), []
        for p in proj:
            if p not in seen:
                seen.add(p)
                out.append(p)
        proj = out
    if limit is not None:
        proj = proj[:limit]
    return proj


def build(case):
    nrows, targets, order, style, distinct, limit = case
    tt = []
    # style 'shadow': every output is named after a table column that holds something else; an ORDER BY name then denotes
    # the selected output of that name, not the table column
    shadow = {t: [c for c in NAMES if c != t and c not in targets][j % 2] for j, t in enumerate(targets)} if style == 'shadow' else {}
    for j, t in enumerate(targets):
        tt.append(f'{t} AS t{j}' if style == 'name' else (f'{t} AS {shadow[t]}' if style == 'shadow' else t))
    keys = []
    for k, desc in order:
        if style == 'position' and k in targets:
            ks = str(targets.index(k) + 1)
        elif style == 'name' and k in targets:
            ks = f't{targets.index(k)}'
        elif style == 'shadow' and k in targets:
            ks = shadow[k]
        else:
            ks = k
        keys.append(ks + (' DESC' if desc else (' ASC' if desc is False and len(k) % 2 else '')))
    q = 'SELECT ' + ('DISTINCT ' if distinct else '') + ', '.join(tt) + ' FROM #t'
    if keys: q += ' ORDER BY ' + ', '.join(keys)
    if limit is not None: q += f' LIMIT {limit}'
    return q


def check(case):
    q = build(case)
    exp = expected(*[case[0], case[1], case[2], case[4], case[5]])
    try:
        conn = make_conn(t=(COLS, ROWS[:case[0]]))
        got = [tuple(r) for r in conn.execute(q).fetchall()]
    except Exception as e:
        return ('ordered query accepted and executed', {'query': q, 'nrows': case[0]}, f'{type(e).__name__}: {e}', exp)
    if got != exp:
        return ('sorted permutation (per-key direction, NULL first / last under DESC, stable), then DISTINCT, then LIMIT', {'query': q, 'nrows': case[0]}, got, exp)
    return None


def agg_cases():
    """ORDER BY on aggregate queries (aggregate and group keys, visible and hidden)"""
    out = []
    rows = ROWS
    groups = {}
    for r in rows:
        groups.setdefault(r[1], []).append(r)
    def agg(k):
        g = groups[k]
        return (k, len(g), sum(x[3] for x in g))
    base = [agg(k) for k in groups]
    for key, fn in (('count(*)', lambda t: t[1]), ('sum(n)', lambda t: t[2]), ('b', lambda t: t[0])):
        for desc in (False, True):
            for vis in (True, False):
                exp_rows = sort_spec(base, [(fn, desc)])
                if vis:
                    q = f'SELECT b, count(*), sum(n) FROM #t GROUP BY b ORDER BY {key}' + (' DESC' if desc else '')
                    exp = [tuple(t) for t in exp_rows]
                else:
                    q = f'SELECT b FROM #t GROUP BY b ORDER BY {key}' + (' DESC' if desc else '')
                    exp = [(t[0],) for t in exp_rows]
                out.append((q, exp))
    # DISTINCT on aggregate queries whose grouping has a key that is not selected: groups with equal visible rows collapse, then LIMIT
    def dedup(seq):
        seen, res_ = set(), []
        for x in seq:
            if x not in seen:
                seen.add(x)
                res_.append(x)
        return res_
    counts = [(len(groups[k]),) for k in groups]
    out.append(('SELECT DISTINCT count(*) FROM #t GROUP BY b', dedup(counts)))
    out.append(('SELECT DISTINCT count(*) FROM #t GROUP BY b LIMIT 1', dedup(counts)[:1]))
    g2 = {}
    for r in rows:
        g2.setdefault((r[0], r[1]), []).append(r)
    out.append(('SELECT DISTINCT a, count(*) FROM #t GROUP BY a, b', dedup([(k[0], len(v)) for k, v in g2.items()])))
    out.append(('SELECT DISTINCT count(n) FROM #t GROUP BY a, b ORDER BY 1 DESC', sorted(dedup([(len(v),) for v in g2.values()]), reverse=True)))
    return out


def cases(tier, seed):
    rng = random.Random(seed)
    out = []
    keynames = list(KEYEXPRS)
    # exhaustive: 1..2 keys x all directions x visible/hidden over a small target list
    for n in (0, 1, len(ROWS)):
        for targets in (['a', 'b', 'n'], ['n'], ['b', 'a']):
            for nk in (1, 2):
                for ks in itertools.permutations(['a', 'b', 'c', 'a + 1'], nk):
                    for dirs in itertools.product([False, True], repeat=nk):
                        for style in ('expr', 'position', 'name'):
                            out.append((n, targets, list(zip(ks, dirs)), style, False, None))
    for _ in range(200 if tier == 'quick' else 3000):
        targets = rng.sample(['a', 'b', 'c', 'n', 'a + 1', 'length(b)'], rng.randint(1, 3))
        nk = rng.randint(1, 4)
        order = [(rng.choice(keynames), rng.random() < 0.5) for _ in range(nk)]
        out.append((rng.choice([0, 1, 2, 5, len(ROWS)]), targets, order, rng.choice(['expr', 'position', 'name']),
                    rng.random() < 0.5, rng.choice([None, 0, 1, 3, 100])))
    # DISTINCT/LIMIT without ORDER BY: every cut position (duplicates before and after the cut)
    for targets in (['a'], ['b'], ['a', 'b'], ['c']):
        for lim in [None] + list(range(0, len(ROWS) + 2)) + [50]:
            out.append((len(ROWS), targets, [], 'expr', True, lim))
            out.append((len(ROWS), targets, [], 'expr', False, lim))
    # ORDER BY the name of an output that shadows a table column holding something else (the key is the output)
    for targets in (['-n', 'b'], ['a + 1'], ['c', 'a'], ['coalesce(a, 0)', 'length(b)']):
        ok = [t for t in targets]
        for nk in (1, 2):
            for ks in itertools.permutations(ok, min(nk, len(ok))):
                for dirs in itertools.product([False, True], repeat=len(ks)):
                    if len({[c for c in NAMES if c != t and c not in targets][j % 2] for j, t in enumerate(targets)}) == len(targets):
                        out.append((len(ROWS), targets, list(zip(ks, dirs)), 'shadow', False, None))
    return out


def run(tier, seed):
    res = Result('ORDER BY lists: exhaustive 1-2 keys x directions x key styles (expression/position/name, visible/hidden) on tables of 0, 1, 9 rows '
                 'with NULLs and ties; seeded random 1-4 keys with DISTINCT and LIMIT (0, 1, 3, > size); aggregate queries ordered by '
                 'aggregates / group keys; distinct = distinct query text x table size')
    cs = cases(tier, seed)
    for case, bad in zip(cs, pmap(check, cs, chunk=16)):
        res.case((build(case), case[0]), {'query': build(case), 'rows': case[0]})
        if bad:
            clause, cse, obs, exp = bad
            res.violation('h03:' + clause + ':' + cse['query'][:90], clause, cse, obs, exp)
    conn = make_conn(t=(COLS, ROWS))
    for q, exp in agg_cases():
        res.case(q, {'query': q})
        try:
            got = [tuple(r) for r in conn.execute(q).fetchall()]
        except Exception as e:
            got = f'{type(e).__name__}: {e}'
        if got != exp:
            res.violation('h03:agg-order:' + q[:80], 'ORDER BY on aggregate queries (aggregate / group keys, visible or hidden)', {'query': q, 'nrows': len(ROWS)}, got, exp)
    # an ordered subquery under an outer ORDER BY: the outer sort is stable, rows that tie on the outer keys keep the order the
    # subquery delivered them in (two sorts composed, inner first)
    for inner_keys, outer_keys in [([('c', True)], [('a', False)]), ([('n', True)], [('b', False)]), ([('b', False), ('n', True)], [('a', True)]),
                                   ([('n', True)], [('a', False), ('b', True)])]:
        ik = ', '.join(k + (' DESC' if d else '') for k, d in inner_keys)
        ok = ', '.join(k + (' DESC' if d else '') for k, d in outer_keys)
        q = f'SELECT a, b, n FROM (SELECT a, b, c, n FROM #t ORDER BY {ik}) ORDER BY {ok}'
        res.case(q, {'query': q})
        inner = sort_spec(ROWS, [(KEYEXPRS[k], d) for k, d in inner_keys])
        exp = [(r[0], r[1], r[3]) for r in sort_spec(inner, [(KEYEXPRS[k], d) for k, d in outer_keys])]
        try:
            got = [tuple(r) for r in conn.execute(q).fetchall()]
        except Exception as e:
            got = f'{type(e).__name__}: {e}'
        if got != exp:
            res.violation('h03:subquery-order:' + q[:90], 'sorting is stable: rows tying on the outer keys keep the order of the ordered subquery', {'query': q, 'nrows': len(ROWS)}, got, exp)
    special(res)
    attribute_keys(res)
    return res.asdict()


def attribute_keys(res):
    """a sort key that is an attribute of a structured value (price.number, weight.number, position.units.currency) is an expression
    of its own, also when its last component is the name of a selected output: the rows are ordered by the attribute value"""
    from harness import ledger
    lc = ledger.connect()
    nk = lambda v: (v is not None, v if v is not None else 0)
    for sel, key, desc in [('account, number', 'weight.number', False), ('account, number', 'weight.number', True), ('account, number', 'price.number', False),
                           ('account, currency', 'weight.currency', False), ('number, date', 'entry.date', True), ('account, number AS currency', 'position.units.currency', False)]:
        q = f'SELECT {sel} FROM #postings ORDER BY {key}' + (' DESC' if desc else '')
        res.case(q, {'query': q})
        try:
            got = [tuple(r) for r in lc.execute(q).fetchall()]
            ref = lc.execute(f'SELECT {sel}, {key} AS sortkey__ FROM #postings').fetchall()
        except Exception as e:
            res.violation('h03:attribute-key-crash:' + q[:70], 'ORDER BY on an attribute expression executes', {'query': q}, f'{type(e).__name__}: {e}', 'rows')
            continue
        kv = [r[-1] for r in ref]
        if any(v is None for v in kv):
            order = sorted(range(len(ref)), key=lambda i: (kv[i] is not None, kv[i] if kv[i] is not None else type(next(v for v in kv if v is not None))()), reverse=desc)
        else:
            order = sorted(range(len(ref)), key=lambda i: kv[i], reverse=desc)
        if desc:       # reverse=True keeps the original order of ties reversed twice: python's sort is stable under reverse as well
            pass
        exp = [tuple(ref[i][:-1]) for i in order]
        if got != exp:
            k = next((i for i, (a, b) in enumerate(zip(got, exp)) if a != b), None)
            res.violation('h03:attribute-key:' + q[:70], 'rows are ordered by the value of the attribute expression (stable, NULL first)', {'query': q}, got[k:k + 2] if k is not None else len(got), exp[k:k + 2] if k is not None else len(exp))


def special(res):
    """duplicate target names with positional keys; keys merged with existing targets on ledger-backed tables"""
    conn = make_conn(t=([('x', int)], [(3,), (1,), (2,)]))
    for q, exp in [('SELECT x, x FROM #t ORDER BY 2', [(1, 1), (2, 2), (3, 3)]),
                   ('SELECT x AS z, -x AS z FROM #t ORDER BY 2', [(3, -3), (2, -2), (1, -1)]),
                   ('SELECT x, x FROM #t ORDER BY 1 DESC, 2', [(3, 3), (2, 2), (1, 1)])]:
        res.case(q, {'query': q})
        try:
            got = [tuple(r) for r in conn.execute(q).fetchall()]
        except Exception as e:
            got = f'{type(e).__name__}: {e}'
        if got != exp:
            res.violation('h03:position-with-duplicate-names:' + q, 'a key may be an output position (1-based over the selected targets)', {'query': q, 'table': 'x=3,1,2'}, got, exp)
    from harness import ledger
    lc = ledger.connect()
    txns = [e for e in ledger.load(ledger.LEDGER_A)[0] if type(e).__name__ == 'Transaction']
    for sel, key in itertools.permutations(['payee', 'narration', 'flag', 'date'], 2):
        for desc in (False, True):
            q = f'SELECT {sel} FROM #transactions ORDER BY {key}' + (' DESC' if desc else '')
            res.case(q, {'query': q})
            exp = [(getattr(t, sel),) for t in sorted(txns, key=lambda t: (getattr(t, key) is not None, getattr(t, key) if getattr(t, key) is not None else type(getattr(txns[0], key))()), reverse=desc)]
            try:
                got = [tuple(r) for r in lc.execute(q).fetchall()]
            except Exception as e:
                got = f'{type(e).__name__}: {e}'
            if got != exp:
                res.violation('h03:hidden-key-on-ledger-table:' + q, 'a key may be any expression, selected or not (typed ledger tables)', {'query': q, 'ledger': 'A'}, got, exp)
    accts = lc.execute('SELECT account FROM #accounts ORDER BY account DESC').fetchall()
    res.case('accounts-desc')
    if [a[0] for a in accts] != sorted([a[0] for a in accts], reverse=True):
        res.violation('h03:accounts-order', 'ORDER BY on the accounts table', {'query': 'SELECT account FROM #accounts ORDER BY account DESC', 'ledger': 'A'}, accts, 'sorted desc')


def replay(case):
    if case.get('ledger') or case.get('table'):
        r = Result()
        special(r)
        hit = [v for v in r.violations if v['case'].get('query') == case.get('query')]
        return {'status': 'reproduced' if hit else 'not-reproduced', 'detail': hit[:1]}
    try:
        conn = make_conn(t=(COLS, ROWS[:case.get('nrows', len(ROWS))]))
        got = conn.execute(case['query']).fetchall()
        return {'status': 'reproduced', 'detail': {'query': case['query'], 'rows': repr(got)[:600]}}
    except Exception as e:
        return {'status': 'reproduced', 'detail': f'{type(e).__name__}: {e}'}
