"""C13 bounded native harness: OPEN / CLOSE / CLEAR present the ledger as a period report."""
import datetime
import re
import itertools
from decimal import Decimal

import beanquery
from beancount.core import data, inventory, position, convert
from beancount.core.compare import hash_entry

from harness.common import Result
from harness import ledger

date = datetime.date


def grid(entries):
    ds = sorted({e.date for e in entries})
    lo, hi = ds[0], ds[-1]
    picks = {lo - datetime.timedelta(days=10), lo, hi, hi + datetime.timedelta(days=10)}
    txd = sorted({e.date for e in entries if isinstance(e, data.Transaction)})
    for k in (1, len(txd) // 2, len(txd) - 2):
        if 0 <= k < len(txd):
            picks.add(txd[k])
            picks.add(txd[k] + datetime.timedelta(days=1))
    return sorted(picks)


def acct_totals(rows):
    tot = {}
    for acct, pos in rows:
        tot.setdefault(acct, inventory.Inventory()).add_position(pos)
    return {a: i for a, i in tot.items() if not i.is_empty()}


def root(a):
    return a.split(':')[0]


PRINT_COMBOS = set()


def check_ledger(res, name, src):
    entries, _, options = ledger.load(src)
    conn = ledger.connect(src)
    orig = {hash_entry(e): e for e in entries if isinstance(e, data.Transaction)}
    allposts = [(e, p) for e in entries if isinstance(e, data.Transaction) for p in e.postings]
    dates = grid(entries)
    end = max(e.date for e in entries) + datetime.timedelta(days=1)
    combos = []
    for d in [None] + dates:
        for e in [None, True] + dates:
            for clear in (False, True):
                if d is None and e is None and not clear:
                    continue
                combos.append((d, e, clear))
    for d, e, clear in combos:
        clause = ''
        if d is not None: clause += f' OPEN ON {d.isoformat()}'
        if e is True: clause += ' CLOSE'
        elif e is not None: clause += f' CLOSE ON {e.isoformat()}'
        if clear: clause += ' CLEAR'
        res.case((name, clause))
        q = f'SELECT id, date, account, position, weight FROM{clause}'
        try:
            rows = conn.execute(q).fetchall()
        except beanquery.CompilationError:
            if d is not None and isinstance(e, date) and d > e:
                continue
            res.violation(f'h13:rejected:{clause}', 'only a CLOSE date before the OPEN date is rejected', {'ledger': name, 'clause': clause}, 'CompilationError', 'rows')
            continue
        except Exception as ex:
            res.violation(f'h13:crash:{type(ex).__name__}', 'FROM qualifiers execute', {'ledger': name, 'clause': clause}, f'{type(ex).__name__}: {ex}', 'rows')
            continue
        if d is not None and isinstance(e, date) and d > e:
            res.violation('h13:close-before-open-accepted', 'a CLOSE date before the OPEN date is rejected at compile time', {'ledger': name, 'clause': clause}, 'accepted', 'CompilationError')
            continue
        lo = d or date.min
        hi = e if isinstance(e, date) else end
        # (a) original transactions: none outside [d, e); those inside unchanged and in order
        got_orig = [(r[0], r[2], r[3]) for r in rows if r[0] in orig]
        want_orig = [(hash_entry(t), p.account, position.Position(p.units, p.cost)) for t, p in allposts if lo <= t.date < hi]
        if got_orig != want_orig:
            outside = [r for r in rows if r[0] in orig and not (lo <= r[1] < hi)]
            res.violation('h13:original-transactions' + (':outside' if outside else ':inside'),
                          'no posting of an original transaction dated outside [d, e); those inside unchanged and in order', {'ledger': name, 'clause': clause},
                          (len(got_orig), outside[:2]), len(want_orig))
        # (b) Assets / Liabilities totals equal the balance as of e in the full ledger
        totals = acct_totals((r[2], r[3]) for r in rows)
        full = acct_totals((p.account, position.Position(p.units, p.cost)) for t, p in allposts if t.date < hi)
        for a in set(totals) | set(full):
            if root(a) in ('Assets', 'Liabilities'):
                if totals.get(a, inventory.Inventory()) != full.get(a, inventory.Inventory()):
                    res.violation('h13:balance-sheet-totals', 'every Assets and Liabilities account total over the returned rows equals its balance as of e in the full ledger',
                                  {'ledger': name, 'clause': clause, 'account': a}, totals.get(a), full.get(a))
                    break
        # (c) Income / Expenses carry only activity since d; zero with CLEAR
        act = acct_totals((p.account, position.Position(p.units, p.cost)) for t, p in allposts if lo <= t.date < hi)
        for a in set(totals) | set(act):
            if root(a) in ('Income', 'Expenses'):
                want = inventory.Inventory() if clear else act.get(a, inventory.Inventory())
                if totals.get(a, inventory.Inventory()) != want:
                    res.violation('h13:income-expenses' + (':clear' if clear else ''), 'Income and Expenses accounts carry only activity since d and total to zero with CLEAR',
                                  {'ledger': name, 'clause': clause, 'account': a}, totals.get(a), want)
                    break
        # (d) every returned transaction still balances
        per = {}
        for r in rows:
            per.setdefault(r[0], inventory.Inventory()).add_amount(r[4])
        for tid, inv in per.items():
            if any(abs(p.units.number) > Decimal('0.005') for p in inv):
                res.violation('h13:transaction-balances', 'every returned transaction still balances', {'ledger': name, 'clause': clause}, inv, 'empty')
                break
        # (d') with CLOSE the returned postings add up to zero (conversions are balanced by the equity entry CLOSE inserts)
        if e is not None:
            tot = inventory.Inventory()
            for r in rows:
                tot.add_amount(r[4])
            if any(abs(p.units.number) > Decimal('0.005') for p in tot):
                res.violation('h13:close-period-balances', 'after CLOSE the weights of the returned postings add up to zero (currency conversions carried by Equity)', {'ledger': name, 'clause': clause}, tot, 'empty')
        # (d'') a CLOSE date after the last directive presents the same postings as CLOSE without a date
        if isinstance(e, date) and e > max(x.date for x in entries):
            clause2 = clause.replace(f' CLOSE ON {e.isoformat()}', ' CLOSE')
            rows2 = conn.execute(f'SELECT id, date, account, position, weight FROM{clause2}').fetchall()
            if sorted((r[2], str(r[3])) for r in rows) != sorted((r[2], str(r[3])) for r in rows2):
                res.violation('h13:close-after-end', 'CLOSE ON a date after the ledger end equals CLOSE at the ledger end', {'ledger': name, 'clause': clause}, len(rows), len(rows2))
        # (f) PRINT presents the same period report: the transactions it prints are the transactions the SELECT sees
        if (d, e, clear) in PRINT_COMBOS or len(PRINT_COMBOS) < 6:
            PRINT_COMBOS.add((d, e, clear))
            try:
                import io as _io
                from beanquery import query_execute, compiler as _compiler, parser as _parser
                out = _io.StringIO()
                query_execute.execute_print(_compiler.compile(conn, _parser.parse(f'PRINT FROM{clause}')), out)
                printed = sorted(re.findall(r'^(\d{4}-\d{2}-\d{2}) [^a-z\s]\s', out.getvalue(), re.M))   # transactions print their flag (*, !, S for summarisation entries), other directives a lower-case keyword
                ids = []
                for r in rows:
                    if r[0] not in ids:
                        ids.append(r[0])
                seen = sorted(next(x[1] for x in rows if x[0] == i).isoformat() for i in ids)
                if printed != seen:
                    res.violation('h13:print-period', 'PRINT FROM <qualifiers> prints the transactions of the same period report as SELECT FROM <qualifiers>',
                                  {'ledger': name, 'clause': clause}, (len(printed), printed[:3]), (len(seen), seen[:3]))
            except Exception as ex:
                res.violation(f'h13:print-crash:{type(ex).__name__}', 'PRINT FROM <qualifiers> executes', {'ledger': name, 'clause': clause}, f'{type(ex).__name__}: {ex}', 'text')
        # (g) BALANCES and JOURNAL are the same period report as the SELECT under the same qualifiers (every qualifier reaches them)
        try:
            bal = {r[0]: r[1] for r in conn.execute(f'BALANCES FROM{clause}').fetchall()}
            bal = {a: i for a, i in bal.items() if i is not None and not i.is_empty()}
            if bal != totals:
                a = next((x for x in sorted(set(bal) | set(totals)) if bal.get(x) != totals.get(x)), None)
                res.violation('h13:balances-period', 'BALANCES FROM <qualifiers> totals the postings of the same period report as SELECT FROM <qualifiers>',
                              {'ledger': name, 'clause': clause, 'account': a}, bal.get(a), totals.get(a))
            jr = [(r[0], r[4], r[5]) for r in conn.execute(f'JOURNAL FROM{clause}').fetchall()]
            if jr != [(r[1], r[2], r[3]) for r in rows]:
                res.violation('h13:journal-period', 'JOURNAL FROM <qualifiers> lists the postings of the same period report as SELECT FROM <qualifiers>',
                              {'ledger': name, 'clause': clause}, len(jr), len(rows))
        except Exception as ex:
            res.violation(f'h13:statement-crash:{type(ex).__name__}', 'BALANCES / JOURNAL FROM <qualifiers> execute', {'ledger': name, 'clause': clause}, f'{type(ex).__name__}: {ex}', 'rows')
        # (e) clauses apply independently of the filter expression
        for expr, fn in (("year = 2020", lambda r: r[1].year == 2020), ("account ~ 'Assets'", lambda r: 'Assets' in r[2])):
            q2 = f'SELECT id, date, account, position, weight FROM {expr}{clause}'
            got = conn.execute(q2).fetchall()
            want = [r for r in rows if fn(r)]
            if got != want:
                res.violation('h13:filter-independent', 'the clauses apply in the fixed order OPEN, CLOSE, CLEAR independently of the filter expression', {'ledger': name, 'clause': clause, 'expr': expr}, len(got), len(want))
                break
    # the connection's table is never mutated by a FROM clause
    res.case((name, 'no-mutation'))
    a = conn.execute('SELECT count(*) FROM #postings').fetchall()
    if a[0][0] != len(allposts):
        res.violation('h13:table-mutated', 'FROM qualifiers never change the connection table', {'ledger': name}, a, len(allposts))


def run(tier, seed):
    res = Result('ledgers A and B x every subset of OPEN / CLOSE (dated and undated) / CLEAR x a date grid (before / inside / after the ledger span, equal to entry dates, '
                 'day after) x {no filter, two filter expressions}; checks: original transactions inside [d, e) unchanged and in order, none outside; balance-sheet totals; '
                 'income/expenses activity / zero with CLEAR; every transaction balances; filter independence; date order rejection; distinct = (ledger, clause)')
    check_ledger(res, 'A', ledger.LEDGER_A)
    check_ledger(res, 'B', ledger.LEDGER_B)
    return res.asdict()


def replay(case):
    r = Result()
    check_ledger(r, case.get('ledger', 'A'), ledger.LEDGER_A if case.get('ledger', 'A') == 'A' else ledger.LEDGER_B)
    hit = [v for v in r.violations if v['case'].get('clause') == case.get('clause')]
    return {'status': 'reproduced' if hit else 'not-reproduced', 'detail': repr(hit[:1])[:600]}
