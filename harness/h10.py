"""C10 native history harness: the cursor contract (ghost result/delivered model) evaluated on
the real Cursor over enumerated and random call histories.  Bounded cross-check + replay vehicle."""
import itertools
import random

from harness.common import make_conn, Result, parsed, pmap

OPS = [('fetchone',), ('fetchmany', None), ('fetchmany', 0), ('fetchmany', 1), ('fetchmany', 2), ('fetchmany', 5),
       ('fetchall',), ('iter',), ('execute', 0), ('execute', 1), ('execute', 3), ('arraysize', 2), ('othercursor',), ('execute_other', 2)]


def run_history(size, history, res=None):
    """returns None or (clause, observed, expected)"""
    conn = make_conn(t=([('x', int)], [(i,) for i in range(10)]))
    curs = conn.cursor()
    if curs.description is not None: return ('description None before execute', curs.description, None)
    if curs.rowcount != -1: return ('rowcount -1 before execute', curs.rowcount, -1)
    if curs.fetchone() is not None or curs.fetchmany() != [] or curs.fetchall() != []:
        return ('fetch before execute is empty', 'non-empty', 'empty')
    cols = [('x', 'y')]      # model: names of the result columns of the last execute
    asz = [1]                # model: the arraysize the user last set (DB-API default 1); execute never changes it

    def execute(n, other=False):
        if other:
            curs.execute(parsed(f'SELECT x + 2 AS z FROM #t LIMIT {n}'))
            cols[0] = ('z',)
            return [(i + 2,) for i in range(n)]
        curs.execute(parsed(f'SELECT x, x + 1 AS y FROM #t LIMIT {n}'))
        cols[0] = ('x', 'y')
        return [(i, i + 1) for i in range(n)]
    result = execute(size)
    delivered = 0
    for op in history:
        remaining = result[delivered:]
        if op[0] == 'fetchone':
            r = curs.fetchone()
            exp = remaining[0] if remaining else None
            if r != exp: return ('fetchone delivers next row / None iff exhausted', r, exp)
            delivered += 1 if remaining else 0
        elif op[0] == 'fetchmany':
            n = op[1]
            r = curs.fetchmany(n) if n is not None else curs.fetchmany()
            k = n if n is not None else asz[0]
            exp = remaining[:k]
            if r != exp: return ('fetchmany delivers next min(n, remaining) rows', r, exp)
            delivered += len(exp)
        elif op[0] == 'fetchall':
            r = curs.fetchall()
            if r != remaining: return ('fetchall delivers all remaining rows', r, remaining)
            delivered += len(remaining)
        elif op[0] == 'iter':
            r = list(iter(curs))
            if r != remaining: return ('iteration yields the remaining rows in order', r, remaining)
        elif op[0] == 'execute':
            result = execute(op[1])
            delivered = 0
        elif op[0] == 'execute_other':
            result = execute(op[1], other=True)
            delivered = 0
        elif op[0] == 'arraysize':
            curs.arraysize = op[1]
            asz[0] = op[1]
        elif op[0] == 'othercursor':
            other = conn.cursor()
            other.execute(parsed('SELECT x FROM #t LIMIT 2'))
            other.fetchone()
        if curs.rownumber != delivered: return ('rownumber == rows fetched so far', curs.rownumber, delivered)
        if curs.rowcount != len(result): return ('rowcount == rows produced by last execute', curs.rowcount, len(result))
        if curs.arraysize != asz[0]: return ('arraysize is what the user set (default 1), whatever was executed since', curs.arraysize, asz[0])
        d = curs.description
        if d is None or len(d) != len(cols[0]): return ('description has one entry per column of the last executed statement', d, cols[0])
        for col, name in zip(d, cols[0]):
            seven = (name, col.type_code, None, None, None, None, None)
            if len(col) != 7 or tuple(col) != seven or col[0] != name or col[-7] != name or col[2:] != seven[2:] or col[:2] != seven[:2]:
                return ('description entries are 7-item sequences', tuple(col), seven)
            if not (col == d[d.index(col)]) or list(col) != list(seven):
                return ('column equality/iteration', list(col), list(seven))
    return None


def coexisting_results(res):
    """every Connection.execute returns a result of its own: executing another statement on the connection leaves the rows,
    description, rowcount and position of an earlier result alone"""
    conn = make_conn(t=([('x', int)], [(i,) for i in range(10)]))
    res.case('coexisting-results')
    a = conn.execute(parsed('SELECT x, x + 1 AS y FROM #t LIMIT 4'))
    first = a.fetchone()
    b = conn.execute(parsed('SELECT x + 2 AS z FROM #t LIMIT 2'))
    c = conn.cursor()
    c.execute(parsed('SELECT x FROM #t LIMIT 1'))
    obs = (first, [d.name for d in a.description], a.rowcount, a.rownumber, a.fetchall(), [d.name for d in b.description], b.fetchall(), b.rowcount)
    exp = ((0, 1), ['x', 'y'], 4, 1, [(1, 2), (2, 3), (3, 4)], ['z'], [(2,), (3,)], 2)
    if obs != exp or a is b:
        res.violation('h10:coexisting-results', 'results obtained from Connection.execute are independent cursors', {'statements': 3}, obs, exp)


def description_protocol(res):
    """the description is a sequence of 7-item sequences for every statement kind (plain, aggregate, wildcard, subquery, PIVOT BY,
    BALANCES / JOURNAL on a ledger): it has a length, can be indexed and sliced, and can be read any number of times"""
    conn = make_conn(t=([('x', int), ('k', str), ('y', int)], [(i, 'ab'[i % 2], i % 3) for i in range(6)]))
    stmts = [(conn, 'SELECT x, x + 1 AS y FROM #t'), (conn, 'SELECT k, count(*) AS n FROM #t GROUP BY k'), (conn, 'SELECT * FROM #t'), (conn, 'SELECT * FROM (SELECT x, k FROM #t)'),
             (conn, 'SELECT k, y, sum(x) AS s FROM #t GROUP BY k, y PIVOT BY k, y'), (conn, 'SELECT k, y, sum(x), count(*) FROM #t GROUP BY 1, 2 PIVOT BY 1, 2'), (conn, 'SELECT x FROM #t WHERE x > 100')]
    try:
        from harness import ledger
        lc = ledger.connect()
        stmts += [(lc, 'BALANCES'), (lc, "JOURNAL 'Assets'"), (lc, 'SELECT account, year, sum(number) GROUP BY 1, 2 PIVOT BY 1, 2')]
    except Exception:
        pass
    for c, q in stmts:
        res.case(('description-protocol', q))
        try:
            cur = c.execute(q)
            d = cur.description
            rows = cur.fetchall()
            n = len(d)
            once, twice = [tuple(x) for x in d], [tuple(x) for x in d]
            ok = n > 0 and once == twice and len(once) == n and all(len(x) == 7 for x in once) and tuple(d[0]) == once[0] and tuple(d[n - 1]) == once[-1] \
                and [tuple(x) for x in d[:1]] == once[:1] and all(len(r) == n for r in rows) and all(isinstance(x[0], str) for x in once)
            obs = (n, once[:2], twice[:2])
        except Exception as e:  # noqa
            ok, obs = False, f'{type(e).__name__}: {e}'
        if not ok:
            res.violation('h10:description-protocol:' + q[:50], 'description is a sequence of 7-item sequences, one per result column, readable any number of times', {'query': q}, obs, 'a sequence')


def _one(item):
    size, hist = item
    try:
        return run_history(size, hist)
    except Exception as e:  # noqa
        return ('no exception in fetch protocol', f'{type(e).__name__}: {e}', None)


def run(tier, seed):
    res = Result('histories: exhaustive over result sizes 0..3 x all op sequences up to the length bound, plus seeded random longer '
                 'histories; distinct = distinct (size, history)')
    maxlen = 3 if tier == 'quick' else 4
    items = []
    for size in range(4):
        for n in range(maxlen + 1):
            for hist in itertools.product(OPS, repeat=n):
                items.append((size, hist))
    res.exhaustive = True
    res.scopes = {'result_sizes': '0..3', 'history_length': f'0..{maxlen}', 'ops': len(OPS)}
    rng = random.Random(seed)
    for _ in range(300 if tier == 'quick' else 3000):
        hist = tuple(rng.choice(OPS) for _ in range(rng.randint(4, 12)))
        items.append((rng.randint(0, 6), hist))
    coexisting_results(res)
    description_protocol(res)
    for (size, hist), bad in zip(items, pmap(_one, items)):
        res.case((size, hist), {'result_size': size, 'history': [list(map(str, h)) for h in hist]})
        if bad:
            clause, obs, exp = bad
            res.violation('h10:' + clause, clause, {'size': size, 'history': [list(h) for h in hist]}, obs, exp)
    return res.asdict()


def replay(case):
    try:
        bad = run_history(case['size'], [tuple(h) for h in case['history']])
    except Exception as e:  # noqa
        bad = ('no exception in fetch protocol', f'{type(e).__name__}: {e}', None)
    if bad:
        return {'status': 'reproduced', 'detail': {'clause': bad[0], 'observed': repr(bad[1])[:300], 'expected': repr(bad[2])[:300]}}
    return {'status': 'not-reproduced', 'detail': 'history passes'}
