"""C20 bounded native harness: deterministic two- and three-thread schedules of query executions on one shared
connection (and on separate connections), compared with serial execution.  A BQL function `tick(x)` registered by
the harness hands control to the scheduler at every evaluation, so interleavings happen at sub-expression and row
granularity.  Bounded stand-in: the ownership obligations in contracts/c20.py are the deciding (sufficient) condition."""
import itertools
import random
import threading

import beanquery
from beanquery import query_compile as qc, query_env
from harness.common import Result, pmap
from harness import ledger


class Scheduler:
    """runs registered threads one at a time; a thread yields at every tick()"""

    def __init__(self, schedule):
        self.schedule = list(schedule)
        self.cv = threading.Condition()
        self.current = None
        self.alive = set()
        self.pos = 0

    def pick(self):
        while self.alive:
            if self.pos < len(self.schedule):
                k = self.schedule[self.pos]
                self.pos += 1
            else:
                k = min(self.alive)
            if k in self.alive:
                return k
            k2 = min(self.alive)
            return k2
        return None

    def start(self, k):
        with self.cv:
            self.alive.add(k)

    def wait_turn(self, k):
        with self.cv:
            while self.current != k:
                self.cv.wait(timeout=10)
                if self.current is None:
                    self.current = self.pick()
                    self.cv.notify_all()

    def yield_(self, k):
        with self.cv:
            self.current = self.pick()
            self.cv.notify_all()
            while self.current != k:
                self.cv.wait(timeout=10)

    def done(self, k):
        with self.cv:
            self.alive.discard(k)
            self.current = self.pick()
            self.cv.notify_all()


_local = threading.local()
_want = {}
_sched = [None]


def _install_tick():
    if 'tick' in qc.FUNCTIONS:
        return
    import datetime
    from decimal import Decimal
    from beancount.core import position, amount, inventory

    def body(row, x):
        s = _sched[0]
        k = getattr(_local, 'k', None)
        if s is not None and k is not None:
            s.yield_(k)
        return x
    for t in (str, Decimal, int, datetime.date, position.Position, amount.Amount, inventory.Inventory, bool):
        query_env.function([t], t, pass_row=True, name='tick')(body)
    query_env.function([beanquery.types.Any], object, pass_row=True, name='tick')(body)

    # ctick(x): a pure function, hence folded while the statement is being compiled: a scheduling point inside compilation
    def cbody(x):
        return body(None, x)
    for t in (str, int):
        query_env.function([t], t, name='ctick')(cbody)


QUERIES = [
    ("SELECT tick(account), balance, tick(number), balance WHERE account ~ 'Assets'", None),
    ("SELECT account, sum(tick(position)), count(*) GROUP BY account ORDER BY account", None),
    ("SELECT tick(date), account WHERE tick(account) IN (SELECT account FROM #postings WHERE tick(number) > 0 AND NOT empty(balance))", None),
    ("SELECT tick(narration), %s, number WHERE number > %s ORDER BY tick(number)", ('p', 10)),
    ("SELECT tick(account), balance, balance FROM OPEN ON 2020-01-15 CLOSE ON 2020-02-10", None),
    ("SELECT tick(payee), first(tick(date)), last(balance) GROUP BY 1 ORDER BY 1", None),
    # scheduling points in the output phase of an aggregate query (between finalize and the read of the aggregate values)
    ("SELECT account, tick(count(*)), sum(number), tick(first(date)) GROUP BY account ORDER BY account", None),
    # scheduling points inside compilation, before and after the placeholders are bound; same text, different parameters
    ("SELECT ctick('a'), account, number WHERE number > %(min)s AND ctick('b') = 'b' AND number < %(max)s ORDER BY number", {'min': 10, 'max': 100000}),
    ("SELECT ctick('a'), account, number WHERE number > %(min)s AND ctick('b') = 'b' AND number < %(max)s ORDER BY number", {'min': 100, 'max': 1000}),
    # results that depend on how exact ties are rounded: whatever governs that must not be per-thread ambient state (the serial
    # reference runs in the importing thread, the concurrent executions in worker threads)
    ("SELECT tick(account), round(number / 8, 1), round(2.5), round(0.125, 2), round(number / 4) WHERE number > 0", None),
]


def serial(conn_factory, qs):
    out = []
    for q, p in qs:
        out.append(conn_factory().execute(q, p).fetchall())
    return out


def run_schedule(qidx, schedule, shared, src=ledger.LEDGER_A):
    _install_tick()
    qs = [QUERIES[i] for i in qidx]
    key = (tuple(qidx), src)
    if key not in _want:
        _want[key] = serial(lambda: ledger.connect(src), qs)
    want = _want[key]
    conn = ledger.connect(src)
    conns = [conn if shared else ledger.connect(src) for _ in qs]
    sched = Scheduler(schedule)
    _sched[0] = sched
    results = [None] * len(qs)
    errors = [None] * len(qs)

    def worker(k):
        _local.k = k
        sched.wait_turn(k)
        try:
            q, p = qs[k]
            results[k] = conns[k].execute(q, p).fetchall()
        except Exception as e:  # noqa
            errors[k] = f'{type(e).__name__}: {e}'
        finally:
            sched.done(k)

    threads = [threading.Thread(target=worker, args=(k,)) for k in range(len(qs))]
    for k in range(len(qs)):
        sched.start(k)
    for t in threads:
        t.start()
    with sched.cv:
        sched.current = sched.pick()
        sched.cv.notify_all()
    for t in threads:
        t.join(timeout=60)
    _sched[0] = None
    for k in range(len(qs)):
        if errors[k] or results[k] != want[k]:
            return (k, errors[k] or 'different result', want[k][:2] if want[k] else None, (results[k] or [])[:2])
    return None


def _job(job):
    qidx, si, sc, shared = job
    try:
        return run_schedule(qidx, sc, shared)
    except Exception as e:
        return (-1, f'harness {type(e).__name__}: {e}', None, None)


def run(tier, seed):
    res = Result('pairs and triples of queries (running balance referenced twice per row, aggregates, IN-subquery consulting the balance, parameters, OPEN/CLOSE, DISTINCT) on one '
                 'shared connection and on separate connections; schedules: round-robin at every tick, long runs of one thread, seeded random switch sequences; each interleaved '
                 'run compared with serial execution on fresh connections; distinct = (queries, schedule, shared)')
    rng = random.Random(seed)
    n = len(QUERIES)
    combos = list(itertools.combinations_with_replacement(range(n), 2)) + [(0, 2, 4), (1, 3, 5), (0, 0, 0), (2, 2, 1), (6, 6, 1), (7, 8, 7)]
    nrand = 2 if tier == 'quick' else 40
    if tier == 'quick':
        combos = [c for i, c in enumerate(combos) if i % 2 == 0 or len(c) == 3 or c in ((6, 6), (7, 8), (1, 6), (3, 7), (9, 9), (0, 9))]
    jobs = []
    for qidx in combos:
        k = len(qidx)
        schedules = [[i % k for i in range(4000)], [0] * 7 + [1] * 5 + [i % k for i in range(4000)], [(i // 3) % k for i in range(4000)]]
        for _ in range(nrand):
            schedules.append([rng.randrange(k) for _ in range(4000)])
        for si, sc in enumerate(schedules):
            for shared in (True, False):
                jobs.append((qidx, si, sc, shared))
    # every job runs its threads under the deterministic scheduler inside one worker process (jobs are independent)
    for (qidx, si, sc, shared), bad in zip(jobs, pmap(_job, jobs, jobs=8, chunk=4, force=True)):
        res.case((qidx, si if si < 3 else tuple(sc[:40]), shared), {'queries': [QUERIES[i][0][:60] for i in qidx], 'schedule': si, 'shared_connection': shared})
        if bad:
            res.violation('h20:interleaving:' + QUERIES[qidx[bad[0]]][0][:50] if bad[0] >= 0 else 'h20:harness',
                          'queries executed concurrently return the same results as when executed one after another',
                          {'queries': list(qidx), 'schedule': sc[:60], 'shared': shared}, bad[3] if bad[3] is not None else bad[1], bad[2])
    res.case('threadsafety')
    if beanquery.threadsafety != 2:
        res.violation('h20:threadsafety', 'the module advertises DB-API thread safety level 2', {}, beanquery.threadsafety, 2)
    return res.asdict()


def replay(case):
    if 'queries' not in case:
        return {'status': 'reproduced' if beanquery.threadsafety != 2 else 'not-reproduced', 'detail': beanquery.threadsafety}
    sc = list(case['schedule']) + [i % len(case['queries']) for i in range(4000)]
    bad = run_schedule(tuple(case['queries']), sc, case.get('shared', True))
    return {'status': 'reproduced' if bad else 'not-reproduced', 'detail': repr(bad)[:600]}
