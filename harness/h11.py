"""C11 bounded native harness: ledger tables against a direct traversal of the Beancount directives."""
import datetime
import beanquery
from decimal import Decimal

from beancount.core import data, position, convert, getters
from beancount.core.compare import hash_entry

from harness.common import Result
from harness import ledger

POSTING_COLS = {
    'id': lambda e, p: hash_entry(e), 'type': lambda e, p: type(e).__name__.lower(),
    'filename': lambda e, p: p.meta['filename'] if p.meta is not None else None,
    'lineno': lambda e, p: p.meta['lineno'] if p.meta is not None else None,
    'location': lambda e, p: f"{p.meta['filename']}:{p.meta['lineno']}:" if p.meta is not None else None,
    'date': lambda e, p: e.date, 'year': lambda e, p: e.date.year, 'month': lambda e, p: e.date.month, 'day': lambda e, p: e.date.day,
    'flag': lambda e, p: e.flag, 'payee': lambda e, p: e.payee, 'narration': lambda e, p: e.narration,
    'description': lambda e, p: ' | '.join(x for x in (e.payee, e.narration) if x),
    'tags': lambda e, p: e.tags, 'links': lambda e, p: e.links, 'meta': lambda e, p: p.meta, 'posting_flag': lambda e, p: p.flag,
    'account': lambda e, p: p.account, 'other_accounts': lambda e, p: sorted({q.account for q in e.postings if q is not p}),
    'number': lambda e, p: p.units.number, 'currency': lambda e, p: p.units.currency,
    'cost_number': lambda e, p: p.cost.number if p.cost else None, 'cost_currency': lambda e, p: p.cost.currency if p.cost else None,
    'cost_date': lambda e, p: p.cost.date if p.cost else None, 'cost_label': lambda e, p: p.cost.label if p.cost else None,
    'position': lambda e, p: position.Position(p.units, p.cost), 'price': lambda e, p: p.price, 'weight': lambda e, p: convert.get_weight(p),
    'entry': lambda e, p: e,
}
ENTRY_COLS = {
    'id': lambda e: hash_entry(e), 'type': lambda e: type(e).__name__.lower(), 'filename': lambda e: e.meta['filename'], 'lineno': lambda e: e.meta['lineno'],
    'date': lambda e: e.date, 'year': lambda e: e.date.year, 'month': lambda e: e.date.month, 'day': lambda e: e.date.day,
    'flag': lambda e: e.flag if isinstance(e, data.Transaction) else None, 'payee': lambda e: e.payee if isinstance(e, data.Transaction) else None,
    'narration': lambda e: e.narration if isinstance(e, data.Transaction) else None,
    'description': lambda e: ' | '.join(x for x in (e.payee, e.narration) if x) if isinstance(e, data.Transaction) else None,
    'tags': lambda e: e.tags if isinstance(e, data.Transaction) else None, 'links': lambda e: e.links if isinstance(e, data.Transaction) else None,
    'meta': lambda e: e.meta,
}
TYPED = {'transactions': (data.Transaction, {}), 'prices': (data.Price, {}), 'balances': (data.Balance, {'diff_amount': 'discrepancy'}), 'notes': (data.Note, {}),
         'events': (data.Event, {}), 'documents': (data.Document, {})}


def eq(a, b):
    if isinstance(b, (set, frozenset, list)) and a is not None:
        return sorted(a) == sorted(b)
    return a == b


def check_ledger(res, name, src):
    entries, _, options = ledger.load(src)
    conn = ledger.connect(src)
    # postings
    exp = [(e, p) for e in entries if isinstance(e, data.Transaction) for p in e.postings]
    res.case((name, 'postings-count'))
    got = conn.execute('SELECT account FROM #postings').fetchall()
    if [g[0] for g in got] != [p.account for e, p in exp]:
        res.violation(f'h11:{name}:postings-rows', 'the postings table yields exactly one row per posting of every transaction in ledger order', {'ledger': name, 'table': 'postings'}, len(got), len(exp))
    declared = set(conn.tables['postings'].columns)
    for col, fn in POSTING_COLS.items():
        res.case((name, 'postings', col))
        if col == 'cost_label':
            continue
        try:
            got = [r[0] for r in conn.execute(f'SELECT {col} FROM #postings').fetchall()]
        except Exception as ex:
            res.violation(f'h11:postings:{col}', 'every column is readable', {'ledger': name, 'table': 'postings', 'column': col}, f'{type(ex).__name__}: {ex}', None)
            continue
        want = [fn(e, p) for e, p in exp]
        if len(got) != len(want) or not all(eq(a, b) for a, b in zip(got, want)):
            bad = next(((a, b) for a, b in zip(got, want) if not eq(a, b)), (len(got), len(want)))
            res.violation(f'h11:postings:{col}', 'every column equals the corresponding attribute of the posting / its transaction', {'ledger': name, 'table': 'postings', 'column': col}, bad[0], bad[1])
    missing = declared - set(POSTING_COLS) - {'balance'}
    if missing:
        res.violation('h11:postings:unchecked-columns', 'harness covers every declared postings column', {'columns': sorted(missing)}, sorted(missing), [])
    # entries
    res.case((name, 'entries-count'))
    for col, fn in ENTRY_COLS.items():
        res.case((name, 'entries', col))
        got = [r[0] for r in conn.execute(f'SELECT {col} FROM #entries').fetchall()]
        want = [fn(e) for e in entries]
        if len(got) != len(want) or not all(eq(a, b) for a, b in zip(got, want)):
            bad = next(((a, b) for a, b in zip(got, want) if not eq(a, b)), (len(got), len(want)))
            res.violation(f'h11:entries:{col}', 'the entries table yields exactly the directives; columns equal their attributes', {'ledger': name, 'table': 'entries', 'column': col}, bad[0], bad[1])
    # typed tables
    for tname, (dt, ren) in TYPED.items():
        rows = [e for e in entries if isinstance(e, dt)]
        for field in dt._fields:
            if field == 'postings':
                continue
            col = ren.get(field, field)
            res.case((name, tname, col))
            try:
                got = [r[0] for r in conn.execute(f'SELECT {col} FROM #{tname}').fetchall()]
            except Exception as ex:
                res.violation(f'h11:{tname}:{col}', 'typed directive tables expose every field', {'ledger': name, 'table': tname, 'column': col}, f'{type(ex).__name__}: {ex}', None)
                continue
            want = [getattr(e, field) for e in rows]
            if len(got) != len(want) or not all(eq(a, b) for a, b in zip(got, want)):
                res.violation(f'h11:{tname}:{col}', 'typed tables yield exactly the corresponding directives with their attributes', {'ledger': name, 'table': tname, 'column': col}, got[:3], want[:3])
    # accounts / commodities
    oc = getters.get_account_open_close(entries)
    res.case((name, 'accounts'))
    got = conn.execute('SELECT account, open.date, close.date FROM #accounts').fetchall()
    want = [(a, o.date if o else None, c.date if c else None) for a, (o, c) in oc.items()]
    if sorted(got, key=str) != sorted(want, key=str):
        res.violation('h11:accounts', 'the accounts table yields the accounts with their open / close directives', {'ledger': name, 'table': 'accounts'}, got[:3], want[:3])
    com = getters.get_commodity_directives(entries)
    res.case((name, 'commodities'))
    got = conn.execute('SELECT name, date FROM #commodities').fetchall()
    want = [(c, e.date) for c, e in com.items()]
    if sorted(got) != sorted(want):
        res.violation('h11:commodities', 'the commodities table yields the commodity directives', {'ledger': name, 'table': 'commodities'}, got, want)
    # metadata functions
    keys = ['ref', 'memo', 'who', 'nosuch', 'filename']
    for k in keys:
        res.case((name, 'meta', k))
        got = conn.execute(f'SELECT meta("{k}"), entry_meta("{k}"), any_meta("{k}") FROM #postings').fetchall()
        want = []
        for e, p in exp:
            pm = p.meta.get(k) if p.meta is not None else None
            em = e.meta.get(k) if e.meta is not None else None
            am = None if p.meta is None else (pm if k in p.meta else em)      # postings without metadata: NULL (the statement)
            want.append((pm, em, am))
        if [tuple(g) for g in got] != want:
            bad = next(((a, b) for a, b in zip(got, want) if tuple(a) != b), None)
            res.violation(f'h11:meta-functions:{k}', 'meta / entry_meta / any_meta perform the posting, transaction, posting-then-transaction lookups; NULL for missing keys and postings without metadata', {'ledger': name, 'key': k}, bad[0] if bad else len(got), bad[1] if bad else len(want))
    for acct, (o, c) in oc.items():
        res.case((name, 'open', acct))
        got = conn.execute(f'SELECT open_date("{acct}"), close_date("{acct}"), open_meta("{acct}", "rank"), open_meta("{acct}") FROM #accounts LIMIT 1').fetchall()
        want = [(o.date if o else None, c.date if c else None, (o.meta.get('rank') if o else None), (o.meta if o else None))]
        if [tuple(g) for g in got] != want:
            res.violation('h11:open-functions', 'open_date / close_date / open_meta look up the account open and close directives', {'ledger': name, 'account': acct}, got, want)
    got = conn.execute('SELECT open_date("Assets:Nosuch"), open_meta("Assets:Nosuch", "x"), commodity_meta("NOSUCH", "x") FROM #accounts LIMIT 1').fetchall()
    if got and tuple(got[0]) != (None, None, None):
        res.violation('h11:open-functions-missing', 'lookups of unknown accounts / commodities are NULL', {'ledger': name}, got, [(None, None, None)])
    for cur, e in com.items():
        res.case((name, 'commodity', cur))
        got = conn.execute(f'SELECT commodity_meta("{cur}", "name"), currency_meta("{cur}", "nosuch") FROM #accounts LIMIT 1').fetchall()
        if got and tuple(got[0]) != (e.meta.get('name'), None):
            res.violation('h11:commodity_meta', 'commodity_meta looks up the commodity metadata', {'ledger': name, 'currency': cur}, got, (e.meta.get('name'), None))


def tables_stable(res, name, src):
    """the accounts table shows the accounts of the ledger whatever lookups were evaluated before or are evaluated during its scan"""
    entries, _, _ = ledger.load(src)
    oc = getters.get_account_open_close(entries)
    conn = ledger.connect(src)
    want = sorted((a, o.date if o else None, c.date if c else None) for a, (o, c) in oc.items())
    nposts = sum(len(e.postings) for e in entries if isinstance(e, data.Transaction))
    nentries = len(entries)
    for step in ['SELECT count(*) FROM CLEAR', 'SELECT count(*) FROM OPEN ON 2020-02-01 CLOSE ON 2020-03-01 CLEAR', 'SELECT count(*) FROM CLOSE ON 2020-02-01', 'BALANCES FROM OPEN ON 2020-01-15 CLEAR']:
        res.case((name, 'tables-stable-after', step))
        try:
            conn.execute(step).fetchall()
            a = conn.execute('SELECT count(*) FROM #postings').fetchall()[0][0]
            b = conn.execute('SELECT count(*) FROM #entries').fetchall()[0][0]
            c = len(conn.execute('SELECT date, account, position').fetchall())
        except Exception as e:  # noqa
            a = b = c = f'{type(e).__name__}: {e}'
        if (a, b, c) != (nposts, nentries, nposts):
            res.violation('h11:tables-stable-after-qualified-query', 'the postings / entries tables yield exactly the postings / directives of the ledger, whatever qualified statements ran before', {'ledger': name, 'after': step},
                          (a, b, c), (nposts, nentries, nposts))
            break
    steps = ['SELECT open_date("Assets:Nosuch"), close_date("Income:Nosuch:Deeper"), open_meta("Liabilities:Nosuch", "x") FROM #accounts LIMIT 1',
             "SELECT account, open_date(parent(account)), open_meta(parent(account), 'rank'), close_date(root(account, 1)) FROM #accounts",
             "SELECT open_date(account), open_date(parent(account)) FROM #postings"]
    for step in steps:
        res.case((name, 'accounts-stable', step[:50]))
        try:
            conn.execute(step).fetchall()
        except Exception as e:  # noqa
            res.violation('h11:accounts-stable:lookup-fails', 'lookups of accounts without open directive are NULL and leave the tables alone', {'ledger': name, 'query': step}, f'{type(e).__name__}: {e}', 'rows')
        got = sorted(tuple(r) for r in conn.execute('SELECT account, open.date, close.date FROM #accounts').fetchall())
        n = conn.execute('SELECT count(*) FROM #accounts').fetchall()[0][0]
        if got != want or n != len(want):
            res.violation('h11:accounts-stable', 'the accounts table yields exactly the accounts of the ledger, whatever was looked up before', {'ledger': name, 'after': step},
                          (n, [g for g in got if g not in want][:3]), len(want))
            break


def synthetic(res):
    """directives built programmatically (importers, plugins): postings that are equal as tuples, metadata included, are still
    different postings"""
    import datetime as _dt
    from decimal import Decimal as _D
    from beancount.core import amount as _amount
    entries, errors, options = ledger.load(ledger.LEDGER_A)
    legs = [data.Posting('Expenses:Coffee', _amount.Amount(_D('3'), 'USD'), None, None, None, None),
            data.Posting('Expenses:Coffee', _amount.Amount(_D('3'), 'USD'), None, None, None, None),
            data.Posting('Assets:Bank:Checking', _amount.Amount(_D('-6'), 'USD'), None, None, None, None)]
    txn = data.Transaction({'filename': '<synthetic>', 'lineno': 1}, _dt.date(2020, 3, 1), '*', 'Cafe', 'two equal legs', frozenset(), frozenset(), legs)
    conn = beanquery.connect('beancount:', entries=list(entries) + [txn], errors=[], options=options)
    res.case(('synthetic', 'meta-lookups-without-posting-metadata'))
    got = conn.execute("SELECT meta('lineno'), entry_meta('lineno'), any_meta('lineno'), any_meta('filename'), meta('nosuch') FROM #postings WHERE narration = 'two equal legs'").fetchall()
    want = [(None, 1, None, None, None)] * 3
    if [tuple(r) for r in got] != want:
        res.violation('h11:synthetic:meta-without-posting-metadata', 'meta / any_meta of a posting without metadata are NULL, entry_meta is the transaction metadata', {'transaction': 'postings built with meta=None'}, got, want)
    # the location columns of the postings table are the posting's own: NULL without posting metadata, the posting's file when it differs
    # from the transaction's
    res.case(('synthetic', 'location-of-postings-without-metadata'))
    got = conn.execute("SELECT filename, lineno, location FROM #postings WHERE narration = 'two equal legs'").fetchall()
    if [tuple(r) for r in got] != [(None, None, None)] * 3:
        res.violation('h11:synthetic:posting-location-without-metadata', 'filename / lineno / location of a posting without metadata are NULL', {'transaction': 'postings built with meta=None'}, got, [(None, None, None)] * 3)
    legs2 = [data.Posting('Expenses:Coffee', _amount.Amount(_D('2'), 'USD'), None, None, None, {'filename': 'included.beancount', 'lineno': 7}),
             data.Posting('Assets:Bank:Checking', _amount.Amount(_D('-2'), 'USD'), None, None, None, {'filename': 'included.beancount', 'lineno': 8})]
    txn2 = data.Transaction({'filename': 'main.beancount', 'lineno': 3}, _dt.date(2020, 3, 2), '*', 'Cafe', 'other file', frozenset(), frozenset(), legs2)
    conn2 = beanquery.connect('beancount:', entries=list(entries) + [txn2], errors=[], options=options)
    res.case(('synthetic', 'location-of-postings-in-another-file'))
    got = conn2.execute("SELECT filename, lineno, location FROM #postings WHERE narration = 'other file'").fetchall()
    want = [('included.beancount', 7, 'included.beancount:7:'), ('included.beancount', 8, 'included.beancount:8:')]
    if [tuple(r) for r in got] != want:
        res.violation('h11:synthetic:posting-location-other-file', 'filename / lineno / location of a posting come from the posting metadata', {'transaction': 'posting metadata names another file'}, got, want)
    res.case(('synthetic', 'other_accounts'))
    got = conn.execute("SELECT account, other_accounts, number FROM #postings WHERE narration = 'two equal legs'").fetchall()
    want = [(p.account, sorted({q.account for q in legs if q is not p}), p.units.number) for p in legs]
    if [(r[0], sorted(r[1]), r[2]) for r in got] != want:
        res.violation('h11:synthetic:other_accounts', 'other_accounts lists the accounts of the other postings of the transaction (postings are told apart by identity, not by value)',
                      {'transaction': 'two equal Expenses:Coffee legs built without metadata'}, got, want)


def run(tier, seed):
    res = Result('ledgers A (all directive types, tags, links, metadata on entries and postings, pad-generated postings without metadata, costs, prices, '
                 'closed accounts, commodities with metadata) and B (multi-currency, lots); every column of every table vs a direct traversal; '
                 'metadata functions for present / missing keys; distinct = (ledger, table, column)')
    check_ledger(res, 'A', ledger.LEDGER_A)
    check_ledger(res, 'B', ledger.LEDGER_B)
    tables_stable(res, 'A', ledger.LEDGER_A)
    synthetic(res)
    return res.asdict()


def replay(case):
    r = Result()
    check_ledger(r, case.get('ledger', 'A'), ledger.LEDGER_A if case.get('ledger', 'A') == 'A' else ledger.LEDGER_B)
    hit = [v for v in r.violations if v['case'] == case]
    return {'status': 'reproduced' if hit else 'not-reproduced', 'detail': repr(hit[:1])[:600]}
