"""C15 bounded native harness: PIVOT BY is a lossless reshaping of a two-key aggregate result."""
import itertools
import random
from decimal import Decimal

import beanquery
from harness.common import make_conn, Result, pmap

COLS = [('r', str), ('k', int), ('x', int), ('y', Decimal)]
D = Decimal


def tables():
    full = [(r, k, i + 3 * j, D(i) / 2) for j, r in enumerate(['b', 'a', 'c']) for i, k in enumerate([2, 1, 3])]
    return {
        'full': full,
        'sparse': [t for n, t in enumerate(full) if n % 3 != 1] + [('a', 1, 100, D('0.25'))],
        'dups': full + [('a', 2, 50, D('5')), ('c', 3, -1, D('-1'))],
        'one': [('a', 1, 5, D('1'))],
        'gaps': [('a', 1, 1, D('1')), ('a', 4, 4, D('4')), ('b', 2, 2, D('2')), ('b', 3, 3, D('3')), ('c', 4, 9, D('9')), ('d', 1, 7, D('7')), ('e', 3, 6, D('6')), ('e', 4, 5, D('5'))],
        'empty': [],
        # falsy keys (0, '') next to smaller and larger ones: 0 and '' are values, not NULL
        'falsy': [('', -2, 1, D('1')), ('a', 0, 2, D('0')), ('', 0, 3, D('3')), ('b', -1, 4, D('4')), ('a', 3, 5, D('5')), ('b', 0, 6, D('-6'))],
        # NULL values in either pivot column: NULL is a value of its own, sorted first (as ORDER BY sorts it)
        'nulls': [('a', 1, 1, D('1')), (None, 1, 2, D('2')), ('a', None, 3, D('3')), (None, None, 4, D('4')), ('b', 2, 5, D('5')), (None, 2, 6, D('6'))],
    }


def unpivoted(rows, first, second, rest):
    """the aggregate query result grouped by (first, second): list of (f, s, *aggs) in first-appearance order"""
    groups, order = {}, []
    fi, si = [c for c, _ in COLS].index(first), [c for c, _ in COLS].index(second)
    for r in rows:
        key = (r[fi], r[si])
        if key not in groups:
            groups[key] = []
            order.append(key)
        groups[key].append(r)
    out = []
    for key in order:
        g = groups[key]
        vals = []
        for a in rest:
            if a == 'sum(x)': vals.append(sum(t[2] for t in g))
            elif a == 'count(*)': vals.append(len(g))
            elif a == 'max(y)': vals.append(max(t[3] for t in g))
            elif a == 'sum(y)': vals.append(sum((t[3] for t in g), D(0)))
        out.append(key + tuple(vals))
    return out


def expected(rows, first, second, rest, positions):
    """positions: target order, a permutation of ['first', 'second'] + rest indices"""
    base = unpivoted(rows, first, second, rest)
    nullfirst = lambda v: (v is not None, v if v is not None else 0)
    firsts = sorted({t[0] for t in base}, key=nullfirst)
    seconds = sorted({t[1] for t in base}, key=nullfirst)
    n = len(rest)
    names = [f'{first}/{second}'] + ([f'{s}/{a}' for s in seconds for a in rest] if n > 1 else [f'{s}' for s in seconds])
    out = []
    for f in firsts:
        row = [f] + [None] * (len(seconds) * n)
        for t in base:
            if t[0] == f:
                i = seconds.index(t[1]) * n + 1
                row[i:i + n] = t[2:]
        out.append(tuple(row))
    return names, out


def check(case):
    tname, first, second, rest, byname, order = case[:6]
    orderby = case[6] if len(case) > 6 else ''
    rows = tables()[tname]
    targets = {'first': first, 'second': second}
    tlist = []
    for o in order:
        tlist.append(targets[o] if o in targets else rest[o])
    # remaining columns keep their relative target order
    rest_in_order = [rest[o] for o in order if o not in targets]
    if byname:
        piv = f'{first}, {second}'
    else:
        piv = f'{order.index("first") + 1}, {order.index("second") + 1}'
    # an ORDER BY of the un-pivoted query does not change the pivoted table (rows ascending by the first column)
    ob = {'': '', 'first-desc': f' ORDER BY {first} DESC', 'first-asc-second-desc': f' ORDER BY {first}, {second} DESC', 'pos-desc': f' ORDER BY {order.index("first") + 1} DESC, {order.index("second") + 1}',
          'second-desc': f' ORDER BY {second} DESC'}[orderby]
    q = 'SELECT ' + ', '.join(tlist) + f' FROM #{tname} GROUP BY {first}, {second}{ob} PIVOT BY {piv}'
    conn = make_conn(**{n: (COLS, r) for n, r in tables().items()})
    try:
        cur = conn.execute(q)
        names = [d.name for d in cur.description]
        dts = [d.datatype for d in cur.description]
        got = cur.fetchall()
    except Exception as e:
        return ('pivot query executes', {'query': q}, f'{type(e).__name__}: {e}', None)
    enames, erows = expected(rows, first, second, rest_in_order, order)
    if names != enames:
        return ('column naming first/second then value or value/column per distinct second value ascending', {'query': q}, names, enames)
    if got != erows:
        return ('one row per first value ascending; block (r, k) holds the remaining values of the unique row (r, k) or NULLs', {'query': q}, got, erows)
    typemap = {'sum(x)': int, 'count(*)': int, 'max(y)': Decimal, 'sum(y)': Decimal}
    edts = [dict(COLS)[first]] + [typemap[a] for _ in {t[1] for t in unpivoted(rows, first, second, rest_in_order)} for a in rest_in_order]
    if dts != edts:
        return ('pivoted columns are typed like the remaining columns', {'query': q}, [t.__name__ for t in dts], [t.__name__ for t in edts])
    # un-pivot reproduces the un-pivoted result
    base = unpivoted(rows, first, second, rest_in_order)
    seconds = sorted({t[1] for t in base}, key=lambda v: (v is not None, v if v is not None else 0))
    n = len(rest_in_order)
    back = set()
    for row in got:
        for j, s in enumerate(seconds):
            blk = tuple(row[1 + j * n: 1 + (j + 1) * n])
            if any(v is not None for v in blk):
                back.add((row[0], s) + blk)
    if back != set(base):
        return ('un-pivoting reproduces the un-pivoted result', {'query': q}, sorted(back, key=repr)[:5], sorted(base, key=repr)[:5])
    return None


def cases(tier, seed):
    out = []
    restsets = [['sum(x)'], ['count(*)'], ['sum(x)', 'max(y)'], ['count(*)', 'sum(y)', 'sum(x)']]
    for tname in tables():
        for first, second in (('r', 'k'), ('k', 'r')):
            for rest in restsets:
                n = len(rest)
                items = ['first', 'second'] + list(range(n))
                perms = list(itertools.permutations(items))
                if tier == 'quick':
                    perms = perms[:3] + perms[-3:] if len(perms) > 6 else perms
                for order in perms:
                    for byname in (True, False):
                        out.append((tname, first, second, rest, byname, list(order)))
                for ob in ('first-desc', 'first-asc-second-desc', 'pos-desc', 'second-desc'):
                    out.append((tname, first, second, rest, True, list(perms[0]), ob))
                    out.append((tname, first, second, rest, False, list(perms[-1]), ob))
    return out


def invalid_refs(res):
    conn = make_conn(**{n: (COLS, r) for n, r in tables().items()})
    for q in ['SELECT r, k, sum(x) FROM #full GROUP BY r, k, y PIVOT BY 1, 4', 'SELECT r, k, sum(x) FROM #full GROUP BY r, k ORDER BY sum(y) PIVOT BY 4, 2', 'SELECT r, k, sum(x) FROM #full GROUP BY r, k PIVOT BY 1, 1',
              'SELECT r, k, sum(x) FROM #full GROUP BY r, k PIVOT BY 0, 2', 'SELECT r, k, sum(x) FROM #full GROUP BY r, k PIVOT BY r, nosuch', 'SELECT r, k, sum(x) AS s FROM #full GROUP BY r, k PIVOT BY r, s',
              'SELECT r, k, x FROM #full PIVOT BY r, k', 'SELECT r, k, sum(x) FROM #full GROUP BY r, k HAVING count(*) > 0 PIVOT BY 1, 4']:
        res.case(q, {'query': q})
        try:
            conn.execute(q).fetchall()
            got = 'accepted'
        except beanquery.CompilationError:
            continue
        except Exception as e:
            got = f'{type(e).__name__}: {e}'
        res.violation('h15:invalid-reference:' + q[-20:], 'invalid PIVOT BY references are rejected at compile time', {'query': q}, got, 'CompilationError')


def limited(res):
    """ORDER BY ... LIMIT n apply to the un-pivoted aggregate result; PIVOT BY reshapes exactly the rows that are left"""
    conn = make_conn(**{n: (COLS, r) for n, r in tables().items()})
    nkey = lambda v: (v is not None, v if v is not None else 0)
    for tname in tables():
        for first, second in (('r', 'k'), ('k', 'r')):
            for ob in ('sum(x) DESC', f'{second} DESC, {first}', 'count(*), sum(x) DESC', f'{first} DESC'):
                for lim in (0, 1, 2, 3, 5):
                    head = f'SELECT {first}, {second}, sum(x), count(*) FROM #{tname} GROUP BY {first}, {second} ORDER BY {ob}'
                    base_q = head + f' LIMIT {lim}'
                    q = head + f' PIVOT BY {first}, {second} LIMIT {lim}'        # clause order of the grammar: ORDER BY, PIVOT BY, LIMIT
                    res.case(('limited', q))
                    try:
                        base = conn.execute(base_q).fetchall()
                        got = conn.execute(q).fetchall()
                    except Exception as e:
                        res.violation('h15:limited-crash:' + type(e).__name__, 'pivot query with ORDER BY and LIMIT executes', {'query': q}, f'{type(e).__name__}: {e}', 'rows')
                        continue
                    seconds = sorted({r[1] for r in base}, key=nkey)
                    want = []
                    for f in sorted({r[0] for r in base}, key=nkey):
                        row = [f]
                        for sv in seconds:
                            hit = [r for r in base if r[0] == f and r[1] == sv]
                            row += list(hit[0][2:]) if hit else [None, None]
                        want.append(tuple(row))
                    if [tuple(r) for r in got] != want:
                        res.violation('h15:limited:' + ob, 'PIVOT BY reshapes the rows the un-pivoted statement (with its ORDER BY and LIMIT) returns', {'query': q}, got[:3], want[:3])


def typed_keys(res):
    """key columns of every datatype (decimal, date-like text, int) with NULLs: the NULL block comes first whatever the type of the
    other key values; reference: the reshaping of the un-pivoted result"""
    rows = [('a', 1, 1, None), ('a', 1, 2, D('1.5')), ('b', 2, 3, None), ('b', 1, 4, D('-2')), ('a', 2, 5, D('1.5')), (None, 2, 6, D('0')), ('c', None, 7, D('10'))]
    conn = make_conn(d=(COLS, rows))
    nkey = lambda v: (v is not None, v if v is not None else 0)
    for first, second in (('r', 'y'), ('k', 'y'), ('y', 'r'), ('y', 'k'), ('r', 'k')):
        head = f'SELECT {first}, {second}, sum(x) AS s, count(*) AS n FROM #d GROUP BY {first}, {second}'
        q = head + f' PIVOT BY {first}, {second}'
        res.case(('typed-keys', q))
        try:
            base = conn.execute(head).fetchall()
            cur = conn.execute(q)
            names, got = [d.name for d in cur.description], [tuple(r) for r in cur.fetchall()]
        except Exception as e:
            res.violation('h15:typed-keys-crash:' + type(e).__name__, 'pivot query over typed key columns with NULLs executes', {'query': q}, f'{type(e).__name__}: {e}', 'rows')
            continue
        nn = [v for v in {r[1] for r in base} if v is not None]
        seconds = ([None] if any(r[1] is None for r in base) else []) + sorted(nn)
        fn = [v for v in {r[0] for r in base} if v is not None]
        firsts = ([None] if any(r[0] is None for r in base) else []) + sorted(fn)
        want_names = [f'{first}/{second}'] + [f'{sv}/{a}' for sv in seconds for a in ('s', 'n')]
        want = []
        for f in firsts:
            row = [f]
            for sv in seconds:
                hit = [r for r in base if r[0] == f and r[1] == sv]
                row += list(hit[0][2:]) if hit else [None, None]
            want.append(tuple(row))
        if names != want_names or got != want:
            res.violation('h15:typed-keys:' + f'{first},{second}', 'NULL key values come first (rows and column blocks) whatever the datatype of the key column', {'query': q}, (names, got[:2]), (want_names, want[:2]))


def run(tier, seed):
    res = Result('aggregate queries grouped by exactly the two pivot columns on full / sparse / duplicate-key / single-row / empty tables; both key orders; '
                 '1-3 remaining aggregate columns; pivot columns in any target positions; by name and by position; distinct = distinct query')
    cs = cases(tier, seed)
    for case, bad in zip(cs, pmap(check, cs, chunk=8)):
        res.case(repr(case), {'case': repr(case)[:160]})
        if bad:
            res.violation('h15:' + bad[0][:50] + ':' + bad[1]['query'][:70], bad[0], bad[1], bad[2], bad[3])
    invalid_refs(res)
    limited(res)
    typed_keys(res)
    return res.asdict()


def replay(case):
    """re-run the harness on the current tree and report whether the recorded case still violates its clause"""
    import os
    r = run(os.environ.get('VERIF_TIER', 'quick'), int(os.environ.get('VERIF_SEED', '0')))
    hit = [v for v in r.get('violations', []) if v.get('case') == case]
    return {'status': 'reproduced' if hit else 'not-reproduced', 'detail': repr([(v.get('observed'), v.get('expected')) for v in hit[:1]])[:600]}
