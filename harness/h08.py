"""C08 bounded native harness: FROM (subquery) / IN (subquery) against their materialised forms."""
import itertools
import random
from decimal import Decimal

import beanquery
from harness.common import make_conn, MemTable, Result, pmap

COLS = [('a', int), ('b', str), ('c', Decimal)]
T = [(1, 'x', Decimal('1')), (2, None, Decimal('2')), (None, 'y', None), (2, 'x', Decimal('3')), (5, 'z', Decimal('-1')), (1, 'y', Decimal('0'))]
U = [(2, 'q', Decimal('9')), (7, 'x', Decimal('8')), (None, None, None), (5, 'x', Decimal('7'))]

INNER = [
    'SELECT a, b, c FROM #t',
    'SELECT a, b FROM #t WHERE a > 1',
    'SELECT a AS k, length(b) AS n FROM #t',
    'SELECT b, count(*) AS cnt, sum(a) AS total FROM #t GROUP BY b',
    'SELECT a, b FROM #t ORDER BY c DESC',
    'SELECT DISTINCT a FROM #t',
    'SELECT a, c FROM #t ORDER BY c LIMIT 3',
    'SELECT a FROM #t WHERE a > 100',
    'SELECT a, b FROM #u',
    'SELECT b AS a, a AS b FROM #t',
    'SELECT a AS meta, b AS entry, c AS id FROM #t',          # output names that are special on ledger tables are ordinary here
    'SELECT b FROM #t', 'SELECT a, b FROM #t WHERE a IS NOT NULL ORDER BY b',      # duplicate rows reach the outer query
    'SELECT a, b FROM #t LIMIT 0', 'SELECT a, b FROM #t ORDER BY a LIMIT 1',        # an inner LIMIT (also 0) is the inner query's own
]
OUTER = ['*', '{0}', '{0}, {1}', '{1}, {0}', 'count(*)', '{0}, count(*)', '{0} ORDERBY', '{0} WHERE', '{0} ORDERBY1', '{0} ORDERBY1 LIMIT', 'DISTINCT *', 'DISTINCT {0}', '* LIMIT']


def conn():
    return make_conn(t=(COLS, T), u=(COLS, U))


def outer_query(form, names, src):
    n0 = names[0]
    n1 = names[1] if len(names) > 1 else names[0]
    if form == '*': return f'SELECT * FROM {src}'
    if form == 'DISTINCT *': return f'SELECT DISTINCT * FROM {src}'       # the outer query is a query of its own: its DISTINCT / LIMIT apply to the rows of q
    if form == '* LIMIT': return f'SELECT * FROM {src} LIMIT 2'
    if form == '{0} ORDERBY': return f'SELECT {n0} FROM {src} ORDER BY {n1} DESC, {n0}'
    # one sort key with ties: rows that tie keep the order the subquery delivered them in (the sort is stable)
    if form == '{0} ORDERBY1': return f'SELECT {n0}, {n1} FROM {src} ORDER BY {n0}'
    if form == '{0} ORDERBY1 LIMIT': return f'SELECT {n1}, {n0} FROM {src} ORDER BY {n0} DESC LIMIT 3'
    if form == '{0} WHERE': return f'SELECT {n0}, {n1} FROM {src} WHERE {n0} IS NOT NULL'
    return 'SELECT ' + form.format(n0, n1) + f' FROM {src}'


def check(case):
    inner, form, depth = case
    c = conn()
    try:
        ic = c.execute(inner)
        idesc, irows = ic.description, ic.fetchall()
    except Exception as e:
        return ('inner query runs', {'inner': inner}, f'{type(e).__name__}: {e}', None)
    names = [d.name for d in idesc]
    if len(set(names)) != len(names):
        return None
    # materialised table
    c.tables['m'] = MemTable('m', [(d.name, d.datatype) for d in idesc], irows)
    src = f'({inner})'
    for _ in range(depth - 1):
        src = f'(SELECT * FROM {src})'
    q1 = outer_query(form, names, src)
    q2 = outer_query(form, names, '#m')
    try:
        r2 = c.execute(q2)
        d2, rows2 = r2.description, r2.fetchall()
    except beanquery.ProgrammingError:
        return None
    try:
        r1 = c.execute(q1)
        d1, rows1 = r1.description, r1.fetchall()
    except Exception as e:
        return ('FROM (subquery) runs like the outer query over the materialised rows', {'query': q1}, f'{type(e).__name__}: {e}', rows2)
    if [(d.name, d.datatype) for d in d1] != [(d.name, d.datatype) for d in d2] or rows1 != rows2:
        return ('FROM (subquery) equals the outer query over a table holding the subquery rows (names, datatypes, rows)', {'query': q1},
                ([(d.name, d.datatype.__name__) for d in d1], rows1), ([(d.name, d.datatype.__name__) for d in d2], rows2))
    return None


def check_repeated_names(res):
    """a subquery that repeats an output name: every other column still reads its own position"""
    c = conn()
    for inner, col, idx in [('SELECT a, a, b FROM #t', 'b', 2), ('SELECT a AS k, c AS k, b, a AS z FROM #t', 'z', 3), ('SELECT b, a, b, c FROM #t', 'c', 3),
                            ('SELECT a, a, b FROM #t', 'length(b)', None)]:
        res.case(('repeated-names', inner, col), {'inner': inner, 'column': col})
        try:
            irows = c.execute(inner).fetchall()
            got = c.execute(f'SELECT {col} FROM ({inner})').fetchall()
        except Exception as e:  # noqa
            res.violation('h08:repeated-names:' + inner + ':' + col, 'a column of a subquery with repeated output names is read from its own position',
                          {'inner': inner, 'column': col}, f'{type(e).__name__}: {e}', 'rows')
            continue
        want = [(r[idx],) for r in irows] if idx is not None else [(None if r[2] is None else len(r[2]),) for r in irows]
        if [tuple(r) for r in got] != want:
            res.violation('h08:repeated-names:' + inner + ':' + col, 'a column of a subquery with repeated output names is read from its own position',
                          {'inner': inner, 'column': col}, got[:4], want[:4])


IN_CASES = [
    # (outer table, lhs expr, inner query)
    ('t', 'a', 'SELECT a FROM #u'), ('t', 'a', 'SELECT a FROM #t WHERE a > 1'), ('t', 'b', 'SELECT b FROM #u'),
    ('t', 'a', 'SELECT a FROM #u WHERE a > 100'), ('u', 'a', 'SELECT a FROM #t'), ('t', 'a + 1', 'SELECT a FROM #u'),
    ('t', 'a', 'SELECT max(a) FROM #u'), ('t', 'a', 'SELECT a FROM #t ORDER BY a LIMIT 3'), ('u', 'a', 'SELECT a FROM #t WHERE a IS NOT NULL ORDER BY a LIMIT 2'),
    ('t', 'a', 'SELECT a FROM #t ORDER BY a DESC LIMIT 3'), ('t', 'b', 'SELECT b FROM #t ORDER BY b LIMIT 3'), ('t', 'a', 'SELECT a FROM #u ORDER BY c LIMIT 2'), ('t', 'a', 'SELECT DISTINCT a FROM #t'),
]


def lhs_val(expr, row):
    a, b, c = row
    return {'a': a, 'b': b, 'a + 1': None if a is None else a + 1}[expr]


def check_in(case):
    table, lhs, inner, neg, where = case
    c = conn()
    vals = [r[0] for r in c.execute(inner).fetchall()]
    rows = T if table == 't' else U
    op = 'NOT IN' if neg else 'IN'
    def sem(row):
        x = lhs_val(lhs, row)
        if x is None or not vals:
            return None
        return (x not in vals) if neg else (x in vals)
    if where:
        q = f'SELECT a, b FROM #{table} WHERE {lhs} {op} ({inner})'
        exp = [(r[0], r[1]) for r in rows if sem(r)]
    else:
        q = f'SELECT a, {lhs} {op} ({inner}) FROM #{table}'
        exp = [(r[0], sem(r)) for r in rows]
    try:
        got = [tuple(r) for r in c.execute(q).fetchall()]
    except Exception as e:
        got = f'{type(e).__name__}: {e}'
    if got != exp:
        return ('x [NOT] IN (subquery) equals membership in the single output column; NULL when x is NULL or the subquery is empty', {'query': q}, got, exp)
    return None


def special(res):
    c = conn()
    q = 'SELECT * FROM (SELECT a, a FROM #t)'
    res.case(q, {'query': q})
    try:
        cur = c.execute(q)
        got = ([d.name for d in cur.description], cur.fetchall()[:2])
    except Exception as e:
        got = f'{type(e).__name__}: {e}'
    inner = c.execute('SELECT a, a FROM #t')
    exp = ([d.name for d in inner.description], inner.fetchall()[:2])
    if got != exp:
        res.violation('h08:star-over-duplicate-names', 'SELECT * FROM (q) returns q rows and description unchanged (duplicate output names)', {'query': q}, got, exp)
    # several subqueries in one statement are evaluated each for itself, also when their text is the same: placeholders bound to
    # different values, the same text at different nesting depths
    for q, params, lit in [
            ('SELECT a FROM #t WHERE a IN (SELECT a FROM #t WHERE a > %s) AND a NOT IN (SELECT a FROM #t WHERE a > %s)', (1, 3),
             'SELECT a FROM #t WHERE a IN (SELECT a FROM #t WHERE a > 1) AND a NOT IN (SELECT a FROM #t WHERE a > 3)'),
            ('SELECT a, a IN (SELECT a FROM #u WHERE a < %s), a IN (SELECT a FROM #u WHERE a < %s) FROM #t', (2, 100),
             'SELECT a, a IN (SELECT a FROM #u WHERE a < 2), a IN (SELECT a FROM #u WHERE a < 100) FROM #t'),
            ('SELECT a FROM #t WHERE a IN (SELECT a FROM #u WHERE a >= %s) OR a IN (SELECT a FROM #u WHERE a >= %s)', (1000, 0),
             'SELECT a FROM #t WHERE a IN (SELECT a FROM #u WHERE a >= 1000) OR a IN (SELECT a FROM #u WHERE a >= 0)')]:
        res.case(q, {'query': q})
        try:
            got = c.execute(q, params).fetchall()
        except Exception as e:
            got = f'{type(e).__name__}: {e}'
        exp = c.execute(lit).fetchall()
        if got != exp:
            res.violation('h08:twin-subqueries:' + q[:60], 'every IN subquery of a statement is evaluated for itself (same text, different parameters)', {'query': q, 'params': list(params)},
                          got if isinstance(got, str) else got[:4], exp[:4])
    # columns of a subquery over a ledger keep the datatypes the subquery announces (structured Beancount values included), so that
    # the outer query types and evaluates them like the same expressions over the base table
    try:
        from harness import ledger
        lc = ledger.connect()
        inner = 'SELECT account, position, units(position) AS u, cost(position) AS c, weight FROM #postings'
        idesc = [(d.name, d.datatype) for d in lc.execute(inner).description]
        res.case(('ledger-subquery-types', inner))
        odesc = [(d.name, d.datatype) for d in lc.execute(f'SELECT * FROM ({inner})').description]
        if odesc != idesc:
            res.violation('h08:ledger-subquery-types', 'SELECT * FROM (q) describes the columns as q does (names and datatypes)', {'query': inner}, [(n, t.__name__) for n, t in odesc], [(n, t.__name__) for n, t in idesc])
        for outer, direct in [('SELECT units(position), number(u), currency(c) FROM ({0})', 'SELECT units(position), number(units(position)), currency(cost(position)) FROM #postings'),
                              ('SELECT account, sum(position), sum(weight) FROM ({0}) GROUP BY account ORDER BY account', 'SELECT account, sum(position), sum(weight) FROM #postings GROUP BY account ORDER BY account')]:
            q = outer.format(inner)
            res.case(('ledger-subquery-functions', q))
            try:
                got = lc.execute(q).fetchall()
            except Exception as e:  # noqa
                got = f'{type(e).__name__}: {e}'
            exp = lc.execute(direct).fetchall()
            if got != exp:
                res.violation('h08:ledger-subquery-functions:' + outer[:40], 'typed functions apply to subquery columns as to the same expressions over the base table', {'query': q}, got if isinstance(got, str) else got[:2], exp[:2])
    except ImportError:
        pass
    for q in ['SELECT a FROM #t WHERE a IN (SELECT a, b FROM #u)', 'SELECT a IN (SELECT * FROM #u) FROM #t']:
        res.case(q, {'query': q})
        try:
            c.execute(q)
            res.violation('h08:in-multi-column:' + q, 'IN subquery with several columns is rejected', {'query': q}, 'accepted', 'CompilationError')
        except beanquery.CompilationError:
            pass
        except Exception as e:
            res.violation('h08:in-multi-column-exc:' + q, 'IN subquery with several columns is rejected with CompilationError', {'query': q}, f'{type(e).__name__}: {e}', 'CompilationError')


def ledger_subqueries(res):
    """a subquery is evaluated over the table its own FROM clause names: the enclosing statement's OPEN / CLOSE / CLEAR do not reach
    into it - x IN (subquery) equals membership in the rows the subquery returns when run on its own"""
    from harness import ledger
    conn = ledger.connect(ledger.LEDGER_A)
    subs = ["SELECT account FROM year = 2020 WHERE number > 100", "SELECT account FROM month = 2", "SELECT DISTINCT account FROM flag = '*' WHERE number < 0", "SELECT account FROM #postings WHERE number > 500"]
    outers = ['CLOSE ON 2020-01-04', 'OPEN ON 2020-02-01', 'OPEN ON 2020-01-15 CLOSE ON 2020-02-10 CLEAR', 'year = 2020 CLOSE ON 2020-01-20']
    for sub in subs:
        alone = {r[0] for r in conn.execute(sub).fetchall()}
        for outer in outers:
            for neg in ('', 'NOT '):
                q = f'SELECT date, account, number FROM {outer} WHERE account {neg}IN ({sub})'
                res.case(('ledger-sub', q), {'query': q})
                try:
                    got = [tuple(r) for r in conn.execute(q).fetchall()]
                    base = [tuple(r) for r in conn.execute(f'SELECT date, account, number FROM {outer}').fetchall()]
                except Exception as e:  # noqa
                    res.violation('h08:ledger-subquery:' + q[:90], 'IN (subquery) under FROM qualifiers executes', {'query': q}, f'{type(e).__name__}: {e}', 'rows')
                    continue
                if not alone:
                    want = []        # IN over an empty subquery is NULL: the row is excluded, also under NOT
                else:
                    want = [r for r in base if (r[1] in alone) != bool(neg)]
                if got != want:
                    res.violation('h08:ledger-subquery:' + q[:90], 'x IN (subquery) equals membership in the rows of the subquery run on its own, whatever qualifiers the enclosing FROM has',
                                  {'query': q}, (len(got), got[:2]), (len(want), want[:2]))


def run(tier, seed):
    res = Result('inner queries (plain, filtered, aliased, aggregated, hidden ORDER keys, DISTINCT, LIMIT, empty, over another table) x outer forms '
                 '(*, projections, reordering, aggregation, ORDER BY, WHERE) x nesting depth 1-3; IN / NOT IN subqueries in targets and WHERE over '
                 'different outer/inner tables incl. empty inner results; distinct = distinct query')
    cs = [(i, f, d) for i in INNER for f in OUTER for d in (1, 2, 3)]
    for case, bad in zip(cs, pmap(check, cs, chunk=4)):
        res.case(case, {'inner': case[0], 'outer': case[1], 'depth': case[2]})
        if bad:
            clause, cse, obs, exp = bad
            res.violation('h08:' + clause[:40] + ':' + str(cse.get('query', cse.get('inner')))[:100], clause, cse, obs, exp)
    ins = [(t, l, i, neg, w) for (t, l, i) in IN_CASES for neg in (False, True) for w in (False, True)]
    for case, bad in zip(ins, pmap(check_in, ins, chunk=4)):
        res.case(case, {'in_case': repr(case)})
        if bad:
            clause, cse, obs, exp = bad
            res.violation('h08:in:' + cse['query'][:110], clause, cse, obs, exp)
    special(res)
    ledger_subqueries(res)
    check_repeated_names(res)
    return res.asdict()


def replay(case):
    """re-run the harness on the current tree and report whether the recorded case still violates its clause"""
    import os
    r = run(os.environ.get('VERIF_TIER', 'quick'), int(os.environ.get('VERIF_SEED', '0')))
    hit = [v for v in r.get('violations', []) if v.get('case') == case]
    return {'status': 'reproduced' if hit else 'not-reproduced', 'detail': repr([(v.get('observed'), v.get('expected')) for v in hit[:1]])[:600]}
