"""Reference semantics of BQL expressions, written from the property statements (C01), and a
typed expression enumerator + printer.  Used by the bounded native harnesses.

Expressions are tuples:
  ('col', name, type) ('const', value, type) ('neg', e) ('bin', op, l, r) ('cmp', op, l, r)
  ('between', e, lo, hi) ('and', [es]) ('or', [es]) ('not', e) ('isnull', e) ('isnotnull', e)
  ('coalesce', [es]) ('func', name, [es], type) ('in', e, [consts]) ('notin', e, [consts]) ('match', l, r)
"""
import datetime
import re
from decimal import Decimal

INT, DEC, STR, DATE, BOOL, OBJ = 'int', 'dec', 'str', 'date', 'bool', 'obj'


def etype(e):
    k = e[0]
    if k in ('col', 'const'): return e[2]
    if k == 'neg': return etype(e[1])
    if k == 'bin':
        op, l, r = e[1], etype(e[2]), etype(e[3])
        if OBJ in (l, r): return DEC
        if l == DATE and r == DATE: return INT
        if DATE in (l, r): return DATE
        if op == '/': return DEC
        return DEC if DEC in (l, r) else INT
    if k in ('cmp', 'between', 'and', 'or', 'not', 'isnull', 'isnotnull', 'in', 'notin', 'match'): return BOOL
    if k == 'coalesce': return etype(e[1][0])
    if k == 'func': return e[3]
    raise ValueError(e)


def lit(v, t):
    if v is None: return 'NULL'
    if t == BOOL: return 'TRUE' if v else 'FALSE'
    if t == INT: return str(v) if v >= 0 else f'(-{-v})'
    if t == DEC:
        s = format(v, 'f')
        if '.' not in s: s += '.0'
        return s if v >= 0 and not s.startswith('-') else f'(-{s.lstrip("-")})'
    if t == STR: return "'" + v + "'"
    if t == DATE: return v.isoformat()
    raise ValueError(t)


def to_bql(e):
    k = e[0]
    if k == 'col': return e[1]
    if k == 'const': return lit(e[1], e[2])
    if k == 'neg': return f'(-{to_bql(e[1])})'
    if k == 'bin': return f'({to_bql(e[2])} {e[1]} {to_bql(e[3])})'
    if k == 'cmp': return f'({to_bql(e[2])} {e[1]} {to_bql(e[3])})'
    if k == 'match': return f'({to_bql(e[1])} ~ {to_bql(e[2])})'
    if k == 'between': return f'({to_bql(e[1])} BETWEEN {to_bql(e[2])} AND {to_bql(e[3])})'
    if k == 'and': return '(' + ' AND '.join(to_bql(x) for x in e[1]) + ')'
    if k == 'or': return '(' + ' OR '.join(to_bql(x) for x in e[1]) + ')'
    if k == 'not': return f'(NOT {to_bql(e[1])})'
    if k == 'isnull': return f'({to_bql(e[1])} IS NULL)'
    if k == 'isnotnull': return f'({to_bql(e[1])} IS NOT NULL)'
    if k == 'coalesce': return 'coalesce(' + ', '.join(to_bql(x) for x in e[1]) + ')'
    if k == 'func': return e[1] + '(' + ', '.join(to_bql(x) for x in e[2]) + ')'
    if k == 'in': return f'({to_bql(e[1])} IN (' + ', '.join(lit(v, t) for v, t in e[2]) + '))'
    if k == 'notin': return f'({to_bql(e[1])} NOT IN (' + ', '.join(lit(v, t) for v, t in e[2]) + '))'
    raise ValueError(e)


FUNCS = {
    # name -> (argtypes, rettype, python body on non-NULL args)
    'abs': ([DEC], DEC, lambda x: abs(x)),
    'neg': ([DEC], DEC, lambda x: -x),
    'safediv': ([DEC, DEC], DEC, lambda x, y: Decimal(0) if y == 0 else x / y),
    'length': ([STR], INT, lambda s: len(s)),
    'upper': ([STR], STR, lambda s: s.upper()),
    'lower': ([STR], STR, lambda s: s.lower()),
    'substr': ([STR, INT, INT], STR, lambda s, a, b: s[a:b]),
    'year': ([DATE], INT, lambda d: d.year),
    'month': ([DATE], INT, lambda d: d.month),
    'day': ([DATE], INT, lambda d: d.day),
    'str': ([INT], STR, lambda x: str(x)),
    'bool': ([INT], BOOL, lambda x: bool(x)),
    'date_diff': ([DATE, DATE], INT, lambda x, y: (x - y).days),
    'date_add': ([DATE, INT], DATE, lambda x, y: x + datetime.timedelta(days=y)),
    'yearmonth': ([DATE], DATE, lambda d: d.replace(day=1)),
}


def cast_dec(v):
    """implicit cast of an untyped operand facing an int/decimal operand (int promotes to decimal)"""
    if v is None:
        return None
    try:
        return Decimal(v)
    except Exception:
        return None


def operand(e, row):
    v = ref(e, row)
    return cast_dec(v) if etype(e) == OBJ else v


def ref(e, row):
    """value of e on row (dict col -> value) under the statement's semantics"""
    k = e[0]
    if k == 'col': return row[e[1]]
    if k == 'const': return e[1]
    if k == 'neg':
        v = ref(e[1], row)
        return None if v is None else -v
    if k == 'bin':
        op = e[1]
        l, r = operand(e[2], row), operand(e[3], row)
        if l is None or r is None: return None
        lt, rt = etype(e[2]), etype(e[3])
        lt, rt = (DEC if lt == OBJ else lt), (DEC if rt == OBJ else rt)
        if lt == DATE and rt == DATE: return (l - r).days
        if lt == DATE: return l + datetime.timedelta(days=r) if op == '+' else l - datetime.timedelta(days=r)
        if rt == DATE: return r + datetime.timedelta(days=l)
        if op == '+': return l + r
        if op == '-': return l - r
        if op == '*': return l * r
        if op == '/':
            if r == 0: return None
            return Decimal(l) / r if (lt == INT and rt == INT) else l / r
        if op == '%':
            if r == 0: return None
            return l % r
    if k == 'cmp':
        l, r = operand(e[2], row), operand(e[3], row)
        if l is None or r is None: return None
        return {'=': l == r, '!=': l != r, '<': l < r, '<=': l <= r, '>': l > r, '>=': l >= r}[e[1]]
    if k == 'match':
        l, r = ref(e[1], row), ref(e[2], row)
        if l is None or r is None: return None
        return bool(re.search(r, l, re.IGNORECASE))
    if k == 'between':
        x, lo, hi = ref(e[1], row), ref(e[2], row), ref(e[3], row)
        if x is None or lo is None or hi is None: return None
        return lo <= x <= hi
    if k == 'and':
        for a in e[1]:
            v = ref(a, row)
            if v is None: return None
            if not v: return False
        return True
    if k == 'or':
        vs = [ref(a, row) for a in e[1]]
        if any(v for v in vs): return True
        if any(v is None for v in vs): return None
        return False
    if k == 'not':
        v = ref(e[1], row)
        return not v          # NOT NULL is TRUE
    if k == 'isnull': return ref(e[1], row) is None
    if k == 'isnotnull': return ref(e[1], row) is not None
    if k == 'coalesce':
        for a in e[1]:
            v = ref(a, row)
            if v is not None: return v
        return None
    if k == 'func':
        args = [ref(a, row) for a in e[2]]
        if any(a is None for a in args): return None
        return FUNCS[e[1]][2](*args)
    if k in ('in', 'notin'):
        x = ref(e[1], row)
        if x is None: return None
        r = x in [v for v, t in e[2]]
        return r if k == 'in' else not r
    raise ValueError(e)


# ---- the standard table --------------------------------------------------------------------
def D(s): return Decimal(s)


COLUMNS = [('o', object), ('i', int), ('j', int), ('d', Decimal), ('e', Decimal), ('s', str), ('u', str), ('t', datetime.date), ('v', datetime.date), ('b', bool), ('c', bool)]
COLTYPES = {'o': OBJ, 'i': INT, 'j': INT, 'd': DEC, 'e': DEC, 's': STR, 'u': STR, 't': DATE, 'v': DATE, 'b': BOOL, 'c': BOOL}
_d = datetime.date
ROWS = [
    (D('1.5'), 1, 2, D('1.5'), D('2'), 'abc', 'b', _d(2024, 2, 29), _d(2024, 3, 1), True, False),
    (3, 0, 0, D('0'), D('0.00'), '', 'x', _d(2000, 1, 1), _d(1999, 12, 31), False, False),
    (None, None, 3, None, D('-1.25'), None, 'a.c', None, _d(2024, 2, 29), None, True),
    (D('-0.5'), -3, None, D('-2.5'), None, 'Abc', None, _d(2024, 12, 31), None, True, None),
    ('2.5', 7, -2, D('10'), D('3'), 'xyz', 'Y', _d(1970, 1, 1), _d(1970, 1, 1), False, True),
    (None, None, None, None, None, None, None, None, None, None, None),
    (D('2'), 2, 2, D('2'), D('2.0'), 'b', 'b', _d(2024, 3, 1), _d(2024, 2, 29), True, True),
]


def row_dicts(rows=ROWS):
    return [dict(zip([c for c, _ in COLUMNS], r)) for r in rows]


def same(a, b):
    """equal values of the same python type (int vs Decimal promotion is observable)"""
    if a is None or b is None:
        return a is b
    return type(a) is type(b) and a == b


# ---- enumerator ------------------------------------------------------------------------------
CONSTS = {OBJ: [], INT: [0, 1, -2], DEC: [D('0'), D('2.5')], STR: ['b', 'A'], DATE: [_d(2024, 2, 29)], BOOL: [True, False]}


def leaves(t, small=False):
    if t == OBJ:
        return [('col', 'o', OBJ)]
    cols = [('col', c, t) for c, ct in COLTYPES.items() if ct == t]
    consts = [('const', v, t) for v in CONSTS[t]]
    if small:
        return cols[:1] + consts[:1]
    return cols + consts


def ops_for(t, sub):
    """all one-level expressions of type t over operand generator sub(type) -> list"""
    out = []
    if t == INT:
        for op in '+-*%':
            for l in sub(INT):
                for r in sub(INT):
                    out.append(('bin', op, l, r))
        out += [('neg', x) for x in sub(INT)]
        out += [('bin', '-', l, r) for l in sub(DATE) for r in sub(DATE)]
        out += [('func', f, [x], INT) for f in ('year', 'month', 'day') for x in sub(DATE)]
        out += [('func', 'length', [x], INT) for x in sub(STR)]
        out += [('func', 'date_diff', [l, r], INT) for l in sub(DATE) for r in sub(DATE)]
        out += [('coalesce', [l, r]) for l in sub(INT) for r in sub(INT)]
    elif t == DEC:
        for op in '+-*/%':
            for lt, rt in ((DEC, DEC), (DEC, INT), (INT, DEC)):
                for l in sub(lt):
                    for r in sub(rt):
                        out.append(('bin', op, l, r))
        out += [('bin', '/', l, r) for l in sub(INT) for r in sub(INT)]
        for op in '+-*/%':
            for lt, rt in ((OBJ, INT), (INT, OBJ), (OBJ, DEC), (DEC, OBJ)):
                for l in sub(lt):
                    for r in sub(rt):
                        out.append(('bin', op, l, r))
        out += [('neg', x) for x in sub(DEC)]
        out += [('func', f, [x], DEC) for f in ('abs', 'neg') for x in sub(DEC)]
        out += [('func', 'safediv', [l, r], DEC) for l in sub(DEC) for r in sub(DEC)]
        out += [('coalesce', [l, r]) for l in sub(DEC) for r in sub(DEC)]
    elif t == STR:
        out += [('func', f, [x], STR) for f in ('upper', 'lower') for x in sub(STR)]
        out += [('func', 'substr', [x, a, b], STR) for x in sub(STR) for a in sub(INT)[:3] for b in sub(INT)[:3]]
        out += [('coalesce', [l, r]) for l in sub(STR) for r in sub(STR)]
        out += [('func', 'str', [x], STR) for x in sub(INT)]
        # the text keeps the exponent: 2 and 2.0 are equal numbers with different texts (columns only: a literal is written with the
        # digits its value has, not necessarily those of the pool entry)
        out += [('func', 'str', [x], STR) for x in sub(DEC) if x[0] == 'col']
    elif t == DATE:
        out += [('bin', '+', l, r) for l in sub(DATE) for r in sub(INT)]
        out += [('bin', '+', l, r) for l in sub(INT) for r in sub(DATE)]
        out += [('bin', '-', l, r) for l in sub(DATE) for r in sub(INT)]
        out += [('func', 'date_add', [l, r], DATE) for l in sub(DATE) for r in sub(INT)]
        out += [('func', 'yearmonth', [x], DATE) for x in sub(DATE)]
        out += [('coalesce', [l, r]) for l in sub(DATE) for r in sub(DATE)]
    elif t == BOOL:
        for op in ('=', '!=', '<', '<=', '>', '>='):
            for lt, rt in ((INT, INT), (DEC, INT), (INT, DEC), (DEC, DEC), (DATE, DATE), (STR, STR)):
                for l in sub(lt):
                    for r in sub(rt):
                        out.append(('cmp', op, l, r))
        for op in ('=', '!=', '<', '<=', '>', '>='):
            for lt, rt in ((OBJ, INT), (INT, OBJ), (OBJ, DEC), (DEC, OBJ)):
                for l in sub(lt):
                    for r in sub(rt):
                        out.append(('cmp', op, l, r))
        out += [('match', l, r) for l in sub(STR) for r in sub(STR)]
        for tt in (INT, DEC, DATE, STR):
            for x in sub(tt):
                for lo in sub(tt)[:3]:
                    for hi in sub(tt)[:3]:
                        out.append(('between', x, lo, hi))
        out += [('between', x, lo, hi) for x in sub(INT)[:2] for lo in sub(DEC)[:2] for hi in sub(INT)[:2]]
        for l in sub(BOOL):
            for r in sub(BOOL):
                out.append(('and', [l, r]))
                out.append(('or', [l, r]))
        out += [('and', [a, b, c]) for a in sub(BOOL)[:3] for b in sub(BOOL)[-3:] for c in sub(BOOL)[:2]]
        out += [('or', [a, b, c]) for a in sub(BOOL)[:3] for b in sub(BOOL)[-3:] for c in sub(BOOL)[:2]]
        for tt in (INT, DEC, STR, DATE, BOOL, OBJ):
            for x in sub(tt):
                out += [('not', x)] if tt == BOOL else []
                out += [('isnull', x), ('isnotnull', x)]
        out += [('in', x, [(0, INT), (1, INT), (7, INT)]) for x in sub(INT)]
        out += [('notin', x, [(0, INT), (1, INT), (7, INT)]) for x in sub(INT)]
        out += [('in', x, [('b', STR), ('abc', STR)]) for x in sub(STR)]
        out += [('notin', x, [('b', STR), ('abc', STR)]) for x in sub(STR)]
        out += [('func', 'bool', [x], BOOL) for x in sub(INT)]
        out += [('coalesce', [l, r]) for l in sub(BOOL) for r in sub(BOOL)]
    return out


def depth1(t):
    return ops_for(t, lambda tt: leaves(tt))


def depth2_sample(t, rng, n):
    """depth-2 trees: every one-level operator over operands that are themselves one-level expressions"""
    pools = {}

    def sub(tt):
        if tt == OBJ:
            return leaves(OBJ)
        if tt not in pools:
            d1 = depth1(tt)
            pools[tt] = [rng.choice(d1) for _ in range(3)] + leaves(tt, small=True)
        return pools[tt]
    out = ops_for(t, sub)
    rng.shuffle(out)
    return out[:n]
