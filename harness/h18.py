"""C18 native harness: the scalar function library on the property's own finite domain
(all dates 1900-2100 exhaustively, all units, account names of 1..5 components, short strings, decimals, cast inputs)."""
import datetime
import itertools
import random
import re
import textwrap
from decimal import Decimal

from dateutil.relativedelta import relativedelta

from beanquery import query_compile as qc, types
import beanquery.query_env  # noqa
from harness.common import Result, pmap
from harness import ledger

D = Decimal
date = datetime.date


def call(name, *args, context=None):
    """call the registered BQL function (through its NULL-strict wrapper) on constant operands"""
    ops = [qc.EvalConstant(a) for a in args]
    f = types.function_lookup(qc.FUNCTIONS, name, ops)
    if f is None:
        raise LookupError(f'{name}({", ".join(type(a).__name__ for a in args)})')
    return f(context, ops)(None)


def binop(node, a, b):
    from beanquery.parser import ast
    ops = [qc.EvalConstant(a), qc.EvalConstant(b)]
    f = types.function_lookup(qc.OPERATORS, getattr(ast, node), ops)
    return f(*ops)(None)


UNITS = ['week', 'month', 'quarter', 'year', 'decade', 'century', 'millennium']


def first_day(unit, d):
    if unit == 'week': return d - datetime.timedelta(days=d.weekday())
    if unit == 'month': return date(d.year, d.month, 1)
    if unit == 'quarter': return date(d.year, 3 * ((d.month - 1) // 3) + 1, 1)
    if unit == 'year': return date(d.year, 1, 1)
    if unit == 'decade': return date(d.year - d.year % 10, 1, 1)
    if unit == 'century': return date(d.year - (d.year - 1) % 100, 1, 1)
    if unit == 'millennium': return date(d.year - (d.year - 1) % 1000, 1, 1)


def part(field, d):
    iso = d.isocalendar()
    return {'weekday': d.weekday(), 'dow': d.weekday(), 'isoweekday': d.isoweekday(), 'isodow': d.isoweekday(), 'week': iso[1], 'month': d.month,
            'quarter': (d.month - 1) // 3 + 1, 'year': d.year, 'isoyear': iso[0], 'decade': d.year // 10, 'century': (d.year - 1) // 100 + 1,
            'millennium': (d.year - 1) // 1000 + 1, 'epoch': (d - date(1970, 1, 1)).days * 86400}[field]


PARTS = ['weekday', 'dow', 'isoweekday', 'isodow', 'week', 'month', 'quarter', 'year', 'isoyear', 'decade', 'century', 'millennium', 'epoch']
# which date_part fields are determined by the unit a date was truncated to (unit and everything coarser)
COARSER = {'month': ['month', 'quarter', 'year', 'decade', 'century', 'millennium'], 'quarter': ['quarter', 'year', 'decade', 'century', 'millennium'],
           'year': ['year', 'decade', 'century', 'millennium'], 'decade': ['decade'], 'century': ['century', 'millennium'],
           'millennium': ['millennium'], 'week': ['week', 'isoyear']}


class Raised:
    """what a library function raised: compares unequal to every expected value"""
    def __init__(self, e):
        self.text = f'{type(e).__name__}: {e}'

    def __repr__(self):
        return f'<raised {self.text}>'

    def __gt__(self, other): return True
    def __lt__(self, other): return True


def _total(fn):
    def wrapped(*args, **kw):
        try:
            return fn(*args, **kw)
        except LookupError:
            raise
        except Exception as e:  # noqa: the library function under test raised: that is an observation, not a harness failure
            return Raised(e)
    return wrapped


def check_dates(yearrange):
    y0, y1 = yearrange
    bad = []
    n = 0
    d = date(y0, 1, 1)
    prev = {u: None for u in UNITS}
    one = datetime.timedelta(days=1)
    call, binop = _total(globals()['call']), _total(globals()['binop'])
    while d.year < y1:
        n += 1
        for u in UNITS:
            t = call('date_trunc', u, d)
            exp = first_day(u, d)
            if t != exp:
                bad.append(('date_trunc is the first day of the unit', {'unit': u, 'date': d.isoformat()}, t, exp))
            else:
                if t > d or call('date_trunc', u, t) != t:
                    bad.append(('date_trunc not after d and idempotent', {'unit': u, 'date': d.isoformat()}, t, exp))
                if prev[u] is not None and t < prev[u]:
                    bad.append(('date_trunc monotone', {'unit': u, 'date': d.isoformat()}, t, prev[u]))
                for f in COARSER[u]:
                    if call('date_part', f, t) != call('date_part', f, d):
                        bad.append(('date_part agrees with date_trunc on the unit and coarser', {'unit': u, 'field': f, 'date': d.isoformat()}, call('date_part', f, t), call('date_part', f, d)))
            prev[u] = t
        for f in PARTS:
            got = call('date_part', f, d)
            if got != part(f, d):
                bad.append(('date_part equals the calendar field', {'field': f, 'date': d.isoformat()}, got, part(f, d)))
        if (call('year', d), call('month', d), call('day', d)) != (d.year, d.month, d.day):
            bad.append(('year/month/day', {'date': d.isoformat()}, (call('year', d), call('month', d), call('day', d)), (d.year, d.month, d.day)))
        if call('quarter', d) != f'{d.year:04d}-Q{(d.month - 1) // 3 + 1}' or call('weekday', d) != d.strftime('%a') or call('yearmonth', d) != date(d.year, d.month, 1):
            bad.append(('quarter/weekday/yearmonth', {'date': d.isoformat()}, (call('quarter', d), call('weekday', d)), None))
        for k in (-400, -31, -1, 0, 1, 29, 366):
            e = call('date_add', d, k)
            if e != d + datetime.timedelta(days=k) or call('date_diff', e, d) != k or binop('Add', d, k) != e or binop('Add', k, d) != e \
                    or binop('Sub', e, k) != d or binop('Sub', e, d) != k:
                bad.append(('date_add / date_diff / date +- int are mutually inverse', {'date': d.isoformat(), 'days': k}, e, d + datetime.timedelta(days=k)))
        if len(bad) > 20:
            break
        d += one
    return n, bad[:20]


def bin_start(stride, source, origin):
    """start of the stride-aligned bin containing source: the largest origin + k*stride <= source"""
    if stride.months or stride.years:
        m = stride.years * 12 + stride.months
        k = ((source.year - origin.year) * 12 + source.month - origin.month) // m
        while origin + stride * k > source:
            k -= 1
        while origin + stride * (k + 1) <= source:
            k += 1
        return origin + stride * k
    days = stride.days
    k = (source - origin).days // days
    return origin + datetime.timedelta(days=k * days)


STRIDES = [('1 day', dict(days=1)), ('7 days', dict(days=7)), ('10 days', dict(days=10)), ('1 month', dict(months=1)),
           ('3 months', dict(months=3)), ('1 year', dict(years=1)), ('2 years', dict(years=2))]
ORIGINS = [date(2000, 1, 1), date(2024, 1, 15), date(1999, 12, 31), date(2024, 2, 29)]


def _bins_one(job):
    txt, kw, origin, step = job
    st = relativedelta(**kw)
    n, bad = 0, []
    d = date(1998, 1, 1)
    while d < date(2026, 1, 1):
        n += 1
        try:
            got = call('date_bin', txt, d, origin)
            got2 = call('date_bin', st, d, origin)
        except Exception as e:
            got = got2 = f'{type(e).__name__}: {e}'
        exp = bin_start(st, d, origin)
        if (got != exp or got2 != exp) and len(bad) < 3:
            kind = 'month-year-strides' if (st.months or st.years) else 'day-strides'
            if (st.months or st.years) and origin.day > 28:
                kind = 'month-stride-with-month-end-origin'
            bad.append((kind, {'stride': txt, 'source': d.isoformat(), 'origin': origin.isoformat()}, (got, got2), exp))
        d += datetime.timedelta(days=step)
    return n, bad


def check_bins(res, tier):
    step = 1 if tier != 'quick' else 3
    jobs = [(txt, kw, origin, step) for (txt, kw), origin in itertools.product(STRIDES, ORIGINS)]
    for (txt, kw, origin, _), (n, bad) in zip(jobs, pmap(_bins_one, jobs, jobs=16, chunk=1, force=True)):
        res.evaluations += n
        res.keys.update(('date_bin', txt, origin.isoformat(), k) for k in range(n))
        for kind, case, obs, exp in bad:
            res.violation(f'h18:date_bin:{kind}', 'date_bin returns the start of the stride-aligned bin containing the date', case, obs, exp)
    for txt in ('0 days', '0 months'):
        res.case(('date_bin-zero', txt))
        try:
            call('date_bin', txt, date(2024, 1, 1), date(2020, 1, 1))
        except Exception as e:
            res.violation('h18:date_bin:zero-stride', 'date_bin with a zero stride does not raise', {'stride': txt}, f'{type(e).__name__}: {e}', 'NULL')
    # interval arithmetic equals calendar arithmetic
    for txt, rd in [('1 day', relativedelta(days=1)), ('-3 days', relativedelta(days=-3)), ('1 month', relativedelta(months=1)), ('+2 months', relativedelta(months=2)),
                    ('1 year', relativedelta(years=1)), ('-1 years', relativedelta(years=-1)), ('12 months', relativedelta(months=12))]:
        iv = call('interval', txt)
        for d in (date(2024, 1, 31), date(2024, 2, 29), date(2023, 12, 31), date(2000, 3, 1)):
            res.case(('interval', txt, d.isoformat()))
            if iv != rd or binop('Add', d, iv) != d + rd or binop('Sub', d, iv) != d - rd or binop('Add', iv, d) != d + rd:
                res.violation('h18:interval:' + txt, 'interval arithmetic equals calendar arithmetic', {'interval': txt, 'date': d.isoformat()}, (iv, binop('Add', d, iv)), (rd, d + rd))


def check_accounts(res):
    from beancount.core import account as acc, account_types
    lc = ledger.connect()
    roots = ['Assets', 'Liabilities', 'Equity', 'Income', 'Expenses']
    comps = ['A', 'Bb', 'C1']
    names = []
    for r in roots:
        for n in range(0, 5):
            for tail in itertools.product(comps, repeat=n):
                names.append(':'.join((r,) + tail))
    at = lc.tables['accounts'].types
    keys = []
    for a in names:
        res.case(('account', a))
        parts = a.split(':')
        for n in range(1, 6):
            got = call('root', a, n)
            if got != ':'.join(parts[:n]):
                res.violation('h18:root', 'root(a, n) is the first n components', {'account': a, 'n': n}, got, ':'.join(parts[:n]))
        if call('root', a) != parts[0]:
            res.violation('h18:root1', 'root(a) is the first component', {'account': a}, call('root', a), parts[0])
        p, l = call('parent', a), call('leaf', a)
        if l != parts[-1] or (p or '') != ':'.join(parts[:-1]) or (len(parts) > 1 and f'{p}:{l}' != a):
            res.violation('h18:parent-leaf', 'parent(a):leaf(a) = a', {'account': a}, (p, l), (':'.join(parts[:-1]), parts[-1]))
        sk = call('account_sortkey', a, context=lc)
        keys.append((sk, a))
        for v in (D('5'), D('-2.5'), D('0')):
            got = call('possign', v, a, context=lc)
            credit = parts[0] in ('Liabilities', 'Equity', 'Income')
            if got != (-v if credit else v):
                res.violation('h18:possign', 'possign flips the sign exactly for credit-normal accounts', {'account': a, 'x': str(v)}, got, -v if credit else v)
    order = [a for _, a in sorted(keys)]
    exp = sorted(names, key=lambda a: (roots.index(a.split(':')[0]), a))
    if order != exp:
        res.violation('h18:account_sortkey', 'account_sortkey orders by account type then name', {'n': len(names)}, order[:5], exp[:5])


def check_strings(res):
    alpha = 'aB :'
    strs = [''.join(t) for n in range(0, 5) for t in itertools.product(alpha, repeat=n)]
    for s in strs:
        res.case(('str', s))
        if call('upper', s) != s.upper() or call('lower', s) != s.lower() or call('length', s) != len(s):
            res.violation('h18:upper-lower-length', 'upper/lower/length', {'s': s}, (call('upper', s), call('lower', s), call('length', s)), (s.upper(), s.lower(), len(s)))
        for a in range(-6, 7):
            for b in range(-6, 7):
                if call('substr', s, a, b) != s[a:b]:
                    res.violation('h18:substr', 'substr equals the slice', {'s': s, 'start': a, 'end': b}, call('substr', s, a, b), s[a:b])
        for w in range(5, 12):
            if call('maxwidth', s * 3, w) != textwrap.shorten(s * 3, width=w):
                res.violation('h18:maxwidth', 'maxwidth shortens to the width with an ellipsis', {'s': s * 3, 'w': w}, call('maxwidth', s * 3, w), textwrap.shorten(s * 3, width=w))
        parts = s.split(':')
        for k in range(-len(parts), len(parts)):
            if call('splitcomp', s, ':', k) != parts[k]:
                res.violation('h18:splitcomp', 'splitcomp is the k-th component', {'s': s, 'k': k}, call('splitcomp', s, ':', k), parts[k])
        # patterns that match the empty string (a match, not NULL) are part of the scope: a*, ^, $, optional groups
        for pat in ('a', 'B+', '(a)(B)?', '^ ', 'x', ':$', '[aB]+', 'a*', '^', '$', '(a*)(B*)', 'q?'):
            m = re.search(pat, s)
            if call('grep', pat, s) != (m.group(0) if m else None):
                res.violation('h18:grep', 'grep is the first regex match or NULL', {'pattern': pat, 's': s}, call('grep', pat, s), m.group(0) if m else None)
            if pat in ('(a)(B)?', '(a*)(B*)'):
                for g in (0, 1, 2):
                    if call('grepn', pat, s, g) != (m.group(g) if m else None):
                        res.violation('h18:grepn', 'grepn is the n-th group of the first match or NULL', {'pattern': pat, 's': s, 'n': g}, call('grepn', pat, s, g), m.group(g) if m else None)
            if call('subst', pat, '<\\g<0>>', s) != re.sub(pat, '<\\g<0>>', s):
                res.violation('h18:subst', 'subst replaces the leftmost non-overlapping matches', {'pattern': pat, 's': s}, call('subst', pat, '<\\g<0>>', s), re.sub(pat, '<\\g<0>>', s))
    sets = [set(), {'b'}, {'ab', 'ba', 'c'}, {'x', 'aa', 'a'}]
    for st in sets:
        res.case(('set', tuple(sorted(st))))
        if sorted(call('joinstr', st).split(',')) != sorted(st) and st:
            res.violation('h18:joinstr', 'joinstr joins the members with commas', {'set': sorted(st)}, call('joinstr', st), ','.join(sorted(st)))
        for pat in ('a', 'b', 'z', '.a'):
            exp = next((v for v in sorted(st) if re.match(pat, v)), None)
            if call('findfirst', pat, st) != exp:
                res.violation('h18:findfirst', 'findfirst is the first member (sorted) matching the pattern', {'pattern': pat, 'set': sorted(st)}, call('findfirst', pat, st), exp)


def check_numeric(res):
    decs = [D(n) / D(10) ** e for n in range(-30, 31) for e in (0, 1, 2)]
    for x in decs:
        res.case(('dec', str(x)))
        if call('abs', x) != abs(x) or call('neg', x) != -x or call('round', x) != round(x, 0) or call('round', x, 1) != round(x, 1):
            res.violation('h18:abs-neg-round', 'abs/neg/round equal decimal arithmetic', {'x': str(x)}, (call('abs', x), call('neg', x), call('round', x)), (abs(x), -x, round(x, 0)))
        for y in (D('0'), D('0.00'), D('3'), D('-0.5'), 0, 4):
            exp = D(0) if y == 0 else x / y
            got = call('safediv', x, y)
            if got != exp:
                res.violation('h18:safediv', 'safediv is the quotient, zero on a zero divisor', {'x': str(x), 'y': str(y)}, got, exp)
    for i in range(-30, 31):
        if call('round', i) != round(i, 0) or call('round', i, -1) != round(i, -1):
            res.violation('h18:round-int', 'round on integers', {'x': i}, call('round', i), round(i, 0))


CAST_POOL = [None, True, False, 0, 1, -7, 10 ** 30, D('0'), D('1.5'), D('-2.5'), D('1E+3'), D('NaN'), D('Infinity'), D('-Infinity'), D('sNaN'), '', 'abc', '12', ' 12 ', '1.5', '-0',
             '1e5', 'NaN', 'Infinity', '2024-02-29', '2024-02-30', '2024-1-1', 'TRUE', date(2024, 2, 29), date(1, 1, 1), date(9999, 12, 31), [1], (1, 2), {'a': 1}, set(), object(),
             relativedelta(days=1), 3.5, float('nan'), float('inf'), b'12', '१२']


def check_casts(res):
    for v in CAST_POOL:
        for fn in ('int', 'decimal', 'str', 'date', 'bool'):
            res.case(('cast', fn, repr(v)[:40]))
            try:
                ops = [qc.EvalConstant(v, type(v) if v is not None else object)]
                f = types.function_lookup(qc.FUNCTIONS, fn, ops) or types.function_lookup(qc.FUNCTIONS, fn, [qc.EvalConstant(v, object)])
                if f is None:
                    continue
                got = f(None, ops)(None)
            except Exception as e:
                res.violation(f'h18:cast:{fn}:{type(e).__name__}', 'type casts return the converted value or NULL, never an error', {'cast': fn, 'value': repr(v)[:60]}, f'{type(e).__name__}: {e}', 'value or NULL')
                continue
            if v is None and got is not None:
                res.violation(f'h18:cast-null:{fn}', 'casts of NULL are NULL', {'cast': fn}, got, None)
            if got is not None:
                want = {'int': int, 'decimal': D, 'str': str, 'date': date, 'bool': bool}[fn]
                if not isinstance(got, want):
                    res.violation(f'h18:cast-type:{fn}', 'a cast returns a value of the target type or NULL', {'cast': fn, 'value': repr(v)[:60]}, repr(got), want.__name__)
    # converted values
    table = [('int', '12', 12), ('int', D('1.5'), 1), ('int', True, 1), ('decimal', '1.5', D('1.5')), ('decimal', 3, D(3)), ('str', 12, '12'), ('str', True, 'TRUE'), ('str', False, 'FALSE'),
             ('date', '2024-02-29', date(2024, 2, 29)), ('date', '2024-02-30', None),
             # the text of a date is year-month-day in digits separated by dashes (padding optional); other ISO 8601 spellings are not dates in BQL
             ('date', '2024-2-9', date(2024, 2, 9)), ('date', '20240229', None), ('date', '2024-W09-4', None), ('date', '2024-060', None), ('date', '2024-02-29T10:00', None), ('int', 'abc', None), ('decimal', 'abc', None), ('bool', 0, False), ('bool', 'x', True), ('date', 7, None)]
    for fn, v, exp in table:
        res.case(('castval', fn, repr(v)))
        ops = [qc.EvalConstant(v)]
        f = types.function_lookup(qc.FUNCTIONS, fn, ops) or types.function_lookup(qc.FUNCTIONS, fn, [qc.EvalConstant(v, object)])
        got = f(None, ops)(None)
        if got != exp or type(got) is not type(exp):
            res.violation(f'h18:cast-value:{fn}:{v!r}', 'a cast returns the converted value', {'cast': fn, 'value': repr(v)}, got, exp)
    for y, m, dd in [(2024, 2, 29), (2023, 2, 29), (0, 1, 1), (10000, 1, 1), (2024, 13, 1), (2024, 0, 1), (-1, 1, 1), (10 ** 20, 1, 1), (2024, 1, 10 ** 20)]:
        res.case(('date_ymd', y, m, dd))
        try:
            got = call('date', y, m, dd)
            exp = None
            try:
                exp = date(y, m, dd)
            except Exception:
                pass
            if got != exp:
                res.violation('h18:date-ymd', 'date(y, m, d) is the date or NULL', {'y': y, 'm': m, 'd': dd}, got, exp)
        except Exception as e:
            res.violation(f'h18:cast:date-ymd:{type(e).__name__}', 'type casts return the converted value or NULL, never an error', {'y': y, 'm': m, 'd': dd}, f'{type(e).__name__}: {e}', 'date or NULL')


def check_pattern_sharing(res):
    """functions that take the same pattern text with different matching rules (has_account ignores case, grep / grepn / subst /
    findfirst do not) do not influence one another, whichever is evaluated first"""
    from harness import ledger
    c = ledger.connect()
    for pat, first in (('expenses:food', 'has_account'), ('assets:bank', 'grep'), ('income:salary', 'has_account'), ('equity:opening', 'subst')):
        res.case(('pattern-sharing', pat, first))
        stmts = {'has_account': f"SELECT count(*) FROM #entries WHERE has_account('{pat}')",
                 'grep': f"SELECT DISTINCT grep('{pat}', account) FROM #postings",
                 'subst': f"SELECT DISTINCT subst('{pat}', 'X', account) = account FROM #postings"}
        order = [first] + [k for k in stmts if k != first]
        try:
            got = {k: c.execute(stmts[k]).fetchall() for k in order}
        except Exception as e:  # noqa
            res.violation('h18:pattern-sharing:' + pat, 'statements execute', {'pattern': pat, 'first': first}, f'{type(e).__name__}: {e}', 'rows')
            continue
        # account names are capitalised: a lower-case pattern matches only where case is ignored
        nacc = got['has_account'][0][0] if got['has_account'] else 0       # count(*) over no row returns no row
        ok = nacc > 0 and got['grep'] == [(None,)] and got['subst'] == [(True,)]
        if not ok:
            res.violation('h18:pattern-sharing:' + pat, 'has_account matches ignoring case; grep / subst with the same pattern text stay case-sensitive (and vice versa), in any order of evaluation',
                          {'pattern': pat, 'evaluated_first': first}, {k: v[:2] for k, v in got.items()}, {'has_account': '> 0', 'grep': [(None,)], 'subst': [(True,)]})


def run(tier, seed):
    res = Result('exhaustive on the property domain: every date 1900-01-01..2100-12-31 x every truncation unit / part field / small day offsets; strides x origins grid for '
                 'date_bin; all account names of 1-5 components over the five roots (3-letter component alphabet); all strings of length <= 4 over a 4-letter '
                 'alphabet x all index/width arguments in -6..6; decimal grid; typed cast pool; distinct = distinct argument tuples')
    chunks = [(y, min(y + 5, 2101)) for y in range(1900, 2101, 5)]
    total = 0
    for (y0, y1), (n, bad) in zip(chunks, pmap(check_dates, chunks, jobs=16, chunk=1, force=True)):
        total += n
        for clause, case, obs, exp in bad:
            res.violation('h18:' + clause[:40] + ':' + str(case.get('unit', case.get('field', ''))), clause, case, obs, exp)
    res.evaluations += total * (len(UNITS) * 3 + len(PARTS) + 8)
    for k in range(total):
        res.keys.add(('date', k))
    res.samples.append({'dates': '1900-01-01..2100-12-31', 'count': total})
    check_bins(res, tier)
    check_accounts(res)
    check_strings(res)
    check_pattern_sharing(res)
    check_numeric(res)
    check_casts(res)
    res.exhaustive = True
    return res.asdict()


def replay(case):
    r = Result()
    if 'stride' in case:
        check_bins(r, 'thorough')
    elif 'cast' in case or 'y' in case:
        check_casts(r)
    elif 'account' in case:
        check_accounts(r)
    elif 's' in case or 'set' in case:
        check_strings(r)
    elif 'x' in case:
        check_numeric(r)
    elif 'date' in case:
        y = int(case['date'][:4])
        n, bad = check_dates((y, y + 1))
        return {'status': 'reproduced' if bad else 'not-reproduced', 'detail': repr(bad[:1])[:500]}
    return {'status': 'reproduced' if r.violations else 'not-reproduced', 'detail': repr(r.violations[:1])[:600]}
