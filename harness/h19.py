"""C19 bounded native harness: the shell prints what the API returns; settings behave as a typed key-value store."""
import contextlib
import io
import itertools
import os
import random
import sys
import tempfile
import warnings

import beanquery
from beanquery import shell, query_render, numberify
from harness.common import Result
from harness import ledger

QUERIES = '''
2020-02-20 query "by-account" "SELECT account, sum(position) AS total FROM year = 2020 GROUP BY account ORDER BY account"
2020-02-25 query "closed" "SELECT account, sum(position) AS total FROM year = 2020 CLOSE ON 2020-02-01 GROUP BY account ORDER BY account"
2020-02-26 query "nofrom" "SELECT date, narration WHERE number > 100 ORDER BY date"
2020-02-27 query "with spaces" "SELECT count(*)"
'''
BAD = '''
2020-04-01 * "unbalanced" "this transaction does not balance"
  Assets:Bank:Checking   10.00 USD
  Expenses:Food          12.00 USD
'''

_files = {}


def ledger_file(extra=''):
    key = extra
    if key not in _files:
        f = tempfile.NamedTemporaryFile('w', suffix='.beancount', delete=False)
        f.write(ledger.LEDGER_A + QUERIES + extra)
        f.close()
        _files[key] = f.name
    return _files[key]


class Session:
    def __init__(self, extra=''):
        self.out = io.StringIO()
        self.err = io.StringIO()
        with contextlib.redirect_stderr(self.err):
            self.shell = shell.BQLShell(ledger_file(extra), self.out, interactive=False, runinit=False)

    def run(self, line):
        self.out.seek(0); self.out.truncate()
        self.err.seek(0); self.err.truncate()
        exc = None
        with contextlib.redirect_stderr(self.err), contextlib.redirect_stdout(self.out), warnings.catch_warnings():
            warnings.simplefilter('ignore')
            try:
                self.shell.onecmd(line)
            except Exception as e:  # noqa
                exc = e
        return self.out.getvalue(), self.err.getvalue(), exc


def api_render(conn, statement, settings):
    """what rendering the API result with the given settings prints"""
    cur = conn.execute(statement)
    desc, rows = cur.description, cur.fetchall()
    dcontext = conn.options['dcontext']
    if settings['numberify']:
        desc, rows = numberify.numberify_results(desc, rows, dcontext.build())
    out = io.StringIO()
    if settings['format'] == 'text':
        if not rows:
            return '(empty)\n'
        query_render.render_text(desc, rows, dcontext, out, expand=settings['expand'], boxed=settings['boxed'], spaced=settings['spaced'],
                                 nullvalue=settings['nullvalue'], narrow=settings['narrow'], unicode=settings['unicode'])
    else:
        query_render.render_csv(desc, rows, dcontext, out, expand=settings['expand'], nullvalue=settings['nullvalue'])
    return out.getvalue()


STATEMENTS = ['SELECT date, account, position WHERE account ~ "Food"', 'SELECT account, sum(position) GROUP BY account', 'SELECT payee, cost_number, tags LIMIT 6',
              "SELECT account WHERE account = 'Nosuch'", 'BALANCES FROM year = 2020', "JOURNAL 'Checking'", 'SELECT sum(position), count(*)', 'select Date, Narration where number > 100']
DEFAULTS = dict(boxed=False, expand=False, format='text', narrow=True, nullvalue='', numberify=False, pager=True, spaced=False, unicode=False)


def check_output(res, tier, seed):
    rng = random.Random(seed)
    grid = []
    for k in ('boxed', 'expand', 'narrow', 'numberify', 'spaced', 'unicode'):
        grid.append({k: not DEFAULTS[k]})
    grid += [{'format': 'csv'}, {'format': 'csv', 'numberify': True, 'expand': True}, {'nullvalue': 'NULL'}, {'boxed': True, 'unicode': True, 'spaced': True}, {}]
    for _ in range(10 if tier == 'quick' else 100):
        grid.append({k: rng.choice([True, False]) for k in ('boxed', 'expand', 'narrow', 'numberify', 'spaced', 'unicode')} | {'format': rng.choice(['text', 'csv']), 'nullvalue': rng.choice(['', '-'])})
    sess = Session()
    conn = sess.shell.context
    for setting in grid:
        full = dict(DEFAULTS)
        full.update(setting)
        for k, v in full.items():
            sv = ('true' if v else 'false') if isinstance(v, bool) else (v if v != '' else "''")
            sess.run(f'.set {k} {sv}')
        for st in STATEMENTS:
            res.case((repr(sorted(setting.items())), st), {'settings': setting, 'statement': st})
            out, err, exc = sess.run(st)
            try:
                want = api_render(conn, st, full)
            except Exception as e:
                want = f'<api raised {type(e).__name__}: {e}>'
            if exc is not None or out != want:
                res.violation('h19:shell-prints-api-result:' + ','.join(sorted(setting)), 'a statement prints exactly what rendering the API result with the current settings prints',
                              {'settings': setting, 'statement': st}, (repr(exc) if exc else out[:300]), want[:300])


def check_run(res):
    sess = Session()
    conn = sess.shell.context
    import datetime
    cases = [('by-account', "SELECT account, sum(position) AS total FROM year = 2020 CLOSE ON 2020-02-20 GROUP BY account ORDER BY account"),
             ('closed', "SELECT account, sum(position) AS total FROM year = 2020 CLOSE ON 2020-02-01 GROUP BY account ORDER BY account"),
             ('nofrom', "SELECT date, narration WHERE number > 100 ORDER BY date"), ('"with spaces"', 'SELECT count(*)')]
    for name, text in cases:
        res.case(('run', name), {'run': name})
        out, err, exc = sess.run(f'.run {name}')
        want = api_render(conn, text, DEFAULTS)
        if exc is not None or out != want:
            res.violation('h19:run:' + name, '.run NAME behaves like typing the query text with CLOSE ON defaulting to the query directive date when its FROM clause names none', {'run': name}, (repr(exc) if exc else out[:300]), want[:300])
    # a named query never influences the statements typed after it
    # (the texts of the named queries themselves included: running a query must not change what typing its text means;
    # the expected output is computed from an equivalent re-spelling of the statement, so that it shares no parsed form with it)
    typed = ['SELECT date, account FROM year = 2020', 'SELECT account, sum(position) FROM year = 2020 OPEN ON 2020-01-15 GROUP BY account ORDER BY account', 'BALANCES FROM year = 2020',
             'SELECT account, sum(position) AS total FROM year = 2020 GROUP BY account ORDER BY account', 'SELECT date, narration WHERE number > 100 ORDER BY date']
    respell = lambda st: st.replace('SELECT', 'select ', 1).replace('BALANCES', 'balances ', 1).replace(' FROM ', '  from ', 1) + ' '
    for name, _ in cases + [('nosuch', None)]:
        for between in ([], ['.set boxed false', '.tables']):
            sess = Session()
            conn = sess.shell.context
            sess.run(f'.run {name}')
            for b in between:
                sess.run(b)
            for st in typed:
                res.case(('after-run', name, len(between), st), {'run': name, 'then': st})
                out, err, exc = sess.run(st)
                want = api_render(conn, respell(st), DEFAULTS)
                if exc is not None or out != want:
                    res.violation('h19:statement-after-run', 'a typed statement prints what the API returns whatever was run before', {'run': name, 'then': st}, (repr(exc) if exc else out[:300]), want[:300])
    sess = Session()
    out, err, exc = sess.run('.run nosuch')
    res.case(('run', 'nosuch'))
    if exc is not None or out or 'not found' not in err:
        res.violation('h19:run-unknown', 'an unknown named query produces an error message', {'run': 'nosuch'}, (out, err, repr(exc)), 'error message')


def check_settings(res):
    sess = Session()
    st = sess.shell.settings
    names = list(DEFAULTS)
    valid = {'boxed': ['true', 'FALSE', 'yes', '0', 'on', 'n'], 'format': ['csv', 'text'], 'nullvalue': ['NULL', '-', 'x y'], 'numberify': ['1', 'off']}
    invalid = {'boxed': ['maybe', '2', ''], 'format': ['html', 'TEXT', ''], 'expand': ['tru'], 'pager': ['sometimes']}

    def snap():
        return dict(st.todict())
    truth = {'true': True, 'yes': True, '1': True, 'on': True, 'false': False, '0': False, 'n': False, 'off': False}
    for name, vals in valid.items():
        for v in vals:
            res.case(('set-valid', name, v))
            before = snap()
            out, err, exc = sess.run(f'.set {name} "{v}"')
            after = snap()
            exp = dict(before)
            exp[name] = truth[v.lower()] if isinstance(DEFAULTS[name], bool) else v
            if exc is not None or err or after != exp:
                res.violation(f'h19:set-valid:{name}', '.set NAME VALUE changes exactly that setting when the value is valid for its type', {'setting': name, 'value': v}, (after, err, repr(exc)), exp)
            out, err, exc = sess.run(f'.set {name}')
            shown = ('true' if exp[name] else 'false') if isinstance(exp[name], bool) else repr(exp[name])
            if exc is not None or out.strip() != f'{name}: {shown}':
                res.violation(f'h19:set-echo:{name}', '.set NAME echoes the value back', {'setting': name, 'value': v}, out, f'{name}: {shown}')
    for name, vals in invalid.items():
        for v in vals:
            res.case(('set-invalid', name, v))
            before = snap()
            out, err, exc = sess.run(f'.set {name} "{v}"')
            if exc is not None or not err.strip() or snap() != before:
                res.violation(f'h19:set-invalid:{name}', 'invalid values produce an error message and change nothing', {'setting': name, 'value': v}, (snap() == before, err, repr(exc)), 'error, unchanged')
    for name in ['nosuch', 'todict', 'getstr', 'setstr', '_parse_bool', '__class__', 'Boxed']:
        for arg in ('', ' x', ' true'):
            res.case(('set-unknown', name, arg))
            before = snap()
            out, err, exc = sess.run(f'.set {name}{arg}')
            if exc is not None or not err.strip() or out.strip() or snap() != before:
                res.violation(f'h19:set-unknown:{name}', 'unknown settings produce an error message and change nothing', {'setting': name, 'arg': arg}, (out, err, repr(exc)), 'error, unchanged')
    # values are taken as typed (shell quoting aside): `#` is an ordinary character, in values and in names
    for line, name, want in [('.set nullvalue #N/A', 'nullvalue', '#N/A'), ('.set nullvalue n#a', 'nullvalue', 'n#a'), ('.set nullvalue "# x"', 'nullvalue', '# x'), ('.set nullvalue -', 'nullvalue', '-')]:
        res.case(('set-unquoted', line))
        before = snap()
        out, err, exc = sess.run(line)
        exp = dict(before)
        exp[name] = want
        if exc is not None or err.strip() or snap() != exp:
            res.violation('h19:set-unquoted:' + line, '.set NAME VALUE stores the value as typed', {'line': line}, (snap().get(name), err, repr(exc)), want)
    for line in ('.set boxed true # x', '.set #boxed', '.set #boxed true', '.set boxed#', '.set nullvalue a # b'):
        res.case(('set-hash-error', line))
        before = snap()
        out, err, exc = sess.run(line)
        if exc is not None or not err.strip() or out.strip() or snap() != before:
            res.violation('h19:set-hash-error:' + line, 'too many arguments and unknown names produce an error message and change nothing', {'line': line}, (out[:80], err[:120], repr(exc), snap() == before), 'error, unchanged')
    sess.run('.set nullvalue ""')
    # dispatch
    for line, kind in [('.nosuchcommand', 'error'), ('.select 1', 'error'), ('.SELECT account', 'error'), ('.tables', 'out'), ('.describe postings', 'out'), ('.explain SELECT 1', 'any'),
                       ('.set', 'out'), ('.set a b c', 'error'), ('.help', 'any'), ('.errors', 'any'), ('.parse SELECT 1', 'any')]:
        res.case(('dispatch', line))
        before = snap()
        out, err, exc = sess.run(line)
        bad = exc is not None or snap() != before
        if kind == 'error': bad = bad or not err.strip() or bool(out.strip())
        if kind == 'out': bad = bad or not out.strip()
        if bad:
            res.violation('h19:dispatch:' + line, 'dot-commands are never executed as queries; unknown commands produce an error message and change nothing', {'line': line}, (out[:120], err[:200], repr(exc)), kind)
    out, err, exc = sess.run('tables')   # not a dot command, not a legacy word: a query (syntax error), not the command
    res.case(('dispatch', 'tables'))
    if out.strip().startswith('accounts') and 'postings' in out:
        res.violation('h19:dispatch:query-as-command', 'queries are never executed as commands', {'line': 'tables'}, out[:100], 'syntax error')


def check_cli(res):
    from click.testing import CliRunner
    path = ledger_file()
    bad = ledger_file(BAD)
    runner = CliRunner(mix_stderr=False) if 'mix_stderr' in CliRunner.__init__.__code__.co_varnames else CliRunner()
    conn = beanquery.connect('beancount:' + path)
    q = 'SELECT account, sum(position) GROUP BY account ORDER BY account'
    want_text = api_render(conn, q, DEFAULTS)
    want_csv = api_render(conn, q, dict(DEFAULTS, format='csv'))
    want_num = api_render(conn, q, dict(DEFAULTS, numberify=True))
    for args, want, what in [([path, q], want_text, 'default'), (['-f', 'csv', path, q], want_csv, '-f csv'), (['-m', path, q], want_num, '-m'), (['--format', 'text', '--numberify', path, q], want_num, 'long options')]:
        res.case(('cli', what))
        r = runner.invoke(shell.main, args)
        if r.exit_code != 0 or r.stdout.replace('\r\n', '\n') != want.replace('\r\n', '\n'):
            res.violation('h19:cli:' + what, 'the command-line entry point applies its options as documented', {'args': [a if a != path else '<ledger>' for a in args]}, (r.exit_code, r.stdout[:200]), want[:200])
    res.case(('cli', '-o'))
    with tempfile.TemporaryDirectory() as d:
        target = os.path.join(d, 'out.txt')
        r = runner.invoke(shell.main, ['-o', target, path, q])
        got = open(target).read() if os.path.exists(target) else None
        if r.exit_code != 0 or got != want_text or r.stdout.strip():
            res.violation('h19:cli:-o', '-o redirects the result', {'args': ['-o', '<file>', '<ledger>', q]}, (r.exit_code, got and got[:100], r.stdout[:100]), want_text[:100])
    res.case(('cli', '-q'))
    r1 = runner.invoke(shell.main, [bad, 'SELECT count(*)'])
    r2 = runner.invoke(shell.main, ['-q', bad, 'SELECT count(*)'])
    e1 = getattr(r1, 'stderr', '') or ''
    e2 = getattr(r2, 'stderr', '') or ''
    if 'does not balance' not in (e1 + r1.stdout):
        res.violation('h19:cli:error-report', 'ledger errors are reported without -q', {'args': ['<bad ledger>', 'SELECT count(*)']}, (e1[:200], r1.stdout[:100]), 'error report')
    if 'does not balance' in (e2 + r2.stdout) or r2.stdout != r1.stdout.replace(e1, '') and 'does not balance' in r2.stdout:
        res.violation('h19:cli:-q', '-q suppresses the ledger error report', {'args': ['-q', '<bad ledger>', 'SELECT count(*)']}, (e2[:300]), 'no error report')


def run(tier, seed):
    res = Result('batch-mode sessions on ledger A with query directives: 8 statements x a settings grid (each boolean toggled, csv, numberify, nullvalue, combinations, seeded random) vs rendering the API '
                 'result; .run of named queries (with / without FROM / CLOSE); .set with valid / invalid values and unknown names (incl. method names of the settings object); command dispatch; '
                 'CLI options -f -m -o -q through click; distinct = (settings, statement) / command line')
    check_output(res, tier, seed)
    check_run(res)
    check_settings(res)
    check_cli(res)
    for f in _files.values():
        with contextlib.suppress(OSError):
            os.unlink(f)
    _files.clear()
    return res.asdict()


def replay(case):
    r = Result()
    if 'settings' in case: check_output(r, 'quick', 0)
    elif 'run' in case: check_run(r)
    elif 'args' in case: check_cli(r)
    else: check_settings(r)
    hit = [v for v in r.violations if v['case'] == case] or [v for v in r.violations if v['case'].get('statement') == case.get('statement') and case.get('statement')]
    return {'status': 'reproduced' if hit else 'not-reproduced', 'detail': repr(hit[:1])[:700]}
