"""C01 bounded native harness: Connection.execute against the reference semantics (harness/refsem.py)
for enumerated typed expression trees as targets and as WHERE / FROM conditions, plus the registry
sweep and the overload-lookup contract."""
import itertools
import random
from decimal import Decimal

from harness.common import make_conn, Result, pmap
from harness import refsem as R

TYPES = [R.INT, R.DEC, R.STR, R.DATE, R.BOOL]


def conn_for(rows):
    return make_conn(t=(R.COLUMNS, rows))


def eval_targets(exprs, rows):
    conn = conn_for(rows)
    text = 'SELECT ' + ', '.join(R.to_bql(e) for e in exprs) + ' FROM #t'
    curs = conn.execute(text)
    return curs.fetchall(), text


def check_batch(item):
    """-> list of violations (clause, case, observed, expected)"""
    exprs, rowsel = item
    rows = [R.ROWS[k] for k in rowsel]
    out = []
    try:
        got, text = eval_targets(exprs, rows)
    except Exception as e:  # narrow down
        if len(exprs) == 1:
            return [('well-typed expression is accepted and evaluates without error', {'expr': R.to_bql(exprs[0]), 'rows': list(rowsel)},
                     f'{type(e).__name__}: {e}', 'a value')]
        for e1 in exprs:
            out += check_batch(([e1], rowsel))
        return out
    rds = R.row_dicts(rows)
    if len(got) != len(rows):
        return [('one result row per source row (no WHERE)', {'exprs': len(exprs), 'rows': list(rowsel)}, len(got), len(rows))]
    for k, e in enumerate(exprs):
        for rk, (rd, grow) in enumerate(zip(rds, got)):
            try:
                exp = R.ref(e, rd)
            except Exception as ex:  # reference raises: the expression is outside the total fragment
                continue
            if not R.same(grow[k], exp):
                out.append(('cell equals the value of its target expression under BQL operator semantics',
                            {'expr': R.to_bql(e), 'row': rd}, grow[k], exp))
                break
    return out


def check_where(item):
    e, rowsel, as_from = item
    rows = [R.ROWS[k] for k in rowsel]
    conn = conn_for(rows)
    text = f'SELECT i, s, d FROM #t WHERE {R.to_bql(e)}'
    try:
        got = conn.execute(text).fetchall()
    except Exception as ex:
        return [('WHERE condition accepted and evaluated', {'query': text}, f'{type(ex).__name__}: {ex}', 'rows')]
    exp = []
    for r, rd in zip(rows, R.row_dicts(rows)):
        try:
            v = R.ref(e, rd)
        except Exception:
            return []
        if v is not None and v is not False and v:
            exp.append((rd['i'], rd['s'], rd['d']))
    if got != exp:
        return [('exactly the rows whose condition is true, in source order (NULL and false exclude)', {'query': text, 'rows': list(rowsel)}, got, exp)]
    return []


def registry_sweep(res):
    from beanquery import query_compile as qc
    from beanquery.parser import ast
    import datetime
    nullsafe_ok = {ast.Not, ast.IsNull, ast.IsNotNull}
    n = 0
    for op, impls in qc.OPERATORS.items():
        for impl in impls:
            n += 1
            res.case(('registry', op.__name__, impl.__name__))
            if issubclass(impl, qc.EvalUnaryOp) and not issubclass(impl, qc.EvalUnaryOpSafe) and op not in nullsafe_ok:
                res.violation(f'h01:registry:nullsafe:{impl.__name__}', 'only NOT / IS NULL / IS NOT NULL see NULL operands',
                              {'operator': impl.__name__}, 'EvalUnaryOp (not NULL-strict)', 'EvalUnaryOpSafe')
            if not issubclass(impl, (qc.EvalUnaryOp, qc.EvalBinaryOp, qc.EvalBetween)):
                res.violation(f'h01:registry:base:{impl.__name__}', 'operator implementations derive from the NULL-propagating node classes',
                              {'operator': impl.__name__}, impl.__mro__, 'EvalUnaryOp/EvalBinaryOp/EvalBetween')
    pairs = [[int, int], [Decimal, int], [int, Decimal], [Decimal, Decimal], [datetime.date, datetime.date], [str, str]]
    for op in (ast.Equal, ast.NotEqual, ast.Greater, ast.GreaterEq, ast.Less, ast.LessEq):
        have = [i.__intypes__ for i in qc.OPERATORS[op]]
        for p in pairs:
            res.case(('registry-cmp', op.__name__, str(p)))
            if have.count(p) != 1:
                res.violation(f'h01:registry:cmp:{op.__name__}:{p}', 'comparison overloads exist for the six operand pairs',
                              {'op': op.__name__, 'pair': str(p)}, have.count(p), 1)
    # typing of arithmetic overloads: int/int division is decimal, int-decimal mixes promote
    for op in (ast.Add, ast.Sub, ast.Mul, ast.Div, ast.Mod):
        for impl in qc.OPERATORS[op]:
            it = impl.__intypes__
            if set(it) <= {int, Decimal}:
                node = impl(qc.EvalConstant(it[0](3)), qc.EvalConstant(it[1](2)))
                exp = Decimal if (Decimal in it or op is ast.Div) else int
                res.case(('registry-typing', impl.__name__))
                v = node(None)
                if node.dtype is not exp or type(v) is not exp:
                    res.violation(f'h01:registry:typing:{impl.__name__}', 'int/decimal mixes promote to decimal; int/int division is decimal',
                                  {'operator': impl.__name__}, (node.dtype, type(v)), exp)
    return n


def lookup_contract(res, rng, n):
    """types.function_lookup returns the first registry entry matching the first signature in
    itertools.product order of the operands' bases; None otherwise."""
    from beanquery import types

    class A: pass
    class B(A): pass
    class C(B): pass
    pool = [int, str, bool, A, B, C, object, Decimal]

    class Op:
        def __init__(self, dtype): self.dtype = dtype

    class F:
        def __init__(self, it): self.__intypes__ = it

    def bases(t):
        if t is type(None): return (object,)
        m = t.__mro__
        return m[:-1] if len(m) > 1 and m[-1] is object else m
    for _ in range(n):
        arity = rng.randint(0, 2)
        funcs = [F([rng.choice(pool + [types.Any]) for _ in range(arity)]) for _ in range(rng.randint(0, 5))]
        operands = [Op(rng.choice(pool + [type(None)])) for _ in range(arity)]
        exp = None
        for sig in itertools.product(*[bases(o.dtype) for o in operands]):
            for f in funcs:
                if f.__intypes__ == list(sig):
                    exp = f
                    break
            if exp is not None:
                break
        got = types.function_lookup({'f': funcs}, 'f', operands)
        res.case(('lookup', tuple(str(f.__intypes__) for f in funcs), tuple(o.dtype.__name__ for o in operands)))
        if got is not exp:
            res.violation('h01:function_lookup', 'overload lookup: first entry matching the first signature in MRO-product order',
                          {'funcs': [str(f.__intypes__) for f in funcs], 'operands': [o.dtype.__name__ for o in operands]},
                          getattr(got, '__intypes__', None), getattr(exp, '__intypes__', None))


def from_and_where(res):
    """FROM <expression> and WHERE <expression> together keep exactly the rows both keep (NULL and false both exclude), whatever
    the top-level operator of either expression (OR, COALESCE, NOT, AND, a bare column)"""
    from harness import ledger
    conn = ledger.connect(ledger.LEDGER_A)
    base = 'SELECT id, account, number, currency'
    froms = ['year = 2020', 'month = 1 OR month = 2', "NOT flag = '!'", "coalesce(payee ~ 'B', FALSE)", 'day > 5 AND day < 25']
    wheres = ["account ~ 'Assets' OR number > 100", "coalesce(number < 0, TRUE)", "NOT account ~ 'Expenses'", "account ~ 'Assets' AND number > 0",
              "number > 50 OR currency = 'HOOL' OR account ~ 'Income'", "coalesce(cost_number > 0, number > 0, FALSE)"]
    key = lambda r: (r[0], r[1], r[2], r[3])
    for f in froms:
        try:
            only_f = conn.execute(f'{base} FROM {f}').fetchall()
        except Exception as e:  # noqa
            res.violation('h01:from-where:from:' + f, 'FROM expression executes', {'from': f}, f'{type(e).__name__}: {e}', 'rows')
            continue
        for w in wheres:
            res.case(('from-where', f, w), {'from': f, 'where': w})
            try:
                only_w = conn.execute(f'{base} WHERE {w}').fetchall()
                both = conn.execute(f'{base} FROM {f} WHERE {w}').fetchall()
            except Exception as e:  # noqa
                res.violation('h01:from-where:' + f + ':' + w, 'FROM and WHERE together execute', {'from': f, 'where': w}, f'{type(e).__name__}: {e}', 'rows')
                continue
            keep = {key(r) for r in only_w}
            want = [r for r in only_f if key(r) in keep]
            if [tuple(r) for r in both] != [tuple(r) for r in want]:
                res.violation('h01:from-where:' + f + ':' + w, 'a row is kept exactly when the FROM condition and the WHERE condition are both true, in source order',
                              {'from': f, 'where': w}, (len(both), [tuple(r) for r in both][:3]), (len(want), [tuple(r) for r in want][:3]))


def regex_and_constants(res):
    """the match operators are regular-expression searches (case-insensitive) whatever the pattern looks like - escapes, classes,
    anchors, plain text; and NULL-aware operators on constant NULLs follow the truth tables"""
    import re
    conn = conn_for(R.ROWS)
    names = list(R.COLTYPES)
    si, ui = names.index('s'), names.index('u')
    pats = ['\\w\\w\\w', '\\d', 'a\\.c', '\\bb\\b', '^a', 'c$', 'B', 'b|y', '[xy]', 'a.c', '\\s', 'ab?c', '']
    for pat in pats:
        pyp = pat.replace('\\\\', '\\')
        for col, ci in (('s', si), ('u', ui)):
            for op, neg in (('~', False), ('!~', True)):
                q = f"SELECT {col} {op} '{pyp}' FROM #t"
                res.case(('regex', q), {'query': q})
                try:
                    got = [r[0] for r in conn.execute(q).fetchall()]
                except Exception as e:  # noqa
                    res.violation('h01:regex:' + q, 'match operators execute for every regular expression', {'query': q}, f'{type(e).__name__}: {e}', 'values')
                    continue
                want = []
                for row in R.ROWS:
                    v = row[ci]
                    if v is None:
                        want.append(None)
                    else:
                        m = bool(re.search(pyp, v, re.IGNORECASE))
                        want.append((not m) if neg else m)
                if got != want:
                    res.violation('h01:regex:' + q, 'x ~ p is a case-insensitive regular expression search of p in x, NULL if either is NULL; !~ its negation', {'query': q}, got, want)
    from harness.h09 import check_const_truth
    check_const_truth(res)
    # constant operands whose value is NULL but whose type is known (a division by zero, a failed cast) next to columns: what the
    # compiler may do with constants at compile time never changes the value of the expression
    di, ii, ei = names.index('d'), names.index('i'), names.index('e')
    nn = lambda f: (lambda row: None if any(row[k] is None for k in f[0]) else f[1](row))
    for q, fn in [('coalesce(1 / 0, d)', lambda r: r[di]), ('coalesce(d, 1 / 0, 2.5)', lambda r: r[di] if r[di] is not None else Decimal('2.5')),
                  ("coalesce(int('x'), i)", lambda r: r[ii]), ('coalesce(1 / 0, 2.5 % 0, e)', lambda r: r[ei]), ('coalesce(d, e)', lambda r: r[di] if r[di] is not None else r[ei]),
                  ('i * 0', nn(((ii,), lambda r: 0))), ('0 * d', nn(((di,), lambda r: r[di] * 0))), ('d * 0.0', nn(((di,), lambda r: r[di] * Decimal('0.0')))),
                  ('i * 0 = 0', nn(((ii,), lambda r: True))), ('(i * 0) IS NULL', lambda r: r[ii] is None), ('i + 0', nn(((ii,), lambda r: r[ii]))), ('d - d', nn(((di,), lambda r: r[di] - r[di]))),
                  ('NOT (i = 1)', lambda r: True if r[ii] is None else r[ii] != 1), ('NOT (d < e)', lambda r: True if r[di] is None or r[ei] is None else not (r[di] < r[ei])),
                  ('NOT (i != 1)', lambda r: True if r[ii] is None else r[ii] == 1), ('NOT (i >= j)', lambda r: True if r[ii] is None or r[names.index('j')] is None else not (r[ii] >= r[names.index('j')]))]:
        stmt = f'SELECT {q} FROM #t'
        res.case(('constants-next-to-columns', stmt), {'query': stmt})
        try:
            got = [r[0] for r in conn.execute(stmt).fetchall()]
        except Exception as e:  # noqa
            res.violation('h01:constants-next-to-columns:' + q, 'the statement executes', {'query': stmt}, f'{type(e).__name__}: {e}', 'values')
            continue
        want = [fn(row) for row in R.ROWS]
        if got != want:
            res.violation('h01:constants-next-to-columns:' + q, 'cell equals the value of its target expression under BQL operator semantics (NULL-typed constants, zero factors, NOT over comparisons)', {'query': stmt}, got, want)


def build_items(tier, seed):
    rng = random.Random(seed)
    allrows = tuple(range(len(R.ROWS)))
    batches = []
    n2 = 60 if tier == 'quick' else 600
    for t in TYPES:
        d1 = R.depth1(t)
        d2 = R.depth2_sample(t, rng, n2)
        exprs = d1 + d2
        for k in range(0, len(exprs), 12):
            batches.append((exprs[k:k + 12], allrows))
    # row-count scopes: empty table, single rows
    some = [rng.choice(R.depth1(t)) for t in TYPES for _ in range(4)]
    batches.append((some, ()))
    for k in range(len(R.ROWS)):
        batches.append((some, (k,)))
    wheres = []
    bools = R.depth1(R.BOOL)
    rng.shuffle(bools)
    for e in bools[:150 if tier == 'quick' else 1500] + R.depth2_sample(R.BOOL, rng, 50 if tier == 'quick' else 500):
        wheres.append((e, allrows, False))
    for e in bools[:10]:
        wheres.append((e, (), False))
    return batches, wheres


def run(tier, seed):
    res = Result('targets: every one-level operator/function over every column/constant leaf of each operand type (exhaustive depth 1), '
                 'sampled depth-2 trees; WHERE: sampled boolean trees; tables: 7 rows mixing values and NULLs, empty and single-row tables; '
                 'distinct = distinct (expression, row selection)')
    batches, wheres = build_items(tier, seed)
    for (exprs, rowsel), bad in zip(batches, pmap(check_batch, batches, chunk=4)):
        for e in exprs:
            res.case((R.to_bql(e), rowsel), {'target': R.to_bql(e), 'rows': len(rowsel)})
        for clause, case, obs, exp in bad:
            res.violation('h01:' + clause + ':' + str(case.get('expr', ''))[:80], clause, case, obs, exp)
    for (e, rowsel, _), bad in zip(wheres, pmap(check_where, wheres, chunk=8)):
        res.case(('where', R.to_bql(e), rowsel), {'where': R.to_bql(e)})
        for clause, case, obs, exp in bad:
            res.violation('h01:' + clause + ':' + case['query'][:100], clause, case, obs, exp)
    registry_sweep(res)
    lookup_contract(res, random.Random(seed), 300 if tier == 'quick' else 5000)
    from_and_where(res)
    regex_and_constants(res)
    res.scopes = {'depth1_exhaustive': True, 'rows': len(R.ROWS)}
    return res.asdict()


def replay(case):
    if 'expr' in case or 'query' in case:
        conn = conn_for(R.ROWS)
        q = case.get('query') or f"SELECT {case['expr']} FROM #t"
        try:
            got = conn.execute(q).fetchall()
            return {'status': 'reproduced', 'detail': {'query': q, 'rows': repr(got)[:500], 'note': 'compare with expected in the record'}}
        except Exception as e:
            return {'status': 'reproduced', 'detail': f'{type(e).__name__}: {e}'}
    r = Result()
    registry_sweep(r)
    lookup_contract(r, random.Random(0), 300)
    return {'status': 'reproduced' if r.violations else 'not-reproduced', 'detail': r.violations[:2]}
