"""C12 bounded native harness: inventory sums are homomorphic; the running balance is the prefix sum."""
import datetime
import itertools

from beancount.core import data, position, inventory, convert, prices

from harness.common import Result
from harness import ledger

FILTERS = [None, "account ~ 'Assets'", "currency = 'USD'", "account ~ 'Stock|Broker'", "year = 2021 AND month = 1", "number > 0", "account = 'Nosuch'", "payee = 'Buy' OR payee = 'Broker'",
           # conditions that are NULL for some postings (no cost / no price): NULL excludes the posting, in aggregate queries as in plain ones
           "cost_number > 50", "cost_currency = 'USD' AND number > 0", "NOT (cost_number > 50)"]


def pred(f):
    import re
    return {
        None: lambda e, p: True, "account ~ 'Assets'": lambda e, p: bool(re.search('Assets', p.account, re.I)),
        "currency = 'USD'": lambda e, p: p.units.currency == 'USD', "account ~ 'Stock|Broker'": lambda e, p: bool(re.search('Stock|Broker', p.account, re.I)),
        "year = 2021 AND month = 1": lambda e, p: e.date.year == 2021 and e.date.month == 1, "number > 0": lambda e, p: p.units.number > 0,
        "account = 'Nosuch'": lambda e, p: False, "payee = 'Buy' OR payee = 'Broker'": lambda e, p: e.payee in ('Buy', 'Broker'),
        "cost_number > 50": lambda e, p: p.cost is not None and p.cost.number > 50,
        "cost_currency = 'USD' AND number > 0": lambda e, p: p.cost is not None and p.cost.currency == 'USD' and p.units.number > 0,
        "NOT (cost_number > 50)": lambda e, p: p.cost is None or not (p.cost.number > 50),      # NOT NULL is TRUE
    }[f]


def inv_of(positions):
    inv = inventory.Inventory()
    for p in positions:
        inv.add_position(p)
    return inv


def check_ledger(res, name, src):
    entries, _, options = ledger.load(src)
    conn = ledger.connect(src)
    pm = prices.build_price_map(entries)
    posts = [(e, p) for e in entries if isinstance(e, data.Transaction) for p in e.postings]
    for f in FILTERS:
        where = f' WHERE {f}' if f else ''
        sel = [(e, p) for e, p in posts if pred(f)(e, p)]
        total = inv_of(position.Position(p.units, p.cost) for e, p in sel)
        # sum == beancount inventory sum
        res.case((name, 'sum', f))
        got = conn.execute(f'SELECT sum(position) FROM #postings{where}').fetchall()
        if (got[0][0] if got else inventory.Inventory()) != total:
            res.violation(f'h12:sum:{f}', 'sum(position) equals the Beancount inventory sum of the selected postings', {'ledger': name, 'where': f}, got, total)
        # homomorphisms
        homs = [('units', lambda inv: inv.reduce(convert.get_units)), ('cost', lambda inv: inv.reduce(convert.get_cost)),
                ('value', lambda inv: inv.reduce(convert.get_value, pm, None))]
        for fn, ref in homs:
            res.case((name, fn, f))
            a = conn.execute(f'SELECT {fn}(sum(position)) FROM #postings{where}').fetchall()
            b = conn.execute(f'SELECT sum({fn}(position)) FROM #postings{where}').fetchall()
            av = a[0][0] if a else inventory.Inventory()
            bv = b[0][0] if b else inventory.Inventory()
            if av != bv or av != ref(total):
                res.violation(f'h12:hom:{fn}:{f}', f'{fn}(sum(x)) equals sum({fn}(x)) and the Beancount reduction', {'ledger': name, 'where': f, 'fn': fn}, (av, bv), ref(total))
        # USD: priced directly; CAD: only USD is priced in CAD, so lots held at cost in USD convert through their cost currency
        for cur in ('USD', 'CAD'):
            res.case((name, 'convert', cur, f))
            a = conn.execute(f"SELECT convert(sum(position), '{cur}') FROM #postings{where}").fetchall()
            b = conn.execute(f"SELECT sum(convert(position, '{cur}')) FROM #postings{where}").fetchall()
            c = conn.execute(f"SELECT last(convert(balance, '{cur}')) FROM #postings{where}").fetchall()
            av = a[0][0] if a else inventory.Inventory()
            if av != (b[0][0] if b else inventory.Inventory()) or (c and c[0][0] is not None and av != c[0][0]):
                res.violation(f'h12:hom:convert:{cur}:{f}', 'convert(sum(x), c) equals sum(convert(x, c)) and convert of the final running balance',
                              {'ledger': name, 'where': f, 'fn': 'convert', 'currency': cur}, (a, c), b)
        # partition additivity
        for key in ('account', 'currency', 'year, month', 'payee'):
            res.case((name, 'partition', key, f))
            parts = conn.execute(f'SELECT sum(position) FROM #postings{where} GROUP BY {key}').fetchall()
            comb = inventory.Inventory()
            for (inv,) in parts:
                comb.add_inventory(inv)
            if comb != total:
                res.violation(f'h12:partition:{key}:{f}', 'sums over any partition of the selection add up to the sum of the whole', {'ledger': name, 'where': f, 'key': key}, comb, total)
        # LIMIT cuts the list of groups, it never truncates the sums inside a group
        for key in ('account', 'currency'):
            full = conn.execute(f'SELECT {key}, sum(position), count(*) FROM #postings{where} GROUP BY {key}').fetchall()
            for n in (1, 2):
                res.case((name, 'group-limit', key, n, f))
                cut = conn.execute(f'SELECT {key}, sum(position), count(*) FROM #postings{where} GROUP BY {key} LIMIT {n}').fetchall()
                if [tuple(r) for r in cut] != [tuple(r) for r in full[:n]]:
                    res.violation(f'h12:group-limit:{key}:{f}', 'GROUP BY ... LIMIT n returns the first n groups with their complete sums', {'ledger': name, 'where': f, 'key': key, 'limit': n},
                                  [tuple(r) for r in cut][:2], [tuple(r) for r in full[:n]][:2])
        # running balance
        prefix, run = [], inventory.Inventory()
        for e, p in sel:
            run.add_position(p)
            prefix.append(inventory.Inventory(run))
        for targets, nbal in (('balance', 1), ('position, balance', 1), ('balance, balance', 2), ('balance, units(balance), account, balance', 3),
                              ('account', 0), ('balance, cost(balance), balance, balance', 4)):
            res.case((name, 'balance', targets, f))
            rows = conn.execute(f'SELECT {targets} FROM #postings{where}').fetchall()
            if nbal == 0:
                continue
            idxs = [i for i, t in enumerate(targets.split(', ')) if t == 'balance']
            bad = None
            if len(rows) != len(prefix):
                bad = (len(rows), len(prefix))
            else:
                for r, want in zip(rows, prefix):
                    for i in idxs:
                        if r[i] != want:
                            bad = (r[i], want)
                            break
                    if bad:
                        break
            if bad:
                res.violation(f'h12:balance:{targets}', 'balance of a selected posting is the inventory sum of position over the selected postings up to and including it, however many times it is referenced', {'ledger': name, 'where': f, 'targets': targets}, bad[0], bad[1])
        if rows and prefix:
            res.case((name, 'last-balance', f))
            last = conn.execute(f'SELECT last(balance), sum(position) FROM #postings{where}').fetchall()
            if last and last[0][0] != last[0][1]:
                res.violation('h12:last-balance', 'the last balance equals sum(position) of the same selection', {'ledger': name, 'where': f}, last[0][0], last[0][1])
    # a condition that consults the balance: the sum over all postings scanned so far
    res.case((name, 'balance-in-where'))
    rows = conn.execute("SELECT account, balance FROM #postings WHERE NOT empty(balance) AND currency = 'USD'").fetchall()
    run, want = inventory.Inventory(), []
    for e, p in posts:
        run.add_position(p)
        if not run.is_empty() and p.units.currency == 'USD':
            want.append((p.account, inventory.Inventory(run)))
    if [tuple(r) for r in rows] != want:
        res.violation('h12:balance-in-where', 'when a condition consults balance it is the sum over all postings scanned so far', {'ledger': name}, rows[:2], want[:2])
    # another scan evaluated in between two references of the balance in one row
    res.case((name, 'balance-with-nested-scan'))
    q = "SELECT balance, account IN (SELECT account FROM #postings WHERE NOT empty(balance)), balance FROM #postings"
    rows = conn.execute(q).fetchall()
    run, bad = inventory.Inventory(), None
    for (e, p), r in zip(posts, rows):
        run.add_position(p)
        if r[0] != run or r[2] != run:
            bad = (r[0], r[2], inventory.Inventory(run))
            break
    if bad or len(rows) != len(posts):
        res.violation('h12:balance-with-nested-scan', 'balance is added once per row however many times the targets reference it (another scan evaluated in between)', {'ledger': name, 'query': q}, bad, 'prefix sums')


def check_dated_and_null(res, name, src):
    """dated valuation commutes with sum like the undated one; the sum of a group without non-NULL values is the empty inventory"""
    entries, _, options = ledger.load(src)
    conn = ledger.connect(src)
    pm = prices.build_price_map(entries)
    posts = [(e, p) for e in entries if isinstance(e, data.Transaction) for p in e.postings]
    total = inv_of(position.Position(p.units, p.cost) for e, p in posts)
    price_dates = sorted({e.date for e in entries if isinstance(e, data.Price)})
    probes = [d for pd in price_dates for d in (pd - datetime.timedelta(days=1), pd, pd + datetime.timedelta(days=5))][:9]
    for d in probes:
        res.case((name, 'value-dated', d.isoformat()))
        a = conn.execute(f'SELECT value(sum(position), {d.isoformat()}) FROM #postings').fetchall()
        b = conn.execute(f'SELECT sum(value(position, {d.isoformat()})) FROM #postings').fetchall()
        want = total.reduce(convert.get_value, pm, d)
        av, bv = (a[0][0] if a else inventory.Inventory()), (b[0][0] if b else inventory.Inventory())
        if av != bv or av != want:
            res.violation(f'h12:hom:value-dated:{d.isoformat()}', 'value(sum(x), date) equals sum(value(x, date)) and the Beancount valuation at that date', {'ledger': name, 'date': d.isoformat()}, (av, bv), want)
    # groups in which the summed expression is NULL on every row
    for q, what in [("SELECT account, sum(price) FROM #postings GROUP BY account", 'price'), ("SELECT account, sum(cost(position)), sum(price) FROM #postings WHERE price IS NULL GROUP BY account", 'price'),
                    ("SELECT sum(price), count(price) FROM #postings WHERE price IS NULL", 'price')]:
        res.case((name, 'sum-null-group', q))
        rows = conn.execute(q).fetchall()
        bad = [tuple(r) for r in rows if any(v is None for v in r[1 if 'GROUP' in q else 0:])]
        if bad:
            res.violation('h12:sum-null-group:' + q[:60], 'the sum over a group without non-NULL values is the empty inventory (the neutral element), never NULL', {'ledger': name, 'query': q}, bad[:2], 'empty inventory')


def check_balance_under_null_arguments(res, name, src):
    """the running balance advances with every selected posting, also when the only reference to it is an argument of a function
    whose other argument is NULL on that row (the function yields NULL there, the posting still counts)"""
    entries, _, options = ledger.load(src)
    conn = ledger.connect(src)
    posts = [(e, p) for e in entries if isinstance(e, data.Transaction) for p in e.postings]
    res.case((name, 'balance-under-null-argument'))
    rows = conn.execute('SELECT cost_currency, only(cost_currency, balance), currency FROM #postings').fetchall()
    run, want = inventory.Inventory(), []
    for e, p in posts:
        run.add_position(p)
        cc = p.cost.currency if p.cost else None
        want.append((cc, run.get_currency_units(cc) if cc is not None else None, p.units.currency))
    if [tuple(r) for r in rows] != want:
        k = next((i for i, (a, b) in enumerate(zip(rows, want)) if tuple(a) != b), None)
        res.violation('h12:balance-under-null-argument', 'the running balance is the prefix sum of the selected postings whatever expression consults it', {'ledger': name, 'row': k},
                      tuple(rows[k]) if k is not None else len(rows), want[k] if k is not None else len(want))


def check_target_currency_at_cost(res):
    """conversion reduces lots to plain units also when they are already in the target currency: convert commutes with sum"""
    import beanquery
    from beancount.core import amount as _amount
    entries, errors, options = ledger.load(ledger.LEDGER_B)
    D_ = __import__('decimal').Decimal
    legs = [data.Posting('Assets:Cash', _amount.Amount(D_('100'), 'USD'), position.Cost(D_('1.30'), 'CAD', datetime.date(2021, 2, 1), None), None, None, None),
            data.Posting('Assets:Cash', _amount.Amount(D_('50'), 'USD'), position.Cost(D_('1.25'), 'CAD', datetime.date(2021, 2, 2), None), None, None, None),
            data.Posting('Equity:Open', _amount.Amount(D_('-192.50'), 'CAD'), None, None, None, None)]
    txn = data.Transaction({'filename': '<synthetic>', 'lineno': 2}, datetime.date(2021, 2, 2), '*', None, 'foreign cash at cost', frozenset(), frozenset(), legs)
    conn = beanquery.connect('beancount:', entries=data.sorted(list(entries) + [txn]), errors=[], options=options)
    for where in ("narration = 'foreign cash at cost' AND currency = 'USD'", "account = 'Assets:Cash'"):
        res.case(('synthetic', 'convert-target-currency-at-cost', where))
        a = conn.execute(f"SELECT convert(sum(position), 'USD') FROM #postings WHERE {where}").fetchall()
        b = conn.execute(f"SELECT sum(convert(position, 'USD')) FROM #postings WHERE {where}").fetchall()
        c = conn.execute(f"SELECT last(convert(balance, 'USD')) FROM #postings WHERE {where}").fetchall()
        if a != b or a != c:
            res.violation('h12:synthetic:convert-at-cost', 'convert(sum(x), c) equals sum(convert(x, c)) and convert of the final balance, also for lots of c held at cost', {'where': where}, (a, c), b)


def check_synthetic(res):
    """recurring transactions built programmatically share their postings (entry._replace(date=...)); equal postings that follow
    each other in a selection are still separate postings: the running balance is the prefix sum, its last value the sum"""
    import beanquery
    entries, errors, options = ledger.load(ledger.LEDGER_A)
    base = next(e for e in entries if isinstance(e, data.Transaction) and e.narration == 'apples')
    extra = [base._replace(date=base.date + datetime.timedelta(days=30 * k), meta=dict(base.meta, lineno=9000 + k)) for k in (1, 2, 3)]
    allentries = data.sorted(list(entries) + extra)
    conn = beanquery.connect('beancount:', entries=allentries, errors=[], options=options)
    for where in ("account ~ 'Expenses:Food$'", "narration = 'apples'", None):
        res.case(('synthetic', 'balance', where))
        w = f' WHERE {where}' if where else ''
        rows = conn.execute(f'SELECT position, balance FROM #postings{w}').fetchall()
        run, ok = inventory.Inventory(), True
        for pos, bal in rows:
            run.add_position(pos)
            if bal != run:
                ok = False
                break
        tot = conn.execute(f'SELECT sum(position) FROM #postings{w}').fetchall()
        if not ok or (rows and tot and rows[-1][1] != tot[0][0]):
            res.violation(f'h12:synthetic:balance:{where}', 'the running balance is the prefix sum of the selected postings, its last value the sum (postings equal by value are separate postings)',
                          {'ledger': 'A + a transaction repeated with shared postings', 'where': where}, (rows[-1][1] if rows else None), (tot[0][0] if tot else None))


def check_zero_cost(res):
    """lots held at zero cost (granted shares): cost() of the lot is 0 in the cost currency, and cost(sum(x)) == sum(cost(x))"""
    import beanquery
    from decimal import Decimal as _D
    from beancount.core import amount as _amount
    entries, errors, options = ledger.load(ledger.LEDGER_A)
    zero = position.Cost(_D('0.00'), 'USD', datetime.date(2020, 3, 5), None)
    legs = [data.Posting('Assets:Broker', _amount.Amount(_D('5'), 'HOOL'), zero, None, None, {'filename': 's', 'lineno': 1}),
            data.Posting('Income:Salary', _amount.Amount(_D('0'), 'USD'), None, None, None, {'filename': 's', 'lineno': 2})]
    txn = data.Transaction({'filename': 's', 'lineno': 1}, datetime.date(2020, 3, 5), '*', 'Employer', 'granted shares', frozenset(), frozenset(), legs)
    conn = beanquery.connect('beancount:', entries=data.sorted(list(entries) + [txn]), errors=[], options=options)
    res.case(('zero-cost', 'cost-of-lot'))
    got = conn.execute("SELECT cost(position) FROM #postings WHERE narration = 'granted shares' AND currency = 'HOOL'").fetchall()
    if [tuple(r) for r in got] != [(_amount.Amount(_D('0.00'), 'USD'),)]:
        res.violation('h12:zero-cost:cost-of-lot', 'cost() of a lot held at zero cost is zero in the cost currency', {'lot': '5 HOOL {0.00 USD}'}, got, '0.00 USD')
    for where in ("narration = 'granted shares'", "account ~ 'Broker'", None):
        res.case(('zero-cost', 'hom', where))
        w = f' WHERE {where}' if where else ''
        a = conn.execute(f'SELECT cost(sum(position)) FROM #postings{w}').fetchall()
        b = conn.execute(f'SELECT sum(cost(position)) FROM #postings{w}').fetchall()
        if a != b:
            res.violation(f'h12:zero-cost:hom:{where}', 'cost(sum(x)) equals sum(cost(x)) also for lots held at zero cost', {'where': where}, a, b)


def check_inventory_columns(res, name, src):
    """sum() over an inventory-typed column (subquery output, user table): accumulators never alias row data"""
    conn = ledger.connect(src)
    inner = 'SELECT account, sum(position) AS inv GROUP BY account'
    rows = conn.execute(inner).fetchall()
    total = inventory.Inventory()
    for _, i in rows:
        total.add_inventory(i)
    res.case((name, 'sum-of-inventory-column'))
    q = f'SELECT sum(inv), units(sum(inv)), cost(sum(inv)), sum(inv) FROM ({inner})'
    got = conn.execute(q).fetchall()
    want = (total, total.reduce(convert.get_units), total.reduce(convert.get_cost), total)
    if not got or tuple(got[0]) != want:
        res.violation('h12:sum-inventory-column-several-aggregates', 'sum() over an inventory column equals the inventory sum however many aggregates read the column', {'ledger': name, 'query': q}, got[0] if got else None, want)
    from harness.common import MemTable
    cells = [(a, inventory.Inventory(i)) for a, i in rows]
    snapshot = [(a, inventory.Inventory(i)) for a, i in cells]
    conn.tables['m'] = MemTable('m', [('account', str), ('inv', inventory.Inventory)], cells)
    res.case((name, 'user-table-of-inventories'))
    parts = conn.execute('SELECT root(account, 1), sum(inv) FROM #m GROUP BY 1').fetchall()
    tot2 = conn.execute('SELECT sum(inv) FROM #m').fetchall()
    comb = inventory.Inventory()
    for _, i in parts:
        comb.add_inventory(i)
    if comb != total or not tot2 or tot2[0][0] != total or cells != snapshot:
        res.violation('h12:inventory-rows-mutated', 'executing never mutates the source data; partition sums add up to the whole (user table holding inventories)', {'ledger': name}, (comb, tot2, cells != snapshot), total)


def run(tier, seed):
    res = Result('ledgers A and B (multi-currency, lots at cost with dates, sales reducing lots, price conversions) x 8 selections x {sum, units, cost, value, convert} '
                 'homomorphisms x 4 partitions x 6 target lists mentioning balance 0-4 times; balance in WHERE; nested scan between two balance references; '
                 'distinct = (ledger, check, selection)')
    check_ledger(res, 'A', ledger.LEDGER_A)
    check_ledger(res, 'B', ledger.LEDGER_B)
    check_inventory_columns(res, 'A', ledger.LEDGER_A)
    check_inventory_columns(res, 'B', ledger.LEDGER_B)
    check_dated_and_null(res, 'A', ledger.LEDGER_A)
    check_dated_and_null(res, 'B', ledger.LEDGER_B)
    check_synthetic(res)
    check_zero_cost(res)
    check_balance_under_null_arguments(res, 'A', ledger.LEDGER_A)
    check_balance_under_null_arguments(res, 'B', ledger.LEDGER_B)
    check_target_currency_at_cost(res)
    return res.asdict()


def replay(case):
    r = Result()
    check_ledger(r, case.get('ledger', 'B'), ledger.LEDGER_A if case.get('ledger') == 'A' else ledger.LEDGER_B)
    check_inventory_columns(r, case.get('ledger', 'B'), ledger.LEDGER_A if case.get('ledger') == 'A' else ledger.LEDGER_B)
    hit = [v for v in r.violations if v['case'] == case]
    return {'status': 'reproduced' if hit else 'not-reproduced', 'detail': repr(hit[:1])[:600]}
