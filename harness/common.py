"""Shared native harness helpers (run under /venv/bin/python with /repo importable)."""
import datetime
import itertools
import random
from decimal import Decimal

import beanquery
from beanquery import query_compile, tables
import beanquery.query_env  # noqa: F401  (registers functions and operators)


class Col(query_compile.EvalColumn):
    __slots__ = ('i',)

    def __init__(self, i, dtype):
        super().__init__(dtype)
        self.i = i

    def __call__(self, row):
        return row[self.i]


class MemTable(tables.Table):
    """A user table with typed columns over a list of row tuples."""

    def __init__(self, name, columns, rows):
        self.name = name
        self.columns = {n: Col(i, t) for i, (n, t) in enumerate(columns)}
        self.rows = list(rows)
        self.scans = 0

    def __iter__(self):
        self.scans += 1
        return iter(self.rows)

    def update(self, **kwargs):
        # FROM <expression> [OPEN ...] on a user table: the qualifiers do not apply
        return self


def make_conn(**tabs):
    """make_conn(t=([('x', int), ...], [rows...]))"""
    conn = beanquery.Connection()
    for name, (cols, rows) in tabs.items():
        conn.tables[name] = MemTable(name, cols, rows)
    return conn


class Result:
    def __init__(self, rule=''):
        self.evaluations = 0
        self.keys = set()
        self.samples = []
        self.violations = []
        self.rule = rule
        self.exhaustive = False
        self.notes = []
        self.scopes = {}

    def case(self, key, sample=None):
        self.evaluations += 1
        k = repr(key)
        if k not in self.keys:
            self.keys.add(k)
            if sample is not None and len(self.samples) < 6:
                self.samples.append(sample)

    def violation(self, fingerprint, clause, case, observed, expected=None, what=None):
        if sum(1 for v in self.violations if v['fingerprint'] == fingerprint) >= 1:
            return
        if len(self.violations) < 25:
            self.violations.append({'fingerprint': fingerprint, 'clause': clause, 'case': case, 'observed': repr(observed)[:600],
                                    'expected': repr(expected)[:600], 'what': (what or clause) + f' | case={case!r}'[:300]})

    def asdict(self):
        return {'evaluations': self.evaluations, 'distinct_nontrivial': len(self.keys), 'samples': self.samples,
                'violations': self.violations, 'rule': self.rule, 'exhaustive': self.exhaustive, 'notes': self.notes,
                'scopes': self.scopes}


def D(s):
    return Decimal(s)


def date(y, m, d):
    return datetime.date(y, m, d)


_parsed = {}


def parsed(text):
    """parse once per process; used only for statements without placeholders (the compiler
    mutates Placeholder nodes, see C09)"""
    from beanquery import parser
    if text not in _parsed:
        _parsed[text] = parser.parse(text)
    return _parsed[text]


def pmap(fn, items, jobs=None, chunk=64, force=False):
    """order-preserving parallel map over picklable items"""
    import multiprocessing as mp
    import os
    items = list(items)
    jobs = jobs or int(os.environ.get('VERIF_JOBS', '16'))
    if (len(items) < 24 and not force) or jobs <= 1:
        return [fn(x) for x in items]
    with mp.get_context('fork').Pool(jobs) as pool:
        return pool.map(fn, items, chunksize=max(1, min(chunk, len(items) // (jobs * 4) or 1)))
