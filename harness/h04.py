"""C04 bounded native harness: announced datatypes are truthful; accepted queries run type-safe."""
import datetime
import itertools
import random
from decimal import Decimal

from dateutil.relativedelta import relativedelta
from beancount.core import amount, position, inventory, data

import beanquery
from beanquery import query_compile as qc, types
from beanquery.parser import ast
import beanquery.query_env  # noqa
from harness.common import Result, make_conn
from harness import ledger

D = Decimal
date = datetime.date
A = amount.Amount


def inv(*ps):
    i = inventory.Inventory()
    for p in ps:
        i.add_position(p)
    return i


P1 = position.Position(A(D('2'), 'HOOL'), data.Cost(D('100'), 'USD', date(2020, 1, 10), None))
P2 = position.Position(A(D('-5.5'), 'USD'), None)
POOL = {
    int: [0, 3, -7], Decimal: [D('0'), D('2.5'), D('-1')], str: ['', 'Assets:Bank:Checking', 'USD', 'a(b)c', '1 day', '2020-01-05', '%Y'], datetime.date: [date(2020, 1, 31), date(2024, 2, 29)],
    bool: [True, False], relativedelta: [relativedelta(days=3), relativedelta(months=1)], amount.Amount: [A(D('1.5'), 'USD'), A(D('-2'), 'HOOL')],
    position.Position: [P1, P2], inventory.Inventory: [inv(), inv(P1, P2)], set: [set(), {'a', 'Assets:Bank'}], list: [[], [1, 2]], dict: [{}, {'k': 'v'}],
    object: ['x', 5, D('1.5'), None],
}


def conforms(v, t):
    if v is None or t is object or t is types.Any or isinstance(t, types.AnyType):
        return True
    if t in (set, list):
        return isinstance(v, (set, frozenset, list, tuple))
    if t is dict or (isinstance(t, type) and issubclass(t, dict)):
        return isinstance(v, dict)
    if isinstance(t, type) and issubclass(t, types.Structure):
        py = [k for k, s in types.ALIASES.items() if s is t]
        named = {'open': data.Open, 'close': data.Close}.get(t.name)
        return isinstance(v, tuple(py + ([named] if named else []))) if (py or named) else True
    try:
        return isinstance(v, t)
    except TypeError:
        return True


def pools_for(intypes):
    out = []
    for t in intypes:
        if t is types.Any or isinstance(t, types.AnyType) or t is object:
            out.append(['x', 5, D('1.5')])
        elif t is types.Asterisk:
            out.append([None])
        elif t in POOL:
            out.append(POOL[t])
        else:
            return None
    return out


def overloads(res, lc, row):
    """every registered function / operator overload on conforming constant operands"""
    for name, impls in list(qc.FUNCTIONS.items()):
        for impl in impls:
            if issubclass(impl, qc.EvalAggregator) or name in ('meta', 'entry_meta', 'any_meta', 'today'):
                continue
            pools = pools_for(impl.__intypes__)
            if pools is None:
                continue
            for args in itertools.islice(itertools.product(*pools), 60):
                res.case(('fn', name, tuple(t.__name__ if hasattr(t, '__name__') else str(t) for t in impl.__intypes__), repr(args)[:80]))
                ops = [qc.EvalConstant(a, t if t is not types.Any and not isinstance(t, types.AnyType) else type(a)) for a, t in zip(args, impl.__intypes__)]
                try:
                    node = impl(lc, ops)
                    v = node(row)
                except TypeError as e:
                    res.violation(f'h04:fn-typeerror:{name}:{[getattr(t, "__name__", str(t)) for t in impl.__intypes__]}', 'an accepted call never fails with a type error on conforming data',
                                  {'function': name, 'intypes': [getattr(t, '__name__', str(t)) for t in impl.__intypes__], 'args': repr(args)[:120]}, f'TypeError: {e}', node.dtype.__name__ if 'node' in dir() else None)
                    continue
                except Exception:
                    continue      # partial functions (invalid regex, index out of range, unparsable date ...): C18
                if not conforms(v, node.dtype):
                    res.violation(f'h04:fn-dtype:{name}:{[getattr(t, "__name__", str(t)) for t in impl.__intypes__]}', 'every value is NULL or an instance of the announced datatype',
                                  {'function': name, 'intypes': [getattr(t, '__name__', str(t)) for t in impl.__intypes__], 'args': repr(args)[:120]}, f'{type(v).__name__}: {v!r}'[:100], getattr(node.dtype, '__name__', str(node.dtype)))
    for op, impls in list(qc.OPERATORS.items()):
        for impl in impls:
            pools = pools_for(impl.__intypes__)
            if pools is None:
                continue
            for args in itertools.islice(itertools.product(*pools), 40):
                res.case(('op', impl.__name__, repr(args)[:80]))
                ops = [qc.EvalConstant(a, t if t is not types.Any and not isinstance(t, types.AnyType) else type(a)) for a, t in zip(args, impl.__intypes__)]
                try:
                    node = impl(*ops)
                    v = node(row)
                except TypeError as e:
                    res.violation(f'h04:op-typeerror:{impl.__name__}', 'an accepted operator application never fails with a type error on conforming data',
                                  {'operator': impl.__name__, 'args': repr(args)[:120]}, f'TypeError: {e}', None)
                    continue
                except Exception:
                    continue
                if not conforms(v, node.dtype):
                    res.violation(f'h04:op-dtype:{impl.__name__}', 'every value is NULL or an instance of the announced datatype',
                                  {'operator': impl.__name__, 'args': repr(args)[:120]}, f'{type(v).__name__}: {v!r}'[:100], getattr(node.dtype, '__name__', str(node.dtype)))


def table_columns(res, name, src):
    lc = ledger.connect(src)
    for tname, table in lc.tables.items():
        if not tname:
            continue
        for col in table.columns:
            res.case((name, tname, col))
            try:
                cur = lc.execute(f'SELECT {col} FROM #{tname}')
                dt = cur.description[0].datatype
                vals = [r[0] for r in cur.fetchall()]
            except Exception as e:
                res.violation(f'h04:column-error:{tname}.{col}', 'every column of every table is readable', {'ledger': name, 'table': tname, 'column': col}, f'{type(e).__name__}: {e}', None)
                continue
            if not isinstance(dt, type) and dt is not types.Any and not isinstance(dt, types.AnyType):
                # renderers and numberify dispatch on the announced datatype with isinstance / __mro__: it has to be a class
                res.violation(f'h04:column-dtype-not-a-class:{tname}.{col}', 'the announced datatype of a column is a class (isinstance on it is defined)',
                              {'ledger': name, 'table': tname, 'column': col}, repr(dt), 'a class')
                continue
            bad = [v for v in vals if not conforms(v, dt)]
            if bad:
                res.violation(f'h04:column-dtype:{tname}.{col}', 'every column value is NULL or an instance of the announced datatype', {'ledger': name, 'table': tname, 'column': col},
                              f'{type(bad[0]).__name__}: {bad[0]!r}'[:100], getattr(dt, '__name__', str(dt)))
        # structured attribute access
    for q in ['SELECT position.units.number, position.units.currency, position.cost.number, position.cost.date, entry.flag, entry.date, entry.tags FROM #postings',
              'SELECT open.date, open.currencies, open.booking, close.date FROM #accounts', 'SELECT amount.number, amount.currency FROM #prices',
              'SELECT entry.meta["ref"], meta["memo"] FROM #postings', 'SELECT amount.number, tolerance, discrepancy.number FROM #balances']:
        res.case((name, q))
        try:
            cur = lc.execute(q)
            rows = cur.fetchall()
        except Exception as e:
            res.violation('h04:attr-error:' + q[:60], 'attribute and subscript access executes', {'ledger': name, 'query': q}, f'{type(e).__name__}: {e}', None)
            continue
        for j, d in enumerate(cur.description):
            bad = [r[j] for r in rows if not conforms(r[j], d.datatype)]
            if bad:
                res.violation(f'h04:attr-dtype:{d.name}', 'attribute access announces a truthful datatype', {'ledger': name, 'query': q, 'column': d.name}, f'{type(bad[0]).__name__}: {bad[0]!r}'[:100], getattr(d.datatype, '__name__', str(d.datatype)))


def aggregates(res):
    cols = [('i', int), ('d', Decimal), ('s', str), ('t', datetime.date), ('b', bool)]
    rows = [(1, D('1.5'), 'x', date(2024, 1, 1), True), (None, None, None, None, None), (3, D('2'), 'y', date(2023, 1, 1), False), (2, D('0'), '', date(2025, 1, 1), True)]
    conn = make_conn(t=(cols, rows))
    for fn in ('sum', 'min', 'max', 'first', 'last', 'count'):
        for c, t in cols:
            q = f'SELECT {fn}({c}) FROM #t'
            res.case(q)
            try:
                cur = conn.execute(q)
            except beanquery.ProgrammingError:
                continue
            except Exception as e:
                res.violation(f'h04:agg-error:{fn}:{t.__name__}', 'accepted aggregate executes without type error', {'query': q}, f'{type(e).__name__}: {e}', None)
                continue
            dt = cur.description[0].datatype
            v = cur.fetchall()[0][0]
            if not conforms(v, dt) or (dt is bool and type(v) is not bool):
                res.violation(f'h04:agg-dtype:{fn}:{t.__name__}', 'aggregate values are instances of the announced datatype', {'query': q}, f'{type(v).__name__}: {v!r}', dt.__name__)
    # coalesce over every ordered pair of column types: rejected, or every value conforms to the announced datatype
    for (c1, t1), (c2, t2) in itertools.product(cols, repeat=2):
        q = f'SELECT coalesce({c1}, {c2}), coalesce({c1}, {c2}, {c1}) FROM #t'
        res.case(q)
        try:
            cur = conn.execute(q)
            rows2 = cur.fetchall()
        except beanquery.ProgrammingError:
            continue
        except Exception as e:
            res.violation(f'h04:coalesce-error:{t1.__name__},{t2.__name__}', 'accepted coalesce executes', {'query': q}, f'{type(e).__name__}: {e}', None)
            continue
        for j, d in enumerate(cur.description):
            bad = [r[j] for r in rows2 if not conforms(r[j], d.datatype) or (d.datatype is bool and r[j] is not None and type(r[j]) is not bool)]
            if bad:
                res.violation(f'h04:coalesce-dtype:{t1.__name__},{t2.__name__}', 'coalesce announces a datatype every value conforms to', {'query': q}, f'{type(bad[0]).__name__}: {bad[0]!r}', d.datatype.__name__)
    lc = ledger.connect()
    for q in ["SELECT coalesce(payee, entry.meta['ref']) FROM #postings", "SELECT coalesce(narration, meta['memo']), coalesce(cost_number, any_meta('rank')) FROM #postings",
              "SELECT coalesce(cost_date, entry_meta('ref')) FROM #postings"]:
        res.case(q)
        try:
            cur = lc.execute(q)
            rows2 = cur.fetchall()
        except beanquery.ProgrammingError:
            continue
        for j, d in enumerate(cur.description):
            bad = [r[j] for r in rows2 if not conforms(r[j], d.datatype)]
            if bad:
                res.violation('h04:coalesce-dtype:typed-then-untyped', 'coalesce announces a datatype every value conforms to', {'query': q}, f'{type(bad[0]).__name__}: {bad[0]!r}', d.datatype.__name__)
    # arithmetic with intervals
    for q in ["SELECT interval('1 day') - interval('2 days') FROM #t LIMIT 1", "SELECT t - interval('1 month') FROM #t LIMIT 1", "SELECT interval('1 day') + t FROM #t LIMIT 1",
              "SELECT interval('1 day') - t FROM #t LIMIT 1", "SELECT interval('1 month') + interval('1 day') FROM #t LIMIT 1"]:
        res.case(q)
        try:
            cur = conn.execute(q)
            v = cur.fetchall()[0][0]
            dt = cur.description[0].datatype
        except beanquery.ProgrammingError:
            continue
        except Exception as e:
            res.violation('h04:interval-typeerror:' + q[7:40], 'a query accepted by the type checker never fails with a type error', {'query': q}, f'{type(e).__name__}: {e}', None)
            continue
        if not conforms(v, dt):
            res.violation('h04:interval-dtype:' + q[7:40], 'interval arithmetic announces a truthful datatype', {'query': q}, f'{type(v).__name__}: {v!r}', dt.__name__)


def composite(res):
    """boolean connectives over non-boolean operands, and columns of subqueries (also with repeated output names): every value is
    NULL or an instance of the announced datatype (a bool column holds truth values, not the falsy operand)"""
    cols = [('i', int), ('d', Decimal), ('s', str), ('t', datetime.date), ('b', bool), ('j', int)]
    rows = [(1, D('1.5'), 'x', date(2024, 1, 1), True, None), (None, None, None, None, None, 4), (0, D('0.00'), '', date(2023, 1, 1), False, None), (2, D('0'), 'y', date(2025, 1, 1), True, 9)]
    conn = make_conn(t=(cols, rows))
    qs = ['SELECT i BETWEEN 0 AND j, i BETWEEN j AND 5, j BETWEEN i AND i, d BETWEEN 0 AND j FROM #t', 'SELECT i FROM #t WHERE i BETWEEN 0 AND j', 'SELECT s, sum(i) FROM #t GROUP BY s HAVING sum(i) BETWEEN 0 AND max(j)',
          # aggregates over selections / groups in which every value is NULL: the zero (or NULL) of the announced type
          'SELECT sum(d), sum(i), min(d), max(i), first(d), last(i), count(d) FROM #t WHERE i IS NULL', 'SELECT b, sum(d), sum(j) FROM #t GROUP BY b', 'SELECT sum(d) + 1, sum(d) FROM #t WHERE d IS NULL',
          'SELECT i AND TRUE, d AND TRUE, s AND TRUE, TRUE AND i, i AND d AND s FROM #t', 'SELECT i OR FALSE, d OR FALSE, s OR FALSE, FALSE OR s, NOT i, NOT s FROM #t',
          'SELECT x, y FROM (SELECT i AND TRUE AS x, s OR FALSE AS y FROM #t)', 'SELECT s, t FROM (SELECT i, i, s, t FROM #t)', 'SELECT length(s), t FROM (SELECT d, d, s, t FROM #t)',
          'SELECT k, s FROM (SELECT i AS k, d AS k, s FROM #t)', 'SELECT sum(b), sum(i > 0), count(b) FROM #t', 'SELECT s, sum(i = 1) FROM #t GROUP BY s',
          # accepted statements whose later phases compare values: NULL keys in ORDER BY, DISTINCT and both PIVOT BY columns, intervals
          'SELECT s, b, sum(i) FROM #t GROUP BY s, b PIVOT BY s, b', 'SELECT b, s, count(*) FROM #t GROUP BY 1, 2 PIVOT BY 1, 2', 'SELECT t, i, sum(d) FROM #t GROUP BY t, i PIVOT BY t, i',
          'SELECT s, sum(d) FROM #t GROUP BY s ORDER BY s DESC', 'SELECT DISTINCT t, b FROM #t ORDER BY t, b', "SELECT t - interval('1 day'), t + interval('1 month'), interval('1 day') + t FROM #t",
          "SELECT interval('1 month') - t FROM #t", "SELECT interval('2 days') - interval('1 day') FROM #t", 'SELECT round(d), round(d, 1), round(i), round(sum(d)) FROM #t',
          # every field of date_part / date_trunc (the field is a string operand: a registry sweep over string pools never names one)
          "SELECT date_part('epoch', t), date_part('year', t), date_part('month', t), date_part('day', t), date_part('dow', t), date_part('doy', t), date_part('week', t), date_part('quarter', t), date_part('decade', t), date_part('century', t), date_part('millennium', t), date_part('isoyear', t), date_part('isodow', t) FROM #t",
          "SELECT sum(date_part('epoch', t)), date_part('epoch', t) + 1, date_trunc('month', t), date_trunc('week', t), date_trunc('year', t) FROM #t GROUP BY t",
          # value columns in front of / between the PIVOT BY columns: the pivoted columns are typed like the value columns
          'SELECT sum(d), s, b FROM #t GROUP BY s, b PIVOT BY s, b', 'SELECT s, sum(i), b, max(t) FROM #t GROUP BY s, b PIVOT BY 1, 3', 'SELECT max(t), count(*), b, s FROM #t GROUP BY b, s PIVOT BY b, s']
    for q in qs:
        res.case(q)
        try:
            cur = conn.execute(q)
            got = cur.fetchall()
        except beanquery.ProgrammingError:
            continue
        except Exception as e:  # noqa
            res.violation('h04:composite-error:' + q[:60], 'a query accepted by the type checker never fails with a type error', {'query': q}, f'{type(e).__name__}: {e}', None)
            continue
        for j, dsc in enumerate(cur.description):
            bad = [r[j] for r in got if not conforms(r[j], dsc.datatype) or (dsc.datatype is bool and r[j] is not None and type(r[j]) is not bool)
                   or (dsc.datatype is int and type(r[j]) is bool)]
            if bad:
                res.violation(f'h04:composite-dtype:{q[:50]}:{j}', 'every value of a result column is NULL or an instance of the announced datatype', {'query': q, 'column': dsc.name},
                              f'{type(bad[0]).__name__}: {bad[0]!r}', dsc.datatype.__name__)


def renderers(res):
    from beanquery import query_render
    seen = set()
    for impls in list(qc.FUNCTIONS.values()) + list(qc.OPERATORS.values()):
        for impl in impls:
            pass
    lc = ledger.connect()
    dts = set()
    for table in lc.tables.values():
        for col in table.columns.values():
            dts.add(col.dtype)
    for dt in dts:
        res.case(('renderer', getattr(dt, '__name__', str(dt))))
        try:
            r = query_render._get_renderer(dt, query_render.RenderContext(lc.options['dcontext'].build()))
        except Exception as e:
            r = None
        if r is None:
            res.violation(f'h04:no-renderer:{dt}', 'renderers dispatch on every announced datatype', {'datatype': str(dt)}, None, 'a renderer')


def run(tier, seed):
    res = Result('every registered scalar function and operator overload on conforming constant operands from per-type pools (<= 60 combinations each); every column of every '
                 'Beancount-backed table on ledgers A and B; structured attribute / subscript access; every aggregate over every column type; interval arithmetic; renderer lookup '
                 'for every announced datatype; distinct = (overload, arguments) / (table, column)')
    lc = ledger.connect()
    row = next(iter(lc.tables['postings']))
    overloads(res, lc, row)
    table_columns(res, 'A', ledger.LEDGER_A)
    table_columns(res, 'B', ledger.LEDGER_B)
    aggregates(res)
    composite(res)
    renderers(res)
    return res.asdict()


def replay(case):
    r = Result()
    if 'function' in case or 'operator' in case:
        lc = ledger.connect()
        overloads(r, lc, next(iter(lc.tables['postings'])))
    elif 'table' in case or ('query' in case and 'ledger' in case):
        table_columns(r, case.get('ledger', 'A'), ledger.LEDGER_A if case.get('ledger', 'A') == 'A' else ledger.LEDGER_B)
    else:
        aggregates(r)
        renderers(r)
    hit = [v for v in r.violations if v['case'] == case]
    return {'status': 'reproduced' if hit else 'not-reproduced', 'detail': repr(hit[:1])[:600]}
