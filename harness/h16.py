"""C16 bounded native harness: text and CSV rendering."""
import csv
import datetime
import io
import itertools
import random
import re
from decimal import Decimal

from beancount.core import amount, position, inventory, display_context
from beancount.core.data import Cost

from beanquery import query_render
from beanquery.cursor import Column
from harness.common import Result, pmap

D = Decimal
A = amount.Amount
date = datetime.date


def mkinv(*specs):
    inv = inventory.Inventory()
    for num, cur, cost in specs:
        c = Cost(D(cost), 'USD', date(2020, 1, 2), None) if cost else None
        inv.add_position(position.Position(A(D(num), cur), c))
    return inv


POOLS = {
    int: [None, 0, 7, -12345, 100000],
    Decimal: [None, D('0'), D('1.5'), D('-22.125'), D('1000'), D('-0.001'), D('3.10'), D('1.0'), D('1.00'), D('0.000')],      # equal values written with different numbers of digits, one after the other
    str: [None, '', 'x', 'hello world', 'a much longer string value', 'Cafe ', '  indented'],      # white space that belongs to the value
    datetime.date: [None, date(2024, 1, 5), date(1999, 12, 31)],
    bool: [None, True, False],
    set: [None, set(), {'a'}, {'tag-one', 'b', 'zz'}],
    dict: [None, {}, {'k': 1}],
    object: [None, 'txt', 5, D('2.5')],
    amount.Amount: [None, A(D('1.50'), 'USD'), A(D('-1200.5'), 'USD'), A(D('3'), 'HOOL'), A(D('0.0001'), 'ETH')],
    position.Position: [None, position.Position(A(D('2'), 'HOOL'), Cost(D('100.25'), 'USD', date(2020, 1, 1), None)), position.Position(A(D('-5.5'), 'USD'), None)],
    inventory.Inventory: [None, mkinv(), mkinv(('1.5', 'USD', None)), mkinv(('2', 'HOOL', '100'), ('3', 'HOOL', '110.5'), ('-4.25', 'USD', None)), mkinv(('7', 'EUR', None), ('1', 'USD', None)),
                          mkinv(('4', 'HOOL', None), ('9', 'USD', None)), mkinv(('1', 'EUR', '1.1'), ('2', 'EUR', None), ('3', 'USD', None))],
    # costs: with and without date, without label, with a label, with the empty label
    Cost: [None, Cost(D('100.25'), 'USD', date(2020, 1, 1), None), Cost(D('12.00'), 'USD', date(2020, 1, 2), ''), Cost(D('7'), 'EUR', None, None), Cost(D('3.5'), 'USD', None, '')],
}
TYPES = list(POOLS)


def dcontext():
    dc = display_context.DisplayContext()
    for cur, num in (('USD', D('1.23')), ('EUR', D('1.2')), ('HOOL', D('1')), ('ETH', D('0.0001'))):
        dc.update(num, cur)
    return dc


def split_cells(line, widths, colsep, lead, trail):
    """-> list of cell texts, or None if the separators are not where they should be"""
    if not (line.startswith(lead) and line.endswith(trail)):
        return None
    body = line[len(lead):len(line) - len(trail)] if trail else line[len(lead):]
    cells, pos = [], 0
    for k, w in enumerate(widths):
        cells.append(body[pos:pos + w])
        pos += w
        if k < len(widths) - 1:
            if body[pos:pos + len(colsep)] != colsep:
                return None
            pos += len(colsep)
    if pos != len(body):
        return None
    return cells


def check(case):
    coltypes, rowsel, opts = case
    names = ['c%d' % i if i % 2 else 'a_rather_long_header_%d' % i for i in range(len(coltypes))]
    columns = [Column(n, t) for n, t in zip(names, coltypes)]
    rows = [tuple(POOLS[t][k % len(POOLS[t])] for t, k in zip(coltypes, sel)) for sel in rowsel]
    info = {'types': [t.__name__ for t in coltypes], 'rows': repr(rows)[:300], 'options': opts}
    dc = dcontext().build()
    out = io.StringIO()
    try:
        query_render.render_text(columns, rows, dc, out, **opts)
    except Exception as e:
        return ('text rendering succeeds', info, f'{type(e).__name__}: {e}', None)
    text = out.getvalue()
    lines = text.split('\n')
    if lines[-1] != '':
        return ('output ends with a newline', info, lines[-1], '')
    lines = lines[:-1]
    boxed, uni = opts.get('boxed', False), opts.get('unicode', False)
    # 1. rectangular
    wset = {len(l) for l in lines}
    if len(wset) != 1:
        return ('every emitted line has the same width', info, sorted(wset), 'one width')
    # widths from the rule line
    rule = lines[2] if boxed else lines[1]
    if boxed:
        colsep, lead, trail = (' │ ', '│ ', ' │') if uni else (' | ', '| ', ' |')
        parts = re.split(r'─┼─' if uni else r'-\+-', rule[2:-2])
    else:
        colsep, lead, trail = '  ', '', ''
        parts = rule.split('  ')
    widths = [len(p) for p in parts]
    if len(widths) != len(columns):
        return ('one column per described column', info, len(widths), len(columns))
    header = lines[1] if boxed else lines[0]
    hcells = split_cells(header, widths, colsep, lead, trail)
    if hcells is None:
        return ('columns start at fixed offsets (header)', info, header, widths)
    narrow = opts.get('narrow', True)
    for h, name, w in zip(hcells, names, widths):
        want = name[:w].center(w)
        if h != want:
            return ('headers are centred and cut to the column width only in narrow mode', info, h, want)
        if not narrow and len(name) > w:
            return ('headers are not cut when not narrow', info, w, len(name))
    body = lines[3:-1] if boxed else lines[2:]
    null = opts.get('nullvalue', '')
    expand, spaced = opts.get('expand', False), opts.get('spaced', False)
    # expected number of lines
    nl = 0
    for r in rows:
        k = 1
        if expand:
            for v in r:
                if isinstance(v, inventory.Inventory):
                    k = max(k, len(v.get_positions()))
        nl += k + (1 if spaced else 0)
    if len(body) != nl:
        return ('multi-valued cells expand to extra lines only when requested; one line per row (plus spacing rows)', info, len(body), nl)
    bi = 0
    dotpos = {}
    for r in rows:
        k = 1
        if expand:
            for v in r:
                if isinstance(v, inventory.Inventory):
                    k = max(k, len(v.get_positions()))
        first = split_cells(body[bi], widths, colsep, lead, trail)
        if first is None:
            return ('columns start at fixed offsets', info, body[bi], widths)
        for j in range(k):
            extra = split_cells(body[bi + j], widths, colsep, lead, trail)
            if extra is None:
                return ('columns start at fixed offsets (expanded lines)', info, body[bi + j], widths)
            if j:
                # continuation lines of an expanded row: only a multi-valued cell that has a j-th element shows anything there
                for ci2, (v2, c2) in enumerate(zip(r, extra)):
                    more = isinstance(v2, inventory.Inventory) and len(v2.get_positions()) > j
                    if not more and c2.strip():
                        return ('continuation lines of an expanded row are blank in the columns that have nothing more to show', {**info, 'column': ci2}, c2, '')
        for ci, (v, t, cell) in enumerate(zip(r, coltypes, first)):
            s = cell.strip()
            if v is None:
                if s != null.strip():
                    return ('NULL shows the configured placeholder', info, cell, null)
                continue
            ok = True
            if t is int: ok = s == str(v)
            elif t is str: ok = s == v.strip() and v in cell
            elif t is datetime.date: ok = s == v.isoformat()
            elif t is bool: ok = s == ('TRUE' if v else 'FALSE')
            elif t is Decimal:
                try:
                    ok = D(s) == v
                except Exception:
                    ok = False
                if ok and '.' in cell:
                    dotpos.setdefault(ci, set()).add(cell.index('.'))
                elif ok:
                    dotpos.setdefault(ci, set()).add(len(cell.rstrip()) if cell.strip() else 0)
            elif t is set: ok = s == opts.get('listsep', '  ').join(sorted(v)).strip() or sorted(x for x in re.split(re.escape(opts.get('listsep', '  ')), s) if x) == sorted(v)
            elif t is dict or t is object: ok = s == str(v)
            elif t is amount.Amount:
                m = re.fullmatch(r'(-?[\d,]*\.?\d*)\s+(\S+)', s)
                ok = bool(m) and m.group(2) == v.currency and D(m.group(1).replace(',', '')) == dc.quantize(v.number, v.currency)
            elif t is position.Position:
                ok = v.units.currency in s and (v.cost is None or '{' in s)
                m = re.match(r'(-?[\d,]*\.?\d*)\s+(\S+)', s)
                ok = ok and bool(m) and D(m.group(1).replace(',', '')) == dc.quantize(v.units.number, v.units.currency)
            elif t is inventory.Inventory:
                texts = ' '.join(split_cells(body[bi + j], widths, colsep, lead, trail)[ci] for j in range(k))
                for pos in v.get_positions():
                    q = dc.quantize(pos.units.number, pos.units.currency)
                    if pos.units.currency not in texts or not re.search(r'(?<![\d.])' + re.escape(f'{q:f}'.rstrip('0').rstrip('.') if '.' in f'{q:f}' else f'{q:f}'), texts.replace(',', '')):
                        ok = False
            if not ok:
                return ('each cell reads back to the value it shows (no value is truncated)', {**info, 'column': ci, 'value': repr(v)}, cell, repr(v))
        bi += k + (1 if spaced else 0)
    for ci, ps in dotpos.items():
        if len(ps) > 1:
            return ('decimals in a column are aligned on the decimal point', {**info, 'column': ci}, sorted(ps), 'one position')
    # inventories in tabular (not expanded) form: the positions of one commodity line up across rows - a commodity held in at most
    # k lots per inventory occupies k slots, so its units currency ends at no more than k different offsets in the column
    if not expand and not spaced:
        for ci, t in enumerate(coltypes):
            if t is not inventory.Inventory:
                continue
            invs = [x[ci] for x in rows if x[ci] is not None]
            slots = {}
            for inv in invs:
                cnt = {}
                for p in inv.get_positions():
                    cnt[p.units.currency] = cnt.get(p.units.currency, 0) + 1
                for c, k in cnt.items():
                    slots[c] = max(slots.get(c, 0), k)
            if sum(slots.values()) > 5 or not slots:
                continue
            ends = {c: set() for c in slots}
            for r, line in zip(rows, body):
                if r[ci] is None:
                    continue
                cell = split_cells(line, widths, colsep, lead, trail)[ci]
                flat = re.sub(r'\{[^}]*\}', lambda m: '#' * len(m.group(0)), cell)       # costs in braces are not units
                for c in slots:
                    for m in re.finditer(r'(?<![A-Za-z])' + re.escape(c) + r'(?![A-Za-z])', flat):
                        ends[c].add(m.end())
            bad = {c: sorted(e) for c, e in ends.items() if len(e) > slots[c]}
            if bad:
                return ('positions of an inventory column are aligned in slots, one slot per lot of a commodity', {**info, 'column': ci}, bad, slots)
    # CSV
    out = io.StringIO()
    try:
        # the shell hands every setting to every renderer: the CSV renderer gets the text options too and ignores them
        query_render.render_csv(columns, rows, dc, out, **{**opts, 'expand': expand, 'nullvalue': null})
    except Exception as e:
        return ('csv rendering succeeds', info, f'{type(e).__name__}: {e}', None)
    recs = list(csv.reader(io.StringIO(out.getvalue())))
    if not recs or recs[0] != names:
        return ('CSV output has a header', info, recs[:1], names)
    nrec = sum((max([1] + [len(v.get_positions()) for v in r if isinstance(v, inventory.Inventory)]) if expand else 1) for r in rows)
    if len(recs) - 1 != nrec:
        return ('CSV has one record per (expanded) row', info, len(recs) - 1, nrec)
    if any(len(r) != len(columns) for r in recs):
        return ('CSV has exactly one field per column', info, [len(r) for r in recs][:4], len(columns))
    if expand:
        ri = 1
        for r in rows:
            k = max([1] + [len(v.get_positions()) for v in r if isinstance(v, inventory.Inventory)])
            for j in range(1, k):
                for ci2, (v2, f2) in enumerate(zip(r, recs[ri + j])):
                    if not (isinstance(v2, inventory.Inventory) and len(v2.get_positions()) > j) and f2.strip():
                        return ('continuation records of an expanded row are empty in the columns that have nothing more to show (CSV)', {**info, 'column': ci2}, f2, '')
            ri += k
    # strings and the NULL placeholder are written as they are: white space inside them is part of the value, not padding
    if not expand:
        for r, rec in zip(rows, recs[1:]):
            for v, t, f in zip(r, coltypes, rec):
                if v is None and f != null:
                    return ('CSV shows the configured NULL placeholder unchanged', {**info, 'value': None}, f, null)
                if t is str and v is not None and f != v:
                    return ('a CSV field of a string column holds exactly the string', {**info, 'value': repr(v)}, f, v)
    # same formatted values as the text cells (padding aside) for single-line scalar cells
    if not spaced and not expand:
        for r, rec, line in zip(rows, recs[1:], body):
            cells = split_cells(line, widths, colsep, lead, trail)
            for v, t, f, c in zip(r, coltypes, rec, cells):
                if t in (int, str, datetime.date, bool, Decimal, amount.Amount) and v is not None:
                    if f.strip() != c.strip():
                        return ('each CSV field holds the same formatted value as the text cell', {**info, 'value': repr(v)}, f, c)
    return None


def cases(tier, seed):
    rng = random.Random(seed)
    out = []
    optsets = []
    for boxed, uni, spaced, expand, narrow in itertools.product([False, True], repeat=5):
        optsets.append(dict(boxed=boxed, unicode=uni, spaced=spaced, expand=expand, narrow=narrow))
    extra = [dict(nullvalue='NULL'), dict(nullvalue='-', listsep=' ; '), dict(listsep=', ', boxed=True), dict(nullvalue=' - ')]
    for t in TYPES:
        n = len(POOLS[t])
        for o in optsets + extra:
            out.append(((t,), tuple((k,) for k in range(n)), o))
        out.append(((t,), (), {}))
        out.append(((t, int), ((0, 1),), dict(nullvalue='(null)')))
    ninv = len(POOLS[inventory.Inventory])
    for o in (dict(expand=True, nullvalue='NULL'), dict(expand=True, nullvalue='-', boxed=True), dict(expand=True, spaced=True, nullvalue='NULL')):
        # expanded multi-line cells next to scalar cells, with a visible NULL placeholder
        out.append(((inventory.Inventory, int, str), tuple((k, k % 3, k % 2) for k in range(ninv)), o))
        out.append(((str, inventory.Inventory, inventory.Inventory), tuple((k % 2, k, (k + 1) % ninv) for k in range(ninv)), o))
    for _ in range(300 if tier == 'quick' else 5000):
        k = rng.randint(1, 5)
        ct = tuple(rng.choice(TYPES) for _ in range(k))
        rows = tuple(tuple(rng.randrange(10) for _ in range(k)) for _ in range(rng.randint(0, 6)))
        o = dict(rng.choice(optsets))
        if rng.random() < 0.3: o['nullvalue'] = rng.choice(['', 'NULL', '-'])
        if rng.random() < 0.3: o['listsep'] = rng.choice(['  ', ', ', ' | '])
        out.append((ct, rows, o))
    return out


def run(tier, seed):
    res = Result('result tables of every supported datatype (int, decimal, str, date, bool, set, dict, object, amount, position, inventory) with NULLs, negative numbers, differing '
                 'precisions, several currencies, empty results and empty inventories; all 32 combinations of boxed / unicode / spaced / expand / narrow per datatype plus nullvalue and '
                 'list separator variants; seeded random mixed tables; distinct = (column types, rows, options)')
    cs = cases(tier, seed)
    for case, bad in zip(cs, pmap(check, cs, chunk=16)):
        res.case(repr(case), {'types': [t.__name__ for t in case[0]], 'rows': len(case[1]), 'options': case[2]})
        if bad:
            res.violation('h16:' + bad[0][:60] + ':' + ','.join(bad[1]['types'])[:40], bad[0], bad[1], bad[2], bad[3])
    return res.asdict()


def replay(case):
    for c in cases('quick', 0):
        if [t.__name__ for t in c[0]] == case.get('types') and c[2] == case.get('options'):
            bad = check(c)
            if bad:
                return {'status': 'reproduced', 'detail': repr(bad)[:700]}
    return {'status': 'not-reproduced', 'detail': 'no failing table with these types/options in the quick scope'}
