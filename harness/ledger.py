"""Generated Beancount ledgers for the native harnesses."""
import beanquery
from beancount import loader

LEDGER_A = '''
option "operating_currency" "USD"
plugin "beancount.plugins.auto_accounts"

2019-12-31 commodity USD
  name: "US Dollar"
  asset-class: "cash"
2019-12-31 commodity HOOL
  name: "Hooli Inc"

2020-01-01 open Equity:Opening
2020-01-01 open Assets:Bank:Checking USD
  institution: "Bank"
  rank: 3
2020-01-01 open Assets:Broker HOOL,USD
2020-01-01 open Liabilities:Card USD
2020-01-01 open Income:Salary USD
2020-01-01 open Expenses:Food USD
2020-01-01 open Expenses:Rent USD
2020-01-01 open Expenses:Food:Coffee USD

2020-01-02 * "Employer" "salary" #pay ^link1
  ref: "abc"
  Assets:Bank:Checking   1000.00 USD
    memo: "posting meta"
  Income:Salary         -1000.00 USD

2020-01-03 * "Zed Market" "apples" #food
  Assets:Bank:Checking   -12.50 USD
  Expenses:Food           12.50 USD

2020-01-05 ! "Amy Cafe" "lunch"
  Liabilities:Card       -20.00 USD
  Expenses:Food           20.00 USD
    who: "me"

2020-01-06 * "Cafe Roma" ""
  Liabilities:Card        -4.00 USD
  Expenses:Food            4.00 USD

2020-01-06 * "Amy Cafe" "espresso"
  Liabilities:Card        -3.2503 USD
  Expenses:Food:Coffee     3.2503 USD

2020-01-10 * "Broker" "buy hool" ^link1 ^link2
  Assets:Broker            2 HOOL {100.00 USD, 2020-01-10}
  Assets:Bank:Checking  -200.00 USD

2020-01-15 price HOOL 110.00 USD
2020-01-15 price USD 1.25 CAD

2020-01-20 * "Broker" "sell hool"
  Assets:Broker           -1 HOOL {100.00 USD, 2020-01-10} @ 120.00 USD
  Assets:Bank:Checking   120.00 USD
  Income:Salary          -20.00 USD

2020-02-01 * "Landlord" "rent"
  Assets:Bank:Checking  -500.00 USD
  Expenses:Rent          500.00 USD

2020-02-03 balance Assets:Bank:Checking 407.50 USD

2020-02-05 note Assets:Bank:Checking "called the bank" #food ^link1
2020-02-06 event "location" "Paris"
2020-02-07 document Assets:Bank:Checking "/tmp/statement.pdf" #food ^link9
2020-02-10 price HOOL 90.00 USD

2020-02-15 * "Bob Bistro" "dinner" #food
  Liabilities:Card       -35.00 USD
  Expenses:Food           35.00 USD

2020-03-01 pad Assets:Bank:Checking Equity:Opening
2020-03-02 balance Assets:Bank:Checking 500.00 USD

2020-03-05 close Liabilities:Card
'''

LEDGER_B = '''
2021-01-01 open Assets:Cash
2021-01-01 open Assets:Stock
2021-01-01 open Expenses:Misc
2021-01-01 open Income:Misc
2021-01-01 open Equity:Open

2021-01-02 * "Open" "balances"
  Assets:Cash   1000 USD
  Assets:Cash    500 EUR
  Equity:Open  -1000 USD
  Equity:Open   -500 EUR

2021-01-03 * "Buy" "lots"
  Assets:Stock   10 ACME {5 USD, 2021-01-03}
  Assets:Cash   -50 USD

2021-01-04 * "Buy" "more lots"
  Assets:Stock    4 ACME {6 USD, 2021-01-04}
  Assets:Cash   -24 USD

2021-01-05 price ACME 7 USD
2021-01-05 price EUR 1.2 USD
2021-01-05 price USD 1.25 CAD

2021-01-06 * "Sell" "some"
  Assets:Stock   -3 ACME {5 USD, 2021-01-03} @ 7 USD
  Assets:Cash    21 USD
  Income:Misc    -6 USD

2021-01-07 * "Spend" "eur"
  Assets:Cash    -20 EUR
  Expenses:Misc   20 EUR

2021-01-08 * "Spend" "usd"
  Assets:Cash    -30 USD
  Expenses:Misc   30 USD

2021-01-09 * "Exchange" "eur for usd"
  Assets:Cash   -100 EUR @ 1.25 USD
  Assets:Cash    125 USD
'''

_cache = {}


def load(src):
    if src not in _cache:
        entries, errors, options = loader.load_string(src)
        _cache[src] = (entries, errors, options)
    return _cache[src]


def connect(src=LEDGER_A):
    entries, errors, options = load(src)
    return beanquery.connect('beancount:', entries=entries, errors=errors, options=options)
