"""C09 bounded native harness: parameters vs literals, constant folding vs per-row evaluation,
history independence (re-executing parsed statements, executemany, interleavings), no mutation of the data."""
import copy
import datetime
import itertools
import random
from decimal import Decimal

import beanquery
from beanquery import parser
from harness.common import make_conn, Result, pmap
from harness.refsem import lit, INT, DEC, STR, DATE, BOOL

COLS = [('a', int), ('b', str), ('c', Decimal), ('d', datetime.date)]
ROWS = [(1, 'xyz', Decimal('1.5'), datetime.date(2024, 1, 5)), (2, None, Decimal('2'), datetime.date(2024, 2, 1)), (None, 'pq', None, None),
        (5, 'hello', Decimal('-3'), datetime.date(2023, 12, 31)), (2, 'x', Decimal('0'), datetime.date(2024, 1, 5))]

# (template with {0},{1}.. slots, parameter values with types)
TEMPLATES = [
    ('SELECT a FROM #t WHERE a > {0}', [(1, INT)]),
    ('SELECT a, {0} FROM #t', [('lit', STR)]),
    ('SELECT {0} - {1}, a FROM #t', [(10, INT), (3, INT)]),
    ('SELECT a - {0}, {1} - a FROM #t WHERE a IS NOT NULL', [(1, INT), (7, INT)]),
    ('SELECT substr(b, {0}, {1}) FROM #t', [(1, INT), (3, INT)]),
    ('SELECT a FROM #t WHERE c > {0} AND a < {1}', [(Decimal('0.5'), DEC), (5, INT)]),
    ('SELECT a FROM #t WHERE d >= {0}', [(datetime.date(2024, 1, 5), DATE)]),
    ('SELECT a, b FROM #t WHERE b = {0}', [('x', STR)]),
    ('SELECT a FROM #t ORDER BY a * {0}, b', [(2, INT)]),
    ('SELECT a FROM #t WHERE a IN (SELECT a FROM #t WHERE a > {0}) AND a < {1}', [(1, INT), (5, INT)]),
    ('SELECT {1}, {0}, {2} FROM #t LIMIT 1', [(1, INT), (2, INT), (3, INT)]),
    ('SELECT a FROM #t WHERE {0}', [(True, BOOL)]),
    ('SELECT coalesce(a, {0}) + {0} FROM #t', [(4, INT)]),
    ('SELECT a FROM (SELECT a, c FROM #t WHERE a > {0}) WHERE c < {1}', [(1, INT), (Decimal('2'), DEC)]),
    ('SELECT a + {0} FROM (SELECT a FROM #t WHERE a > {1})', [(10, INT), (1, INT)]),
    ('SELECT {0}, a FROM (SELECT a FROM #t WHERE a > {1}) WHERE a < {2} ORDER BY a * {3}', [('k', STR), (0, INT), (5, INT), (-1, INT)]),
    ('SELECT a - {0} FROM #t WHERE a IN (SELECT a - {1} FROM #t) ORDER BY -a + {2}', [(1, INT), (0, INT), (9, INT)]),
]


def conn():
    return make_conn(t=(COLS, ROWS))


def run_sql(c, q, params=None):
    cur = c.execute(q, params)
    return [(d.name, d.datatype) for d in cur.description], cur.fetchall()


def check_params(case):
    k, style = case
    tmpl, params = TEMPLATES[k]
    lits = [lit(v, t) for v, t in params]
    q_lit = tmpl.format(*lits)
    c = conn()
    try:
        exp = run_sql(c, q_lit)[1]
    except Exception as e:
        return ('harness: literal form runs', {'query': q_lit}, f'{type(e).__name__}: {e}', None)
    if style == 'positional':
        # positional parameters bind in left-to-right textual order
        slots = [int(s) for s in __import__('re').findall(r'\{(\d)\}', tmpl)]
        q = tmpl.format(*['%s'] * len(params))
        pv = [params[s][0] for s in slots]
    else:
        q = tmpl.format(*[f'%(p{i})s' for i in range(len(params))])
        pv = {f'p{i}': v for i, (v, t) in enumerate(params)}
        pv['unused'] = 99
    try:
        got = run_sql(c, q, pv)[1]
    except Exception as e:
        return ('placeholders equal the statement with literals', {'query': q, 'params': repr(pv)}, f'{type(e).__name__}: {e}', exp)
    if got != exp:
        return ('placeholders equal the statement with literals (positional in textual order)', {'query': q, 'params': repr(pv)}, got, exp)
    return None


FOLD = ['1 + 2 * 3', '7 / 2', '7 % 0', '(2 - 5) * 4', "length('abc') + 1", "upper('ab')", '1 = 1 AND NULL', 'NOT NULL', '2 BETWEEN 1 AND 3',
        'coalesce(NULL, 4)', '-3 + 1', '1.5 * 2', '1 / 0', "substr('hello', 1, 3)", 'date_add(2024-01-31, 1)', '2024-03-01 - 2024-02-01',
        'abs(-2.5)', 'safediv(1.0, 0)', "int('12') + 1", "str(12)", 'year(2024-05-06)', "'a' ~ 'A'",
        # boolean connectives over constants: a constant NULL is neither true nor false
        '1 = 2 OR NULL', 'NULL OR 1 = 2', '1 = 1 OR NULL', 'NULL AND 1 = 2', '1 = 2 OR NULL OR 1 = 3', 'NOT (1 = 2 OR NULL)', 'coalesce(1 = 2 OR NULL, 1 = 1)', '(NULL OR 1 = 2) IS NULL', 'NULL IS NULL', 'NULL IS NOT NULL',
        '(7 % 0) IS NULL', 'NOT (1 / 0 > 0)']


# constant boolean expressions with the value the truth tables of the statement give them (folding must not change it)
CONST_TRUTH = [('1 = 2 OR NULL', None), ('NULL OR 1 = 2', None), ('1 = 1 OR NULL', True), ('NULL OR 1 = 1', True), ('NULL AND 1 = 2', None), ('1 = 2 AND NULL', False), ('1 = 1 AND NULL', None),
               ('NOT NULL', True), ('NULL IS NULL', True), ('NULL IS NOT NULL', False), ('(1 = 2 OR NULL) IS NULL', True), ('coalesce(1 = 2 OR NULL, 1 = 1)', True), ('1 = 2 OR NULL OR 1 = 3', None),
               ('(7 % 0) IS NULL', True), ('NOT (1 / 0 > 0)', True), ('coalesce(NULL, NOT NULL)', True)]


def check_const_truth(res):
    c = conn()
    for expr, want in CONST_TRUTH:
        res.case(('const-truth', expr))
        for q, params in ((f'SELECT {expr}, a FROM #t', None), (f"SELECT {expr.replace('NULL', '%s')}, a FROM #t", tuple(None for _ in range(expr.count('NULL'))))):
            try:
                got = c.execute(q, params).fetchall()
            except beanquery.ProgrammingError:
                continue
            except Exception as e:  # noqa
                res.violation('h09:const-truth:' + expr, 'constant expressions evaluate', {'query': q}, f'{type(e).__name__}: {e}', want)
                continue
            if any(r[0] is not want for r in got):
                res.violation('h09:const-truth:' + expr, 'a constant (or parameter) operand is evaluated by the same truth tables as a column holding it', {'query': q, 'params': repr(params)}, got[:1], want)


def check_fold(expr):
    """a constant expression has the same value whether folded or evaluated per row from columns holding the same constants"""
    import re
    toks = re.findall(r"\d{4}-\d{2}-\d{2}|\d+\.\d+|\d+|'[^']*'|NULL", expr)
    cols, vals, text = [], [], expr
    c = conn()
    # build a table whose columns hold the constants
    parts = re.split(r"(\d{4}-\d{2}-\d{2}|\d+\.\d+|\d+|'[^']*'|NULL)", expr)
    out, k = [], 0
    for p in parts:
        if re.fullmatch(r"\d{4}-\d{2}-\d{2}", p):
            v, t = datetime.date.fromisoformat(p), datetime.date
        elif re.fullmatch(r"\d+\.\d+", p):
            v, t = Decimal(p), Decimal
        elif re.fullmatch(r"\d+", p):
            v, t = int(p), int
        elif re.fullmatch(r"'[^']*'", p):
            v, t = p[1:-1], str
        elif p == 'NULL':
            out.append(p)
            continue
        else:
            out.append(p)
            continue
        cols.append((f'k{k}', t)); vals.append(v); out.append(f'k{k}'); k += 1
    from harness.common import MemTable
    c.tables['k'] = MemTable('k', cols or [('k0', int)], [tuple(vals) or (0,)])
    try:
        folded = c.execute(f'SELECT {expr} FROM #k').fetchall()
        perrow = c.execute(f'SELECT {"".join(out)} FROM #k').fetchall()
    except beanquery.ProgrammingError as e:
        return None
    except Exception as e:
        return ('constant expressions evaluate', {'expr': expr}, f'{type(e).__name__}: {e}', None)
    if folded != perrow or [type(x) for x in folded[0]] != [type(x) for x in perrow[0]]:
        return ('folded constant equals per-row evaluation from columns holding the same constants', {'expr': expr, 'columns': ''.join(out)}, folded, perrow)
    return None


STMTS = [
    ('SELECT a FROM #t WHERE a > %s', [(1,), (2,), (0,)]),
    ('SELECT %s - %s FROM #t LIMIT 1', [(10, 3), (3, 10)]),
    ('SELECT a - %s, %s FROM #t WHERE a = %s', [(1, 'k', 2), (0, 'm', 5)]),
    ('SELECT a FROM #t WHERE a > %(lo)s AND a < %(hi)s', [{'lo': 0, 'hi': 3}, {'lo': 1, 'hi': 9}]),
    ('SELECT a, %(x)s, %(x)s FROM #t WHERE a IN (SELECT a FROM #t WHERE a >= %(x)s)', [{'x': 2}, {'x': 1}]),
    ('SELECT count(*), sum(a) FROM #t WHERE a > %s', [(1,), (100,)]),
    ('SELECT b FROM #t ORDER BY a * %s', [(1,), (-1,)]),
    ('SELECT a FROM #t', [None, None]),
    # subquery tables with different output names: a later statement must not see the columns of an earlier subquery
    ('SELECT * FROM (SELECT a AS x FROM #t WHERE a > %s)', [(0,), (1,)]),
    ('SELECT * FROM (SELECT a AS y, b AS z FROM #t WHERE a > %s)', [(0,), (2,)]),
    ('SELECT x FROM (SELECT a AS x, b AS y FROM #t)', [None]),
    # constants that are equal but not identical (Decimal 7.1 / 7.10, int 1 / TRUE): folding one must not answer for the other
    ('SELECT str(%s), a FROM #t LIMIT 1', [(Decimal('7.1'),), (Decimal('7.10'),), (Decimal('-0'),), (Decimal('0'),)]),
    ('SELECT str(2.5), abs(2.5) FROM #t LIMIT 1', [None]),
    ('SELECT str(2.50), abs(2.50) FROM #t LIMIT 1', [None]),
    # the same pattern text used by case-insensitive matching (~) and by the case-sensitive functions (grep, subst, findfirst)
    ("SELECT a FROM #t WHERE b ~ 'XY'", [None]), ("SELECT grep('XY', b), grep('xy', b) FROM #t", [None]), ("SELECT a FROM #t WHERE b ~ 'hell'", [None]),
    ("SELECT subst('HELL', '-', b), grep('hell', b) FROM #t", [None]), ("SELECT a, b ~ %s FROM #t", [('PQ',), ('pq',)]), ("SELECT grep(%s, b) FROM #t", [('PQ',), ('pq',)]),
    # boolean parameters
    ('SELECT %s OR %s, a FROM #t LIMIT 2', [(False, None), (None, False), (True, None)]), ('SELECT a FROM #t WHERE (a > %s OR %s) IS NULL', [(100, None), (0, None)]),
]
_PRISTINE = {}


def _pristine_one(job):
    """the result of one statement in a process that has executed nothing else (spawned, one task per process)"""
    si, pi = job
    text, plist = STMTS[si]
    try:
        return (si, pi), ('ok', conn().execute(text, plist[pi]).fetchall())
    except Exception as e:  # noqa
        return (si, pi), ('error', f'{type(e).__name__}: {e}')


def pristine_results():
    """expected results computed in pristine processes: state that survives an execution anywhere in a process (class-level
    registries, memo caches) would otherwise contaminate the fresh connection the expected value comes from, too"""
    import multiprocessing as mp
    jobs = [(si, pi) for si, (t, pl) in enumerate(STMTS) for pi in range(len(pl))]
    with mp.get_context('spawn').Pool(min(16, len(jobs)), maxtasksperchild=1) as pool:
        for key, val in pool.map(_pristine_one, jobs, chunksize=1):
            _PRISTINE[key] = val


def check_history(hist):
    """hist: list of (stmt index, param index, mode) ; mode in text / ast (parsed once, re-used)"""
    c = conn()
    before = copy.deepcopy(c.tables['t'].rows)
    asts = {}
    for step, (si, pi, mode) in enumerate(hist):
        text, plist = STMTS[si]
        params = plist[pi]
        if (si, pi) in _PRISTINE:
            kind, exp = _PRISTINE[(si, pi)]
            if kind != 'ok':
                return ('harness: single execution in a pristine process runs', {'history': hist}, exp, None)
        else:
            fresh = conn()
            try:
                exp = fresh.execute(text, params).fetchall()
            except Exception as e:
                return ('harness: fresh single execution runs', {'history': hist}, f'{type(e).__name__}: {e}', None)
        try:
            if mode == 'ast':
                if si not in asts:
                    asts[si] = parser.parse(text)
                got = c.execute(asts[si], params).fetchall()
            else:
                got = c.execute(text, params).fetchall()
        except Exception as e:
            return ('re-executing a parsed statement / other executions in between never make an execution fail', {'history': hist, 'step': step},
                    f'{type(e).__name__}: {e}', exp)
        if got != exp:
            return ('a result depends only on the statement, its parameters and the data', {'history': hist, 'step': step}, got, exp)
    if c.tables['t'].rows != before:
        return ('executing never mutates the source data', {'history': hist}, c.tables['t'].rows, before)
    return None


ROWS2 = [(7, 'n', Decimal('4'), datetime.date(2022, 5, 5)), (1, 'xyz', Decimal('9'), datetime.date(2024, 1, 5)), (None, None, None, None)]


def check_data_change(res):
    """the same statement text on the same connection after the data changed (the table re-registered, its rows replaced in place,
    emptied): the result is the one a fresh connection over the new data gives - nothing of an earlier execution is kept"""
    texts = [t for t, pl in STMTS if pl[0] is None][:12] + [
        'SELECT a FROM #t WHERE a IN (SELECT a FROM #t WHERE a > 1)', 'SELECT a FROM #t WHERE a NOT IN (SELECT a FROM #t WHERE a > 100)',
        'SELECT a, b FROM (SELECT a, b FROM #t WHERE a > 1) ORDER BY a', 'SELECT count(*), sum(c) FROM #t', 'SELECT * FROM #t']
    for text in texts:
        for how in ('re-register', 'in-place', 'emptied'):
            res.case(('data-change', text, how))
            c = conn()
            try:
                c.execute(text).fetchall()
                new_rows = [] if how == 'emptied' else ROWS2
                if how == 're-register':
                    c.tables['t'] = make_conn(t=(COLS, new_rows)).tables['t']
                else:
                    c.tables['t'].rows[:] = new_rows
                got = c.execute(text).fetchall()
                exp = make_conn(t=(COLS, new_rows)).execute(text).fetchall()
            except Exception as e:
                res.violation('h09:data-change:' + how + ':' + text[:50], 'a statement executes again after the data changed', {'query': text, 'change': how}, f'{type(e).__name__}: {e}', 'rows')
                continue
            if got != exp:
                res.violation('h09:data-change:' + how + ':' + text[:50], 'a result depends only on the statement, its parameters and the data: executed again after the data changed, '
                              'a statement sees the new data', {'query': text, 'change': how}, got[:4], exp[:4])


def check_executemany(si):
    text, plist = STMTS[si]
    if plist[0] is None:
        return None
    c = conn()
    cur = c.cursor()
    try:
        cur.executemany(text, plist)
        got = cur.fetchall()
    except Exception as e:
        return ('executemany executes the statement once per parameter set', {'stmt': text, 'params': repr(plist)}, f'{type(e).__name__}: {e}', None)
    exp = conn().execute(text, plist[-1]).fetchall()
    if got != exp:
        return ('executemany leaves the result of the last parameter set', {'stmt': text, 'params': repr(plist)}, got, exp)
    return None


LEDGER_STMTS = ['SELECT count(*)', 'SELECT account, sum(position) GROUP BY account ORDER BY account', 'SELECT count(*) FROM OPEN ON 2020-01-15 CLOSE ON 2020-02-10',
                'SELECT account, sum(position) FROM OPEN ON 2020-02-01 CLEAR GROUP BY account ORDER BY account', 'SELECT count(*) FROM CLOSE ON 2020-01-20', 'BALANCES FROM OPEN ON 2020-01-15',
                'SELECT count(*) FROM #entries', 'SELECT date, balance WHERE account ~ "Checking"', 'SELECT count(*) FROM year = 2020 CLOSE', 'JOURNAL "Food" FROM CLOSE ON 2020-02-01',
                'SELECT %s, narration FROM year = %s ORDER BY date', 'SELECT meta(%s), entry_meta(%s) WHERE any_meta(%s) IS NOT NULL',
                # statements over another table than the default one, compiled on the same connection (the shell's path: Connection.compile)
                'PRINT FROM year = 2020', 'SELECT account FROM #accounts ORDER BY account', 'PRINT FROM CLOSE ON 2020-02-01',
                # statements that read posting metadata after any_meta() looked keys up; arithmetic whose digits depend on the decimal context
                "SELECT account, meta('ref'), meta('who') WHERE meta('ref') IS NOT NULL OR meta('who') IS NOT NULL", 'SELECT round(0.0, 40), round(number, 20), round(0.00, 30) WHERE number > 0',
                'SELECT number / 3, number / 7 WHERE number > 0 ORDER BY date, account']
LEDGER_PARAMS = {10: ('tag', 2020), 11: ('memo', 'ref', 'ref')}


def _ledger_run(c, q, params):
    """what the statement produces on connection c: rows, or the printed text of a PRINT statement (compiled through the connection, as the shell does)"""
    if q.startswith('PRINT'):
        import io
        from beanquery import query_execute
        out = io.StringIO()
        query_execute.execute_print(c.compile(c.parse(q)), out)
        return out.getvalue().splitlines()
    return c.execute(q, params).fetchall()


def check_ledger_history(hist):
    """histories over a Beancount-backed connection: each execution equals the same statement on a fresh connection"""
    from harness import ledger
    import decimal as _decimal
    c = ledger.connect()
    entries = ledger.load(ledger.LEDGER_A)[0]
    snap = lambda: copy.deepcopy([(e.meta, [p.meta for p in getattr(e, 'postings', None) or []]) for e in entries])
    ctx = lambda: (_decimal.getcontext().prec, _decimal.getcontext().rounding, _decimal.getcontext().Emax, _decimal.getcontext().Emin)
    before, ctx_before = snap(), ctx()
    bad = _ledger_steps(c, hist)
    if bad:
        return bad
    if snap() != before:
        return ('executing never mutates the source data (metadata of the directives and postings of the ledger)', {'ledger_history': [LEDGER_STMTS[i] for i in hist], 'step': len(hist) - 1}, 'metadata changed', 'unchanged')
    if ctx() != ctx_before:
        return ('executing leaves the ambient decimal context alone (later results would depend on it)', {'ledger_history': [LEDGER_STMTS[i] for i in hist], 'step': len(hist) - 1}, ctx(), ctx_before)
    return None


def _ledger_steps(c, hist):
    from harness import ledger
    for step, si in enumerate(hist):
        q = LEDGER_STMTS[si]
        params = LEDGER_PARAMS.get(si)
        try:
            exp = _ledger_run(ledger.connect(), q, params)
        except Exception as e:
            return ('a statement executes on a fresh connection', {'ledger_history': [LEDGER_STMTS[i] for i in hist], 'step': step}, f'{type(e).__name__}: {e}', 'rows')
        try:
            got = _ledger_run(c, q, params)
        except Exception as e:
            return ('other executions in between never make an execution fail (ledger connection)', {'ledger_history': [LEDGER_STMTS[i] for i in hist], 'step': step}, f'{type(e).__name__}: {e}', exp[:3])
        if got != exp:
            return ('a result depends only on the statement, its parameters and the data (ledger connection)', {'ledger_history': [LEDGER_STMTS[i] for i in hist], 'step': step}, got[:3], exp[:3])
    return None


def ledger_params(res):
    """positional parameters bind in textual order also when FROM and the targets both hold placeholders"""
    from harness import ledger
    c = ledger.connect()
    for q, params, lit in [('SELECT %s, narration FROM year = %s ORDER BY date', ('tag', 2020), "SELECT 'tag', narration FROM year = 2020 ORDER BY date"),
                           ('SELECT meta(%s), entry_meta(%s) WHERE any_meta(%s) IS NOT NULL', ('memo', 'ref', 'ref'), "SELECT meta('memo'), entry_meta('ref') WHERE any_meta('ref') IS NOT NULL"),
                           ('SELECT account, %s WHERE number > %s AND account ~ %s', ('x', 100, 'Assets'), "SELECT account, 'x' WHERE number > 100 AND account ~ 'Assets'")]:
        res.case(('ledger-params', q))
        try:
            got = c.execute(q, params).fetchall()
        except Exception as e:
            got = f'{type(e).__name__}: {e}'
        exp = c.execute(lit).fetchall()
        if got != exp:
            res.violation('h09:ledger-params:' + q[:60], 'placeholders equal the statement with literals (positional in textual order)', {'query': q, 'params': repr(params)}, got if isinstance(got, str) else got[:3], exp[:3])


def arity(res):
    c = conn()
    for q, p, ok in [('SELECT %s FROM #t', (1, 2), False), ('SELECT %s, %s FROM #t', (1,), False), ('SELECT %(a)s FROM #t', {'b': 1}, False),
                     ('SELECT %s, %(a)s FROM #t', (1,), False), ('SELECT %s FROM #t', (1,), True)]:
        res.case(('arity', q, repr(p)))
        try:
            c.execute(q, p)
            good = ok
        except beanquery.ProgrammingError:
            good = not ok
        except Exception as e:
            good = False
        if not good:
            res.violation('h09:arity:' + q, 'parameters must match placeholders (ProgrammingError otherwise)', {'query': q, 'params': repr(p)}, 'wrong outcome', 'accept' if ok else 'ProgrammingError')


def run(tier, seed):
    res = Result('placeholders: 14 templates x positional/named vs literal substitution; folding: 22 constant expressions vs the same expression over '
                 'columns holding the constants; histories: exhaustive sequences of length <= 2 (3 thorough) over 8 statements x parameter sets x '
                 '{text, parsed-once AST} plus seeded random longer ones; executemany; arity rules')
    pc = [(k, st) for k in range(len(TEMPLATES)) for st in ('positional', 'named')]
    for case, bad in zip(pc, map(check_params, pc)):
        res.case(('params',) + case, {'template': TEMPLATES[case[0]][0], 'style': case[1]})
        if bad:
            res.violation('h09:params:' + bad[1]['query'][:90], bad[0], bad[1], bad[2], bad[3])
    for e, bad in zip(FOLD, map(check_fold, FOLD)):
        res.case(('fold', e), {'fold': e})
        if bad:
            res.violation('h09:fold:' + e, bad[0], bad[1], bad[2], bad[3])
    pristine_results()
    check_const_truth(res)
    steps = [(si, pi, mode) for si, (t, pl) in enumerate(STMTS) for pi in range(len(pl)) for mode in ('text', 'ast')]
    hists = [[s] for s in steps] + [list(h) for h in itertools.product(steps, repeat=2)]
    rng = random.Random(seed)
    if tier != 'quick':
        hists += [list(h) for h in itertools.islice(itertools.product(steps, repeat=3), 0, 40000, 7)]
    for _ in range(200 if tier == 'quick' else 2000):
        hists.append([rng.choice(steps) for _ in range(rng.randint(3, 5))])
    for h, bad in zip(hists, pmap(check_history, hists, chunk=16)):
        res.case(('hist', tuple(h)), {'history': [list(s) for s in h]})
        if bad:
            st = bad[1]['history'][bad[1].get('step', 0)] if 'step' in bad[1] else None
            fp = 'h09:history:' + bad[0][:40] + ':' + (f'stmt{st[0]}-{st[2]}' if st else '')
            res.violation(fp, bad[0], {'history': [list(s) for s in bad[1]['history']], 'step': bad[1].get('step')}, bad[2], bad[3])
    n = len(LEDGER_STMTS)
    lh = [[a] for a in range(n)] + [[a, b] for a in range(n) for b in range(n)]
    for _ in range(60 if tier == 'quick' else 600):
        lh.append([rng.randrange(n) for _ in range(rng.randint(3, 5))])
    for h, bad in zip(lh, pmap(check_ledger_history, lh, chunk=4)):
        res.case(('ledger-hist', tuple(h)), {'ledger_history': h})
        if bad:
            res.violation('h09:ledger-history:' + bad[0][:30] + ':' + str(bad[1]['ledger_history'][bad[1]['step']])[:60], bad[0], bad[1], bad[2], bad[3])
    ledger_params(res)
    check_data_change(res)
    for si in range(len(STMTS)):
        res.case(('executemany', si))
        bad = check_executemany(si)
        if bad:
            res.violation('h09:executemany:stmt%d' % si, bad[0], bad[1], bad[2], bad[3])
    arity(res)
    return res.asdict()


def replay(case):
    if 'ledger_history' in case:
        bad = check_ledger_history([LEDGER_STMTS.index(q) for q in case['ledger_history']])
        return {'status': 'reproduced' if bad else 'not-reproduced', 'detail': repr(bad)[:500]}
    if 'history' in case:
        bad = check_history([tuple(s) for s in case['history']])
        return {'status': 'reproduced' if bad else 'not-reproduced', 'detail': repr(bad)[:500]}
    if 'stmt' in case:
        for si in range(len(STMTS)):
            if STMTS[si][0] == case['stmt']:
                bad = check_executemany(si)
                return {'status': 'reproduced' if bad else 'not-reproduced', 'detail': repr(bad)[:500]}
    if 'expr' in case:
        bad = check_fold(case['expr'])
        return {'status': 'reproduced' if bad else 'not-reproduced', 'detail': repr(bad)[:500]}
    for k in range(len(TEMPLATES)):
        for st in ('positional', 'named'):
            bad = check_params((k, st))
            if bad and bad[1].get('query') == case.get('query'):
                return {'status': 'reproduced', 'detail': repr(bad)[:500]}
    return {'status': 'not-reproduced', 'detail': 'case passes'}
