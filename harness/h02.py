"""C02 bounded native harness: aggregate SELECTs against the fold specification of the statement."""
import itertools
import random
from decimal import Decimal

from harness.common import make_conn, Result, pmap
from harness import refsem as R

COLS = [('k', str), ('g', int), ('i', int), ('d', Decimal), ('s', str), ('t', R.datetime.date)]
_d = R.datetime.date
D = Decimal
TABLES = {
    'base': [
        ('a', 1, 5, D('1.5'), 'x', _d(2024, 1, 2)),
        ('b', 1, None, D('2'), None, _d(2024, 1, 1)),
        ('a', 2, 3, None, 'y', None),
        (None, 1, 7, D('0.5'), 'z', _d(2023, 5, 5)),
        ('b', 1, 2, D('-1'), 'w', _d(2024, 3, 3)),
        (None, 1, None, None, None, None),
        ('a', 1, -4, D('4'), 'x', _d(2022, 2, 2)),
        ('c', None, 0, D('0'), '', _d(2024, 1, 2)),
        ('b', 2, 9, D('9'), 'q', _d(2021, 1, 1)),
    ],
    'empty': [],
    'one': [('a', 1, None, None, None, None)],
    'interleaved': [('a', 1, 1, D('1'), 'p', None), ('b', 1, 2, D('2'), 'q', None), ('a', 1, 3, D('3'), 'r', None),
                    ('b', 1, 4, D('4'), None, None), ('a', 1, 5, D('5'), 't', None)],
}
NAMES = [c for c, _ in COLS]
TY = dict(COLS)

AGGS = {
    'count(*)': lambda rows: len(rows),
    'count({c})': lambda vals: sum(1 for v in vals if v is not None),
    'sum({c})': None, 'min({c})': None, 'max({c})': None, 'first({c})': None, 'last({c})': None,
}


def fold(fn, col, rows):
    idx = NAMES.index(col) if col else None
    vals = [r[idx] for r in rows] if col else None
    if fn == 'count*': return len(rows)
    if fn == 'count': return sum(1 for v in vals if v is not None)
    if fn == 'sum':
        acc = TY[col]()       # the type's zero
        for v in vals:
            if v is not None: acc += v
        return acc
    nn = [v for v in vals if v is not None]
    if fn == 'min': return min(nn) if nn else None
    if fn == 'max': return max(nn) if nn else None
    if fn == 'first': return nn[0] if nn else None      # first value, skipping leading NULLs
    if fn == 'last': return vals[-1] if vals else None
    raise ValueError(fn)


def agg_text(fn, col):
    return 'count(*)' if fn == 'count*' else f'{fn}({col})'


def where_fn(w):
    return {None: lambda r: True, 'g = 1': lambda r: r[1] is not None and r[1] == 1, 'i > 2': lambda r: r[2] is not None and r[2] > 2,
            'i IS NULL': lambda r: r[2] is None, 'g = 99': lambda r: False, 'k != "a"': lambda r: r[0] is not None and r[0] != 'a'}[w]


def expected(table, keys, aggs, where, having):
    rows = [r for r in TABLES[table] if where_fn(where)(r)]
    groups, order = {}, []
    kidx = [NAMES.index(k) for k in keys]
    for r in rows:
        key = tuple(r[i] for i in kidx)
        if key not in groups:
            groups[key] = []
            order.append(key)
        groups[key].append(r)
    out = []
    for key in order:
        grp = groups[key]
        if having is not None:
            hv = fold(having[0], having[1], grp)
            ok = hv is not None and {'>': hv > having[3], '<=': hv <= having[3], '=': hv == having[3]}[having[2]]
            if not ok:
                continue
        out.append((key, [fold(f, c, grp) for f, c in aggs]))
    return out


def build(case):
    """case -> (query text, expected rows)"""
    table, keys, keystyle, aggs, where, having, arith = case
    exp = expected(table, keys, aggs, where, having)
    agg_txt = [agg_text(f, c) for f, c in aggs]
    if arith:
        # arithmetic over aggregates: count(*) + count(*) * 2 as an extra target
        agg_txt = agg_txt + ['count(*) * 2 + count(*)']
    if keystyle == 'visible-expr':
        targets = keys + agg_txt; group = 'GROUP BY ' + ', '.join(keys) if keys else ''
        rows = [tuple(k) + tuple(a) + ((3 * len_(table, keys, where, k),) if arith else ()) for k, a in exp]
    elif keystyle == 'implicit':
        targets = keys + agg_txt; group = ''
        rows = [tuple(k) + tuple(a) + ((3 * len_(table, keys, where, k),) if arith else ()) for k, a in exp]
    elif keystyle == 'position':
        targets = keys + agg_txt; group = 'GROUP BY ' + ', '.join(str(i + 1) for i in range(len(keys)))
        rows = [tuple(k) + tuple(a) + ((3 * len_(table, keys, where, k),) if arith else ()) for k, a in exp]
    elif keystyle == 'name':
        targets = [f'{k} AS n{j}' for j, k in enumerate(keys)] + agg_txt; group = 'GROUP BY ' + ', '.join(f'n{j}' for j in range(len(keys)))
        rows = [tuple(k) + tuple(a) + ((3 * len_(table, keys, where, k),) if arith else ()) for k, a in exp]
    elif keystyle == 'invisible':
        targets = agg_txt; group = 'GROUP BY ' + ', '.join(keys)
        rows = [tuple(a) + ((3 * len_(table, keys, where, k),) if arith else ()) for k, a in exp]
    elif keystyle == 'dup-first':
        # the first key referenced twice, by position and by name, before the second key
        targets = keys + agg_txt; group = 'GROUP BY 1, ' + ', '.join(keys)
        rows = [tuple(k) + tuple(a) + ((3 * len_(table, keys, where, k),) if arith else ()) for k, a in exp]
    elif keystyle == 'dup-name':
        targets = keys + agg_txt; group = 'GROUP BY ' + ', '.join([keys[0]] + keys)
        rows = [tuple(k) + tuple(a) + ((3 * len_(table, keys, where, k),) if arith else ()) for k, a in exp]
    elif keystyle == 'after-aggs':
        targets = agg_txt + keys; group = 'GROUP BY ' + ', '.join(keys) if keys else ''
        rows = [tuple(a) + ((3 * len_(table, keys, where, k),) if arith else ()) + tuple(k) for k, a in exp]
    q = 'SELECT ' + ', '.join(targets) + f' FROM #{table}'
    if where: q += ' WHERE ' + where
    if group: q += ' ' + group
    if having is not None:
        q += f' HAVING {agg_text(having[0], having[1])} {having[2]} {having[3]}'
    return q, rows


def len_(table, keys, where, key):
    kidx = [NAMES.index(k) for k in keys]
    return sum(1 for r in TABLES[table] if where_fn(where)(r) and tuple(r[i] for i in kidx) == tuple(key))


def conn():
    return make_conn(**{n: (COLS, rows) for n, rows in TABLES.items()})


def check(case):
    try:
        q, exp = build(case)
    except Exception as e:
        return ('harness-internal', {'case': repr(case)}, f'{type(e).__name__}: {e}', None)
    try:
        got = conn().execute(q).fetchall()
    except Exception as e:
        return ('aggregate query accepted and executed', {'query': q}, f'{type(e).__name__}: {e}', exp)
    if [tuple(r) for r in got] != exp or any(type(a) is not type(b) for r, e in zip(got, exp) for a, b in zip(r, e)):
        return ('one row per group passing HAVING, in order of first appearance, each aggregate = fold over the group', {'query': q}, got, exp)
    return None


def cases(tier, seed):
    rng = random.Random(seed)
    aggpool = [('count*', None)] + [(f, c) for f in ('count', 'min', 'max', 'first', 'last') for c in ('i', 'd', 's', 't')] \
        + [('sum', 'i'), ('sum', 'd')]
    keysets = [[], ['k'], ['g'], ['k', 'g'], ['g', 'k']]
    out = []
    for table in TABLES:
        for keys in keysets:
            styles = ['visible-expr', 'implicit', 'position', 'name', 'invisible', 'after-aggs'] if keys else ['visible-expr']
            for style in styles:
                for a in aggpool:
                    out.append((table, keys, style, [a], None, None, False))
                out.append((table, keys, style, [('sum', 'i'), ('count*', None), ('max', 'd')], None, None, True))
    # repeated group references (the same target by position and by name): keys are de-duplicated, later key cells keep their own value
    for table in TABLES:
        out.append((table, ['k', 'g'], 'dup-first', [('sum', 'i'), ('count*', None)], None, None, False))
        out.append((table, ['k', 'g'], 'dup-name', [('sum', 'i')], None, None, False))
    # wide statements: nine and more targets, so that group keys sit at target positions 8 and above (after the aggregates, or
    # invisible after them) while others sit in front
    wide = [('count*', None), ('sum', 'i'), ('sum', 'd'), ('min', 'i'), ('max', 'd'), ('first', 's'), ('last', 't'), ('count', 's'), ('max', 's')]
    for table in TABLES:
        for keys in (['k', 'g'], ['g', 'k']):
            for style in ('after-aggs', 'invisible', 'visible-expr', 'position'):
                out.append((table, keys, style, wide[:7], None, None, False))
                out.append((table, keys, style, wide, None, None, True))
    wheres = ['g = 1', 'i > 2', 'i IS NULL', 'g = 99', 'k != "a"']
    havings = [('count*', None, '>', 1), ('sum', 'i', '>', 4), ('count', 's', '<=', 1), ('max', 'i', '=', 9)]
    n = 150 if tier == 'quick' else 1500
    for _ in range(n):
        keys = rng.choice(keysets)
        style = rng.choice(['visible-expr', 'implicit', 'position', 'name', 'invisible', 'after-aggs']) if keys else 'visible-expr'
        aggs = rng.sample(aggpool, rng.randint(1, 3))
        having = rng.choice(havings + [None]) if style != 'implicit' or True else None
        if style == 'implicit' and having is not None:
            having = None
        if not keys and having is not None:
            having = None
        out.append((rng.choice(list(TABLES)), keys, style, aggs, rng.choice(wheres + [None]), having, rng.random() < 0.3))
    return out


def _same(a, b):
    """equality that never raises (value classes of the libraries compare attribute-wise and may choke on foreign types)"""
    try:
        return type(a) is type(b) and bool(a == b) if not isinstance(a, (list, tuple)) else (len(a) == len(b) and all(_same(x, y) for x, y in zip(a, b)))
    except Exception:  # noqa
        return False


def ledger_groups(res):
    """aggregation over a ledger: keys that are tuple-like values (amounts, positions), sums of amounts that cancel, one inventory
    column summed by several aggregate nodes - each against a fold written with the Beancount inventory"""
    from harness import ledger
    from beancount.core import data, inventory, convert
    entries, _, _ = ledger.load(ledger.LEDGER_A)
    conn = ledger.connect(ledger.LEDGER_A)
    posts = [(e, p) for e in entries if isinstance(e, data.Transaction) for p in e.postings]
    # (a) one grouping key whose values are amounts: one row per distinct amount, first-appearance order, the key cell is the amount
    for keyexpr, keyfn in (('units(position)', lambda p: p.units), ('cost(position)', lambda p: convert.get_cost(p))):
        for style in (f'SELECT {keyexpr} AS u, count(*) FROM #postings GROUP BY u', f'SELECT {keyexpr}, count(*) FROM #postings GROUP BY 1', f'SELECT {keyexpr}, count(*) FROM #postings'):
            res.case(('ledger-key', style))
            want, order = {}, []
            for e, p in posts:
                k = keyfn(p)
                if k not in want:
                    want[k] = 0
                    order.append(k)
                want[k] += 1
            try:
                got = [tuple(r) for r in conn.execute(style).fetchall()]
            except Exception as ex:  # noqa
                got = f'{type(ex).__name__}: {ex}'
            exp = [(k, want[k]) for k in order]
            if not (isinstance(got, list) and _same(got, exp)):
                res.violation('h02:ledger-key:' + style[:60], 'one row per distinct key value in order of first appearance; the key cell is the key value itself', {'query': style},
                              got[:3] if isinstance(got, list) else got, exp[:3])
    # (b) sums of amounts per account against the inventory fold (amounts that cancel leave nothing behind)
    for expr, fn in (('units(position)', lambda p: p.units), ('cost(position)', lambda p: convert.get_cost(p))):
        q = f'SELECT account, sum({expr}), count(*) FROM #postings GROUP BY account'
        res.case(('ledger-sum-amount', q))
        want, order = {}, []
        for e, p in posts:
            if p.account not in want:
                want[p.account] = [inventory.Inventory(), 0]
                order.append(p.account)
            want[p.account][0].add_amount(fn(p))
            want[p.account][1] += 1
        got = [tuple(r) for r in conn.execute(q).fetchall()]
        exp = [(a, want[a][0], want[a][1]) for a in order]
        if got != exp:
            bad = next(((g, x) for g, x in zip(got, exp) if g != x), (len(got), len(exp)))
            res.violation('h02:ledger-sum-amount:' + expr, 'sum over a group equals the fold of the group values (amounts that add up to zero leave an empty inventory)', {'query': q}, bad[0], bad[1])
    # per transaction: the units of a single-currency transaction cancel, the sum is the empty inventory
    q = 'SELECT id, sum(units(position)), count(*) FROM #postings GROUP BY id'
    res.case(('ledger-sum-amount', q))
    want, order = {}, []
    from beancount.core.compare import hash_entry
    for e, p in posts:
        k = hash_entry(e)
        if k not in want:
            want[k] = [inventory.Inventory(), 0]
            order.append(k)
        want[k][0].add_amount(p.units)
        want[k][1] += 1
    got = [tuple(r) for r in conn.execute(q).fetchall()]
    exp = [(k, want[k][0], want[k][1]) for k in order]
    if got != exp:
        bad = next(((g, x) for g, x in zip(got, exp) if g != x), (len(got), len(exp)))
        res.violation('h02:ledger-sum-amount:per-transaction', 'sum over a group equals the fold of the group values (amounts that add up to zero leave an empty inventory)', {'query': q}, bad[0], bad[1])
    whole = inventory.Inventory()
    for e, p in posts:
        whole.add_amount(p.units)
    for q in ['SELECT sum(units(position)), sum(units(position)) FROM #postings', "SELECT sum(units(position)) FROM #postings WHERE currency = 'USD'"]:
        res.case(('ledger-sum-amount', q))
        got = conn.execute(q).fetchall()
        exp = whole if 'WHERE' not in q else inventory.Inventory([pos for pos in whole if pos.units.currency == 'USD'])
        if not got or any(v != exp for v in got[0]):
            res.violation('h02:ledger-sum-amount-total:' + q[:50], 'sum over the selection equals the fold of the values', {'query': q}, got, exp)
    # (c) one inventory column of a subquery consumed by several aggregate nodes of one statement
    total = inventory.Inventory()
    for e, p in posts:
        total.add_position(p)
    for q in ['SELECT sum(t) AS a, sum(t) AS b FROM (SELECT account, sum(position) AS t FROM #postings GROUP BY account)',
              'SELECT sum(t), first(t), count(t) FROM (SELECT account, sum(position) AS t FROM #postings GROUP BY account)',
              'SELECT sum(t), units(sum(t)), cost(sum(t)) FROM (SELECT account, sum(position) AS t FROM #postings GROUP BY account)']:
        res.case(('ledger-sum-inventory', q))
        got = conn.execute(q).fetchall()
        firstacct = inventory.Inventory()
        for e, p in posts:
            if p.account == posts[0][1].account:
                firstacct.add_position(p)
        twice = inventory.Inventory()
        twice.add_inventory(total)
        twice.add_inventory(total)
        ok = bool(got) and got[0][0] == total and ('first' not in q or got[0][1] == firstacct) and (' AS b' not in q or got[0][1] == total) and ('units(' not in q or (got[0][1] == total.reduce(convert.get_units) and got[0][2] == total.reduce(convert.get_cost)))
        if not ok:
            res.violation('h02:ledger-sum-inventory:' + q[:60], 'every aggregate folds the group on its own: a second consumer of the same column changes nothing', {'query': q}, got, total)


def additivity(res):
    c = conn()
    for table in TABLES:
        for col in ('i', 'd'):
            for key in ('k', 'g', 'k, g'):
                res.case(('additivity', table, col, key))
                tot = c.execute(f'SELECT sum({col}), count(*), count({col}) FROM #{table}').fetchall()
                grp = c.execute(f'SELECT sum({col}), count(*), count({col}) FROM #{table} GROUP BY {key}').fetchall()
                if not tot:
                    if grp:
                        res.violation('h02:no-row-no-output', 'a selection with no qualifying row yields no output row', {'table': table}, grp, [])
                    continue
                if any(v is None for row in list(grp) + list(tot) for v in row):
                    res.violation('h02:sum-of-nulls', 'sum of a group without non-NULL values is the zero of the type (counts are 0), never NULL',
                                  {'table': table, 'col': col, 'key': key}, [tuple(g) for g in grp if None in g][:3] or tot, 'zero')
                    continue
                sums = [sum((g[j] for g in grp), start=type(tot[0][j])()) for j in range(3)]
                if tuple(sums) != tuple(tot[0]):
                    res.violation('h02:additivity', 'group-wise counts and sums add up to the ungrouped totals', {'table': table, 'col': col, 'key': key}, sums, tot[0])


def run(tier, seed):
    res = Result('aggregate queries: every aggregate x every key set x every key style (exhaustive), seeded random combinations with WHERE/HAVING/'
                 'arithmetic over aggregates; tables with NULL keys, duplicates, interleaved groups, empty and single-row tables; '
                 'distinct = distinct query text')
    cs = cases(tier, seed)
    for case, bad in zip(cs, pmap(check, cs, chunk=8)):
        res.case(repr(case), {'case': repr(case)[:200]})
        if bad:
            clause, cse, obs, exp = bad
            res.violation('h02:' + clause + ':' + str(cse.get('query', ''))[:90], clause, cse, obs, exp)
    ledger_groups(res)
    additivity(res)
    return res.asdict()


def replay(case):
    if 'query' in case:
        try:
            got = conn().execute(case['query']).fetchall()
            return {'status': 'reproduced', 'detail': {'query': case['query'], 'rows': repr(got)[:600]}}
        except Exception as e:
            return {'status': 'reproduced', 'detail': f'{type(e).__name__}: {e}'}
    r = Result()
    additivity(r)
    return {'status': 'reproduced' if r.violations else 'not-reproduced', 'detail': r.violations[:1]}
