"""C05 bounded native harness: acceptance rules, and every rejection is ParseError / CompilationError
(ProgrammingError) with a valid location."""
import datetime
import itertools
import random
from decimal import Decimal

import beanquery
from beanquery import parser
from beanquery.parser import ast
from harness.common import make_conn, Result, pmap
from harness import ledger

COLS = [('a', int), ('b', str), ('c', Decimal), ('d', datetime.date), ('o', object)]
ROWS = [(1, 'x', Decimal('1'), datetime.date(2024, 1, 1), None), (2, None, None, None, 'z')]

ACCEPT = [
    'SELECT a FROM #t', 'SELECT a, b, c FROM #t WHERE a > 1', 'SELECT count(*) FROM #t', 'SELECT b, sum(a) FROM #t GROUP BY b',
    'SELECT b, sum(a) FROM #t GROUP BY 1', 'SELECT b AS k, sum(a) FROM #t GROUP BY k', 'SELECT sum(a) FROM #t GROUP BY b',
    'SELECT b, sum(a) FROM #t', 'SELECT sum(a) + count(*) FROM #t', 'SELECT b, sum(a) FROM #t GROUP BY b HAVING sum(a) > 1',
    'SELECT a FROM #t ORDER BY 1', 'SELECT a FROM #t ORDER BY b', 'SELECT a, b FROM #t ORDER BY 2 DESC, 1', 'SELECT b, sum(a) FROM #t GROUP BY b ORDER BY sum(a)',
    'SELECT coalesce(a, 0) FROM #t', 'SELECT a FROM #t WHERE a IN (SELECT a FROM #t)', 'SELECT a IN (1, 2) FROM #t',
    'SELECT b, d, sum(a) FROM #t WHERE a = 1 GROUP BY b, d PIVOT BY b, d', 'SELECT b, d, sum(a) FROM #t WHERE a = 1 GROUP BY 1, 2 PIVOT BY 1, 2',
    'SELECT a FROM #t WHERE a > %s', 'SELECT o > 1 FROM #t', 'SELECT length(b) FROM #t', 'SELECT a FROM #t LIMIT 0', 'SELECT DISTINCT a FROM #t',
    'SELECT * FROM #t', 'SELECT 1', 'SELECT a FROM #t WHERE b ~ "x"', 'SELECT a FROM (SELECT a FROM #t)',
    'SELECT b, d, sum(a) FROM #t GROUP BY b, d PIVOT BY b, d', 'SELECT d, b, count(*) FROM #t GROUP BY 1, 2 PIVOT BY 1, 2',
    "SELECT coalesce('n/a', b) FROM #t", 'SELECT coalesce(1 + 1, a) FROM #t',   # both rows: NULL pivot values
    'SELECT a, sum(c) FROM #t GROUP BY a, a', 'SELECT a, b, sum(c) FROM #t GROUP BY a, b, a', 'SELECT a, sum(c) FROM #t GROUP BY 1, a',
    'SELECT a FROM #t WHERE a IN (SELECT a FROM #t WHERE a IN (SELECT a FROM #t))', 'SELECT a FROM (SELECT a FROM (SELECT a FROM #t))',
]
REJECT = [
    # names
    'SELECT zz FROM #t', 'SELECT a FROM #nosuch', 'SELECT nosuchfn(a) FROM #t', 'SELECT length(a) FROM #t', 'SELECT a + b FROM #t', 'SELECT a.x FROM #t',
    'SELECT a["k"] FROM #t', 'SELECT b > 1 FROM #t', 'SELECT -b FROM #t', 'SELECT a BETWEEN b AND c FROM #t', 'SELECT length() FROM #t', 'SELECT sum() FROM #t',
    'SELECT d + d FROM #t', 'SELECT NOT a FROM #nosuch',
    # aggregate rules
    'SELECT a FROM #t WHERE sum(a) > 1', 'SELECT sum(sum(a)) FROM #t', 'SELECT a + sum(a) FROM #t', 'SELECT b, sum(a) FROM #t GROUP BY sum(a)',
    'SELECT b, sum(a) FROM #t GROUP BY 2', 'SELECT a, b, sum(c) FROM #t GROUP BY b', 'SELECT b, sum(a) FROM #t GROUP BY b HAVING a > 1',
    'SELECT b, sum(a) FROM #t GROUP BY b ORDER BY a + sum(a)', 'SELECT count(count(*)) FROM #t', 'SELECT max(a + sum(a)) FROM #t',
    # a repeated group key does not stand in for an uncovered non-aggregate target
    'SELECT a, b, sum(c) FROM #t GROUP BY a, a', 'SELECT a, b, sum(c) FROM #t GROUP BY a, 1', 'SELECT a, b, d, sum(c) FROM #t GROUP BY 1, a, 1',
    'SELECT a, sum(c) FROM #t GROUP BY a, a ORDER BY b', 'SELECT b, d, count(*) FROM #t GROUP BY d, d',
    # a SELECT as an ordinary operand is rejected at every nesting depth (inside a FROM subquery, inside an IN subquery)
    'SELECT a FROM #t WHERE a IN (SELECT a FROM #t WHERE c > (SELECT 1 FROM #t))', 'SELECT a FROM (SELECT a FROM #t WHERE a > (SELECT 1 FROM #t))',
    'SELECT a FROM #t WHERE a IN (SELECT (SELECT a FROM #t) FROM #t)', 'SELECT a FROM (SELECT length((SELECT b FROM #t)) AS a FROM #t)',
    'SELECT a FROM #t WHERE a NOT IN (SELECT a FROM #t WHERE (SELECT a FROM #t) = 1)',
    # positional references
    'SELECT a FROM #t ORDER BY 0', 'SELECT a FROM #t ORDER BY 2', 'SELECT a, count(*) FROM #t GROUP BY a, b ORDER BY 3', 'SELECT a, count(*) FROM #t GROUP BY a HAVING count(*) > 0 ORDER BY 3',
    'SELECT b, sum(a) FROM #t GROUP BY b, d ORDER BY 4', 'SELECT a FROM #t ORDER BY length(b), 2', 'SELECT a, count(*) FROM #t GROUP BY a, b, 3', 'SELECT a, sum(c) FROM #t GROUP BY 0', 'SELECT a, sum(c) FROM #t GROUP BY 3',
    'SELECT b, d, sum(a) FROM #t GROUP BY b, d PIVOT BY 0, 1', 'SELECT b, d, sum(a) FROM #t GROUP BY b, d PIVOT BY 1, 4', 'SELECT b, sum(a) FROM #t GROUP BY b, d PIVOT BY 1, 3',
    # pivot
    'SELECT b, d, sum(a) FROM #t GROUP BY b, d PIVOT BY b, b', 'SELECT b, d, sum(a) FROM #t GROUP BY b, d PIVOT BY 1, 1', 'SELECT b, d, sum(a) FROM #t GROUP BY b, d PIVOT BY b, zz',
    'SELECT b, d, sum(a) AS s FROM #t GROUP BY b, d PIVOT BY b, s', 'SELECT a, b FROM #t PIVOT BY a, b', 'SELECT a, b FROM #t PIVOT BY 1, 2',
    # clause specific
    'SELECT coalesce(a, b) FROM #t', 'SELECT coalesce() FROM #t', "SELECT coalesce('n/a', a) FROM #t", 'SELECT coalesce(1 + 1, a, d) FROM #t', 'SELECT a FROM #t WHERE coalesce(TRUE, b)',
    "SELECT coalesce(2024-01-01, b) FROM #t", 'SELECT coalesce(NULL, a, b) FROM #t', 'SELECT b, sum(a) FROM #t GROUP BY b HAVING count(*) > a', 'SELECT b, sum(a) FROM #t GROUP BY b HAVING sum(a) > length(b)', 'SELECT a FROM #t WHERE a IN (SELECT a, b FROM #t)', 'SELECT 1 IN 2 FROM #t', 'SELECT a IN b FROM #t', 'SELECT a NOT IN 3 FROM #t',
    'SELECT a, sum(c) FROM #t GROUP BY o', 'SELECT a FROM #t WHERE a > %s AND b = %(x)s',
    # overloads are selected by the exact operand types: a bool is not an int for BETWEEN; only list / set / dict typed (or untyped) values are searched by IN
    'SELECT TRUE BETWEEN 0 AND 2 FROM #t', 'SELECT a BETWEEN FALSE AND 2 FROM #t', 'SELECT (a > 1) BETWEEN 0 AND 1 FROM #t', 'SELECT a BETWEEN 0 AND TRUE FROM #t',
    "SELECT 'x' IN b FROM #t", "SELECT b NOT IN 'abc' FROM #t", "SELECT a IN 'abc' FROM #t", 'SELECT a IN d FROM #t',
    # syntax
    'SELECT', 'SELECT a FROM', 'SELECT a FROM #t WHERE', 'SELEC a', 'SELECT a,, b FROM #t', 'SELECT (a FROM #t', 'SELECT a FROM #t ORDER', 'SELECT a FROM #t LIMIT x',
    'SELECT a FROM #t GROUP', "SELECT 'abc FROM #t", 'SELECT 1 < 2 < 3', '', ';', 'SELECT 2024-02-30', 'SELECT 2024-13-01', 'SELECT 0000-01-01',
    'SELECT ' + '9' * 5000, 'SELECT a FROM #t WHERE a = ' + '1' * 4400, 'SELECT %', 'SELECT %(', 'SELECT a b c', 'BALANCES AT', 'JOURNAL "x" AT', 'PRINT FROM',
]
LEDGER_ACCEPT = ['SELECT date, account FROM #postings', 'SELECT account, sum(position) GROUP BY account', 'BALANCES', 'JOURNAL', 'PRINT',
                 'SELECT date FROM year = 2020', 'SELECT date FROM OPEN ON 2020-01-01 CLOSE ON 2020-03-01 CLEAR', 'SELECT date FROM OPEN ON 2020-01-01 CLOSE',
                 'SELECT date FROM CLOSE', 'BALANCES FROM OPEN ON 2020-01-01 CLOSE', 'PRINT FROM OPEN ON 2020-02-01 CLOSE', 'JOURNAL "Assets" FROM CLOSE ON 2020-02-01',
                 'SELECT meta("ref"), entry_meta("ref"), any_meta("memo")', 'SELECT position.units.number, entry.flag',
                 # attribute access on every structured column type, aliased (position, amount, entry) or declared directly (#accounts.open / close)
                 'SELECT open.date, close.date FROM #accounts', 'SELECT account FROM #accounts WHERE close.date > 2021-01-01', 'SELECT open.meta FROM #accounts',
                 'SELECT weight.currency, price.number, cost(position).number', 'SELECT amount.number FROM #prices', 'SELECT entry.date, entry.meta']
LEDGER_REJECT = ['SELECT tags, count(1) GROUP BY 1', 'SELECT tags, count(1) GROUP BY tags', 'SELECT account, links, count(1) GROUP BY account, 2', 'SELECT meta, count(1) GROUP BY 1',
                 'SELECT sum(number), count(1) GROUP BY 1', "SELECT meta['ref'] * position", "SELECT account WHERE tags > entry_meta('ref')", "SELECT meta['ref'] + tags", "SELECT position - any_meta('x')", "SELECT entry_meta('k') = meta", "SELECT balance + meta['x']",
                 'SELECT date FROM OPEN ON 2020-03-01 CLOSE ON 2020-01-01', 'SELECT date FROM sum(number) > 1', 'SELECT position.nosuch', 'SELECT account.x', 'SELECT date FROM nosuchcol = 1',
                 'BALANCES AT nosuchfn', 'PRINT FROM nosuch = 1', 'SELECT date["k"]',
                 "SELECT 'a' IN account", 'SELECT number IN position', 'SELECT currency IN weight', 'SELECT open.nosuch FROM #accounts', 'SELECT flag BETWEEN 0 AND 1']


def classify(c, q, params=None):
    """-> ('accept'|'reject', info) or ('crash', exc)"""
    try:
        from beanquery import compiler, query_compile
        stmt = compiler.compile(c, parser.parse(q) if isinstance(q, str) else q, params)
        if not isinstance(stmt, query_compile.EvalPrint):
            c.execute(q, params).fetchall()
        return 'accept', None
    except beanquery.ProgrammingError as e:
        info = getattr(e, 'parseinfo', None)
        if info is not None:
            text = info.tokenizer.text
            pos, endpos = info.pos, info.endpos
            if not (0 <= pos <= endpos <= len(text) + 1):
                return 'badloc', f'pos={pos} endpos={endpos} len={len(text)}'
            if info.line < 0 or info.line > text.count('\n') + 1:
                return 'badloc', f'line={info.line}'
            try:
                from beanquery import shell
                shell.render_exception(e)
            except Exception as ex:
                return 'badloc', f'render_location raised {type(ex).__name__}: {ex}'
        return 'reject', type(e).__name__
    except Exception as e:
        return 'crash', f'{type(e).__name__}: {e}'


def check(item):
    kind, q, expect = item
    if kind == 'ledger':
        c = ledger.connect()
    else:
        c = make_conn(t=(COLS, ROWS), postings=(COLS, ROWS))
    params = (1,) if '%s' in q and '%(' not in q else None
    if '%s' in q and '%(' in q:
        params = (1,)
    got, info = classify(c, q, params)
    if got == 'crash':
        return ('every rejection is raised as ParseError or CompilationError, never another Python exception', {'statement': q[:200], 'kind': kind}, info, 'ProgrammingError or acceptance')
    if got == 'badloc':
        return ('any location a rejection carries is a valid span of the statement text', {'statement': q[:200], 'kind': kind}, info, 'valid span')
    if expect is not None and got != expect:
        return ('a statement is accepted exactly when names resolve and the aggregate / clause rules hold', {'statement': q[:200], 'kind': kind}, got, expect)
    return None


def mutations(rng, n):
    toks = ['SELECT', 'a', 'b', ',', 'FROM', '#t', 'WHERE', '>', '1', '(', ')', 'GROUP', 'BY', 'ORDER', 'sum', 'count', '*', '+', '-', 'AND', 'NOT', 'IN', 'IS', 'NULL',
            'BETWEEN', 'LIMIT', 'DISTINCT', 'AS', 'k', "'s'", '2024-01-01', '1.5', 'HAVING', 'PIVOT', 'DESC', '%s', '~', '/', '0', '[', ']', '.', 'OPEN', 'ON', 'CLOSE', 'CLEAR', ';']
    out = []
    base = [q.replace('(', ' ( ').replace(')', ' ) ').replace(',', ' , ').split() for q in ACCEPT[:20]]
    for _ in range(n):
        t = list(rng.choice(base))
        for _ in range(rng.randint(1, 2)):
            op = rng.random()
            if op < 0.35 and t: t[rng.randrange(len(t))] = rng.choice(toks)
            elif op < 0.65 and t: del t[rng.randrange(len(t))]
            else: t.insert(rng.randrange(len(t) + 1), rng.choice(toks))
        out.append(' '.join(t))
    for _ in range(n // 4):
        out.append(' '.join(rng.choice(toks) for _ in range(rng.randint(1, 7))))
    return out


def ast_cases():
    """hand-built ASTs (no parse information) with ill-typed operands and odd references"""
    C, K = ast.Column, ast.Constant
    T = lambda e, n=None: ast.Target(e, n)
    S = lambda targets, **kw: ast.Select(targets, kw.get('f', ast.Table('t')), kw.get('w'), kw.get('g'), kw.get('o'), kw.get('p'), kw.get('l'), kw.get('d'))
    out = [
        (S([T(C('a'))]), 'accept'),
        (S([T(C('a'), 'x'), T(ast.Add(C('a'), K(1)), 'y')]), 'accept'),
        (S([T(C('zz'), 'x')]), 'reject'),
        (S([T(ast.Add(C('a'), C('b')), 'x')]), 'reject'),
        (S([T(ast.Function('sum', [ast.Function('sum', [C('a')])]), 'x')]), 'reject'),
        (S([T(ast.Function('nosuch', []), 'x')]), 'reject'),
        (S([T(C('a'), 'x')], o=[ast.OrderBy(5, ast.Ordering.ASC)]), 'reject'),
        (S([T(C('a'), 'x')], g=ast.GroupBy([7], None)), 'reject'),
        (S([T(C('a'), 'x')], w=ast.Function('sum', [C('a')])), 'reject'),
        (S([T(C('a'), 'x')], f=ast.Table('nosuch')), 'reject'),
        (S([T(ast.In(K(1), K(2)), 'x')]), 'reject'),
        (S([T(ast.Between(C('a'), C('b'), K(1)), 'x')]), 'reject'),
        (S([T(ast.Neg(C('b')), 'x')]), 'reject'),
        (S([T(ast.Attribute(C('a'), 'zz'), 'x')]), 'reject'),
        (S([T(ast.Subscript(C('a'), 'k'), 'x')]), 'reject'),
        (S([T(C('b'), 'k'), T(C('d'), 'm'), T(ast.Function('sum', [C('a')]), 's')], g=ast.GroupBy([1, 2], None), p=ast.PivotBy([1, 9])), 'reject'),
        (S([T(C('a'), 'k'), T(C('b'), 'm')], p=ast.PivotBy([1, 2])), 'reject'),
        (S([T(ast.Function('coalesce', [C('a'), C('b')]), 'x')]), 'reject'),
        (S([T(ast.Placeholder(''), 'x')]), None),
    ]
    return out


def check_ast(item):
    node, expect = item
    c = make_conn(t=(COLS, ROWS))
    try:
        c.execute(node).fetchall()
        got = 'accept'
    except beanquery.ProgrammingError:
        got = 'reject'
    except TypeError as e:
        if expect is None:
            return None      # wrong parameter container kind: DB-API style TypeError is documented
        got = f'crash TypeError: {e}'
    except Exception as e:
        got = f'crash {type(e).__name__}: {e}'
    if got.startswith('crash'):
        return ('every rejection of an AST statement is a ProgrammingError', {'ast': repr(node)[:300]}, got, 'ProgrammingError or acceptance')
    if expect is not None and got != expect:
        return ('AST statement accepted exactly when the rules hold', {'ast': repr(node)[:300]}, got, expect)
    return None


def run(tier, seed):
    res = Result('statements: hand-written accepted / rejected statements for every rule of the property (names, overloads, aggregate rules, positional '
                 'ranges, PIVOT, COALESCE, IN, OPEN/CLOSE, parameters, syntax, invalid dates, oversized numbers) on user tables and on a ledger; '
                 'seeded token-level mutations and random token strings (exception class and location only); hand-built ASTs; distinct = distinct statement')
    items = [('user', q, 'accept') for q in ACCEPT] + [('user', q, 'reject') for q in REJECT] \
        + [('ledger', q, 'accept') for q in LEDGER_ACCEPT] + [('ledger', q, 'reject') for q in LEDGER_REJECT]
    rng = random.Random(seed)
    items += [('user', q, None) for q in mutations(rng, 400 if tier == 'quick' else 6000)]
    for item, bad in zip(items, pmap(check, items, chunk=8)):
        res.case(item[1], {'statement': item[1][:120], 'expected': item[2]})
        if bad:
            cls = bad[2].split(':')[0] if isinstance(bad[2], str) else str(bad[2])
            res.violation('h05:' + bad[0][:30] + ':' + bad[1]['statement'][:70], bad[0], bad[1], bad[2], bad[3])
    for item in ast_cases():
        res.case(repr(item[0])[:300], {'ast': repr(item[0])[:160]})
        bad = check_ast(item)
        if bad:
            res.violation('h05:ast:' + bad[1]['ast'][:80], bad[0], bad[1], bad[2], bad[3])
    return res.asdict()


def replay(case):
    if 'statement' in case:
        bad = check((case.get('kind', 'user'), case['statement'], None))
        c = ledger.connect() if case.get('kind') == 'ledger' else make_conn(t=(COLS, ROWS))
        got = classify(c, case['statement'], (1,) if '%s' in case['statement'] else None)
        return {'status': 'reproduced', 'detail': repr(got)[:400]}
    for item in ast_cases():
        if repr(item[0])[:300] == case.get('ast'):
            bad = check_ast(item)
            return {'status': 'reproduced' if bad else 'not-reproduced', 'detail': repr(bad)[:400]}
    return {'status': 'not-reproduced', 'detail': 'case not found'}
