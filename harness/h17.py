"""C17 bounded native harness: numberify_results against the statement's definition."""
import collections
import itertools
import random
from decimal import Decimal

from beancount.core import amount, position, inventory, display_context
from beancount.core.data import Cost
import datetime

from beanquery import numberify
from beanquery.cursor import Column
from harness.common import Result, pmap

D = Decimal
A = amount.Amount


def mkinv(*specs):
    inv = inventory.Inventory()
    for num, cur, cost in specs:
        c = Cost(D(cost), 'USD', datetime.date(2020, 1, abs(int(D(cost))) % 27 + 1), None) if cost else None
        inv.add_position(position.Position(A(D(num), cur), c))
    return inv


AMOUNTS = [None, A(D('1.50'), 'USD'), A(D('-2'), 'EUR'), A(D('0'), 'USD'), A(D('3.14159'), 'USD'), A(D('7'), 'JPY'),
           A(D('2.125'), 'IRAUSD')]        # a currency code that contains another one (USD): codes are compared whole
POSITIONS = [None, position.Position(A(D('2'), 'HOOL'), Cost(D('100'), 'USD', datetime.date(2020, 1, 1), None)), position.Position(A(D('5.5'), 'USD'), None),
             position.Position(A(D('-1'), 'HOOL'), None), position.Position(A(D('0.001'), 'EUR'), None), position.Position(A(D('3'), 'XHOOL'), None)]
INVS = [None, mkinv(), mkinv(('1', 'USD', None)), mkinv(('2', 'HOOL', '100'), ('3', 'HOOL', '110'), ('4.25', 'USD', None)), mkinv(('-2', 'EUR', None), ('2', 'USD', None)),
        mkinv(('1', 'HOOL', '100'), ('-1', 'HOOL', '100'), ('9', 'EUR', None)), mkinv(('1.5', 'IRAUSD', None), ('2', 'USD', None))]
PLAIN = [None, 1, 'x', D('2.5'), datetime.date(2024, 1, 1), True]
POOLS = {amount.Amount: AMOUNTS, position.Position: POSITIONS, inventory.Inventory: INVS, int: [None, 1, 2], str: [None, 'x', 'y'], Decimal: [None, D('1.5')]}


def units_of(value, dtype, cur):
    """number of units of currency cur in the value (summed over lots); None when absent"""
    if value is None:
        return None
    if dtype is amount.Amount:
        return value.number if value.currency == cur else None
    if dtype is position.Position:
        return value.units.number if value.units.currency == cur else None
    tot, found = D(0), False
    for pos in value:
        if pos.units.currency == cur:
            tot += pos.units.number
            found = True
    return tot if found else None


def currencies_of(value, dtype, zeros=True):
    if value is None: return []
    if dtype is amount.Amount: return [value.currency] if (zeros or value.number != 0) else []
    if dtype is position.Position: return [value.units.currency]
    return sorted({pos.units.currency for pos in value})


def reference(columns, rows, dformat, zeros=True):
    out_cols, getters = [], []
    for idx, (name, dtype) in enumerate(columns):
        if dtype in (amount.Amount, position.Position, inventory.Inventory):
            census = collections.Counter()
            for r in rows:
                for c in currencies_of(r[idx], dtype, zeros):
                    census[c] += 1
            order = sorted(census, key=lambda c: (census[c], c), reverse=True)
            for c in order:
                out_cols.append((f'{name} ({c})', Decimal))
                getters.append(('cur', idx, dtype, c))
        else:
            out_cols.append((name, dtype))
            getters.append(('id', idx, None, None))
    out_rows = []
    for r in rows:
        o = []
        for kind, idx, dtype, c in getters:
            if kind == 'id':
                o.append(r[idx])
            else:
                n = units_of(r[idx], dtype, c)
                if n is not None and dformat is not None:
                    n = dformat.quantize(n, c)
                o.append(n)
        out_rows.append(o)
    return out_cols, out_rows


def same_cell(got, exp):
    """NULL or zero when the currency is absent / the amount is zero"""
    if exp is None or exp == 0:
        return got is None or got == 0
    return got == exp


def check(case):
    coltypes, rowsel, use_fmt = case[:3]
    # columns of a result may carry the same name (two targets under one alias): each column is decomposed for itself
    columns = [('amount' if len(case) > 3 and case[3] else f'c{i}', t) for i, t in enumerate(coltypes)]
    rows = [tuple(POOLS[t][k % len(POOLS[t])] for t, k in zip(coltypes, sel)) for sel in rowsel]
    dformat = None
    if use_fmt:
        dc = display_context.DisplayContext()
        for cur, num in (('USD', D('1.23')), ('EUR', D('1.2')), ('HOOL', D('1')), ('JPY', D('1')), ('IRAUSD', D('1.234')), ('XHOOL', D('1.2'))):
            dc.update(num, cur)
        dformat = dc.build()
    desc = tuple(Column(n, t) for n, t in columns)
    try:
        otypes, orows = numberify.numberify_results(desc, rows, dformat)
    except Exception as e:
        return ('numberify is total (NULL cells, empty inventories)', {'columns': [t.__name__ for t in coltypes], 'rows': repr(rows)[:300], 'fmt': use_fmt}, f'{type(e).__name__}: {e}', None)
    ecols, erows = reference(columns, rows, dformat)
    got_cols = [(c.name, c.datatype) for c in otypes]
    if got_cols != ecols:
        # a currency occurring only with zero amounts may be left out of the census (the statement only
        # forbids dropping a currency that occurs with a non-zero amount)
        ecols, erows = reference(columns, rows, dformat, zeros=False)
    if got_cols != ecols:
        return ('one decimal column per currency named "name (CUR)" ordered by decreasing frequency; other columns untouched', {'columns': [t.__name__ for t in coltypes], 'rows': repr(rows)[:300], 'fmt': use_fmt},
                [(n, t.__name__) for n, t in got_cols], [(n, t.__name__) for n, t in ecols])
    if len(orows) != len(rows):
        return ('row count unchanged', {'columns': [t.__name__ for t in coltypes]}, len(orows), len(rows))
    for g, e in zip(orows, erows):
        def safe_eq(a, b):
            try:
                return bool(a == b)
            except Exception:       # Beancount value types compare by attribute access: an unrelated value in the cell is a mismatch, not a crash
                return False
        if len(g) != len(e) or not all(same_cell(a, b) if isinstance(b, Decimal) or b is None else safe_eq(a, b) for a, b in zip(g, e)):
            return ('each cell = units of that currency in the value (summed over lots), quantized with a formatter; identity cells unchanged', {'columns': [t.__name__ for t in coltypes], 'rows': repr(rows)[:300], 'fmt': use_fmt}, list(g), e)
    return None


def cases(tier, seed):
    rng = random.Random(seed)
    types_ = [amount.Amount, position.Position, inventory.Inventory, int, str, Decimal]
    out = []
    for t in types_[:3]:
        n = len(POOLS[t])
        for fmt in (False, True):
            out.append(((t,), tuple((k,) for k in range(n)), fmt))
            out.append(((int, t, str), tuple((k, k, k) for k in range(n)), fmt))
            out.append(((t,), (), fmt))
            for k in range(n):
                out.append(((t,), ((k,),), fmt))
            for a, b in itertools.product(range(n), repeat=2):
                out.append(((t,), ((a,), (b,)), fmt))
    for a_t, b_t in ((amount.Amount, amount.Amount), (amount.Amount, position.Position), (inventory.Inventory, amount.Amount), (position.Position, inventory.Inventory)):
        for fmt in (False, True):
            # same-named amount-like columns whose currencies differ, with and without a plain column between them
            out.append(((a_t, b_t), ((1, 2), (4, 5), (2, 6), (1, 1)), fmt, True))
            out.append(((a_t, int, b_t), ((1, 0, 2), (5, 1, 4), (6, 2, 2)), fmt, True))
    for _ in range(300 if tier == 'quick' else 5000):
        k = rng.randint(1, 4)
        ct = tuple(rng.choice(types_) for _ in range(k))
        rows = tuple(tuple(rng.randrange(8) for _ in range(k)) for _ in range(rng.randint(0, 5)))
        out.append((ct, rows, rng.random() < 0.5))
    return out


def safe_check(case):
    """check(case); a comparison that cannot even be carried out (the output holds a value of another kind than the reference cell, so
    that Beancount's value types fail while comparing) is a mismatch, not a harness error"""
    try:
        return check(case)
    except Exception as e:  # noqa
        return ('each cell = units of that currency in the value; identity cells unchanged (the output could not be compared with the reference)',
                {'columns': [t.__name__ for t in case[0]], 'rows': repr(case[1])[:300], 'fmt': case[2]}, f'{type(e).__name__}: {e}', None)


def run_query_per_ledger(res):
    """query.run_query(..., numberify=True) numberifies with the display precision of the ledger it is given, whichever ledgers
    were queried before in the process"""
    from beanquery import query as bq
    from harness import ledger
    import beanquery
    loaded = {n: ledger.load(src) for n, src in (('A', ledger.LEDGER_A), ('B', ledger.LEDGER_B))}
    q = 'SELECT account, sum(position) AS total, sum(cost(position)) AS c GROUP BY account ORDER BY account'
    for name in ('B', 'A', 'B', 'A'):
        entries, errors, options = loaded[name]
        res.case(('run_query', name))
        try:
            gt, gr = bq.run_query(entries, options, q, numberify=True)
            conn = beanquery.connect('beancount:', entries=entries, errors=[], options=options)
            cur = conn.execute(q)
            wt, wr = numberify.numberify_results(cur.description, cur.fetchall(), options['dcontext'].build())
        except Exception as e:  # noqa
            res.violation('h17:run_query:' + name, 'run_query with numberify executes', {'ledger': name}, f'{type(e).__name__}: {e}', 'rows')
            continue
        if [d.name for d in gt] != [d.name for d in wt] or [tuple(r) for r in gr] != [tuple(r) for r in wr]:
            bad = next(((a, b) for a, b in zip(gr, wr) if tuple(a) != tuple(b)), None)
            res.violation('h17:run_query-formatter', 'numbers are quantized to the display precision of the queried ledger', {'ledger': name, 'after': 'other ledger'}, bad[0] if bad else [d.name for d in gt], bad[1] if bad else [d.name for d in wt])


def run(tier, seed):
    res = Result('result tables mixing plain and Amount / Position / Inventory columns: every single cell value and every pair of cell values per '
                 'amount-like type (exhaustive over the pools incl. NULL, zero amounts, empty inventories, several lots of one currency), with and '
                 'without a display formatter; seeded random tables of 1-4 columns x 0-5 rows; distinct = distinct (column types, rows, formatter)')
    cs = cases(tier, seed)
    for case, bad in zip(cs, pmap(safe_check, cs, chunk=32)):
        res.case(repr(case), {'columns': [t.__name__ for t in case[0]], 'rows': len(case[1]), 'formatter': case[2], 'same_names': len(case) > 3})
        if bad:
            res.violation('h17:' + bad[0][:40] + ':' + ','.join(bad[1]['columns']), bad[0], bad[1], bad[2], bad[3])
    run_query_per_ledger(res)
    return res.asdict()


def replay(case):
    for c in cases('quick', 0):
        cols = [t.__name__ for t in c[0]]
        if cols == case.get('columns'):
            bad = check(c)
            if bad:
                return {'status': 'reproduced', 'detail': repr(bad)[:600]}
    return {'status': 'not-reproduced', 'detail': 'no failing table with these column types'}
