"""C03 - ORDER BY key order with NULL first, item getter, DISTINCT (first occurrences)."""
from pyvc.spec import *

QE = 'beanquery.query_execute'
NULLT = Obj(f'{QE}:NullType', fields={})


@contract(f'{QE}:NullType.__lt__', 'vs-null')
class null_lt_null:
    props = ['C03']
    params = {'self': NULLT, 'other': NULLT}
    modifies = []
    ensures = [('null-not-before-null', lambda result: result is False)]


@contract(f'{QE}:NullType.__lt__', 'vs-value')
class null_lt_value:
    props = ['C03']
    params = {'self': NULLT, 'other': Dyn(('bool', 'int', 'dec', 'str', 'date'))}
    modifies = []
    ensures = [('null-before-every-value', lambda result: result is True)]


@contract(f'{QE}:NullType.__gt__', 'vs-value')
class null_gt_value:
    props = ['C03']
    params = {'self': NULLT, 'other': Dyn(('bool', 'int', 'dec', 'str', 'date'))}
    modifies = []
    note = 'NULL > NULL returns True in the code; unobservable through sorting (list.sort uses < only, tuple comparison uses identity/== first)'
    ensures = [('null-never-after-a-value', lambda result: result is False)]


@spec
def nullkey(v, NULL):
    return NULL if v is None else v


def _getter_native(k):
    def resolver(**closure):
        from beanquery import query_execute
        if k == 1:
            return query_execute.nullitemgetter(closure['item'])
        items = closure['items']
        return query_execute.nullitemgetter(items[0], *items[1:])
    return resolver


@contract(f'{QE}:nullitemgetter.func#1')
class nullitemgetter_single:
    props = ['C03']
    params = {'obj': ListOf(Dyn(('none', 'int', 'str')), maxlen=3)}
    closure = {'item': Int(0, 2)}
    globals = {'NULL': Opaque('NULL')}
    requires = lambda obj, item: 0 <= item < len(obj)
    ensures = [('item-with-null-replaced', lambda obj, item, result, NULL: result == nullkey(obj[item], NULL))]
    native = _getter_native(1)


@contract(f'{QE}:nullitemgetter.func#0')
class nullitemgetter_multi:
    props = ['C03']
    params = {'obj': ListOf(Dyn(('none', 'int', 'str')), maxlen=3)}
    closure = {'items': TupleOf(Int(0, 2), minlen=1, maxlen=3)}
    globals = {'NULL': Opaque('NULL')}
    requires = lambda obj, items: all(0 <= items[j] < len(obj) for j in range(len(items)))
    loops = {0: dict(inv=lambda obj, items, r, NULL, _i:
                     len(r) == _i and all(r[j] == nullkey(obj[items[j]], NULL) for j in range(_i)))}
    ensures = [('one-key-per-index-in-argument-order', lambda obj, items, result, NULL:
                len(result) == len(items) and all(result[j] == nullkey(obj[items[j]], NULL) for j in range(len(items))))]
    native = _getter_native(2)


@spec(rec=True, sig=(['seq', 'int', 'val'], 'bool'))
def mem(s, n, v):
    """v occurs among s[:n]"""
    if n <= 0:
        return False
    return s[n - 1] == v or mem(s, n - 1, v)


@spec(rec=True, sig=(['seq', 'int'], 'seq'))
def uniq(s, n):
    """first occurrences among s[:n], in order (the statement's DISTINCT: later duplicates dropped)"""
    if n <= 0:
        return []
    if mem(s, n - 1, s[n - 1]):
        return uniq(s, n - 1)
    return uniq(s, n - 1) + [s[n - 1]]


@contract(f'{QE}:uniquify')
class uniquify:
    props = ['C03']
    params = {'iterable': ListOf(Dyn(('int', 'str', 'none')), maxlen=4)}
    result = ListOf(Dyn(), kind='tuple')       # callers (execute_select) use this contract, not the generator body
    modular = True
    loops = {0: dict(inv=lambda iterable, seen, _out, _i:
                     list(_out) == uniq(iterable, _i) and forall(lambda v: (v in seen) == mem(iterable, _i, v)))}
    ensures = [('first-occurrences-in-order', lambda iterable, result: list(result) == uniq(iterable, len(iterable)))]
    assumes = ['hashing: set membership coincides with == on row tuples (values of one column have one Python type)']


# ---- merge soundness of compiled-node equality (shared by C02: GROUP BY reconciliation) ------------
# An ORDER BY / GROUP BY expression is merged with an existing target when the compiled nodes compare
# equal.  That is sound only if equal nodes denote the same value on every row; for the column accessor
# classes of the Beancount-backed tables this means: equal nodes read the same attribute / item.
SB = 'beanquery.sources.beancount'
QC = 'beanquery.query_compile'


@contract(f'{QC}:EvalNode.__eq__', 'GetAttrColumn')
class eq_getattr_column:
    props = ['C03', 'C02']
    params = {'self': Obj(f'{SB}:GetAttrColumn', fields=dict(name=Str(['payee', 'narration', 'date']), dtype=Opaque('type'))),
              'other': Obj(f'{SB}:GetAttrColumn', fields=dict(name=Str(['payee', 'narration', 'date']), dtype=Opaque('type')))}
    modifies = []
    ensures = [('equal-nodes-read-the-same-attribute', lambda self, other, result: (not result) or self.name == other.name)]


@contract(f'{QC}:EvalNode.__eq__', 'GetItemColumn')
class eq_getitem_column:
    props = ['C03', 'C02']
    params = {'self': Obj(f'{SB}:GetItemColumn', fields=dict(key=Int(0, 2), dtype=Opaque('type'))),
              'other': Obj(f'{SB}:GetItemColumn', fields=dict(key=Int(0, 2), dtype=Opaque('type')))}
    modifies = []
    ensures = [('equal-nodes-read-the-same-item', lambda self, other, result: (not result) or self.key == other.key)]


@contract(f'{QC}:EvalNode.__eq__', 'EvalBinaryOp')
class eq_binaryop:
    props = ['C03', 'C02']
    params = {'self': Obj(f'{QC}:EvalBinaryOp', fields=dict(left=Opaque('n'), right=Opaque('n'), operator=Opaque('f'), dtype=Opaque('type'))),
              'other': Obj(f'{QC}:EvalBinaryOp', fields=dict(left=Opaque('n'), right=Opaque('n'), operator=Opaque('f'), dtype=Opaque('type')))}
    modifies = []
    native = False
    ensures = [('equal-nodes-have-equal-children-and-operator', lambda self, other, result:
                (not result) or (self.left == other.left and self.right == other.right and self.operator == other.operator))]
