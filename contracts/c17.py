"""C17 - numberify: per-currency converters.  The cell of currency c for a value v is the number of
units of c in v (NULL when absent), quantized when a formatter is given; total on NULL cells."""
from pyvc.spec import *

NB = 'beanquery.numberify'
P = ['C17']


class Fmt:
    """native stand-in of a DisplayFormatter: quantize is a pure function of (number, currency)"""
    def quantize(self, number, currency):
        return ('quantized', number, currency)

    def __repr__(self):
        return '<fmt>'


FMT = Opt(Opaque('fmt', natives=[Fmt()]))
CUR = Str(['USD', 'EUR'])
NUM = Dyn(('int',), pool=[0, 5, -2])
AMOUNT = Rec('Amount', attrs=dict(number=NUM, currency=CUR))
POSITION = Rec('Position', attrs=dict(units=AMOUNT))
ASSUME = 'Amount / Position values are non-empty named tuples (truthy); DisplayFormatter.quantize is a pure function'


@contract(f'{NB}:IdentityConverter.__call__')
class identity_call:
    props = P
    params = {'self': Obj(f'{NB}:IdentityConverter', fields=dict(name=Str(), dtype=Opaque('type'), index=Int(0, 1))),
              'drow': ListOf(Dyn(), minlen=2, maxlen=2), '_': FMT}
    modifies = []
    ensures = [('copies-the-cell', lambda self, drow, result: result == drow[self.index])]


@contract(f'{NB}:AmountConverter.__call__')
class amount_call:
    props = P
    assumes = [ASSUME]
    params = {'self': Obj(f'{NB}:AmountConverter', fields=dict(name=Str(), index=Int(0, 1), currency=CUR)),
              'drow': Fixed([Opt(AMOUNT), Opt(AMOUNT)], kind='list'), 'dformat': FMT}
    requires = lambda drow, dformat: (drow[0] is None or bool(drow[0])) and (drow[1] is None or bool(drow[1])) and (dformat is None or bool(dformat))
    modifies = []
    raises = {}

    def _post(self, drow, dformat, result):
        v = drow[self.index]
        if v is None or v.currency != self.currency:
            return result is None
        if dformat is None:
            return result == v.number
        return result == dformat.quantize(v.number, self.currency)
    ensures = [('units-of-the-currency-or-null', _post)]


@contract(f'{NB}:PositionConverter.__call__')
class position_call:
    props = P
    assumes = [ASSUME]
    params = {'self': Obj(f'{NB}:PositionConverter', fields=dict(name=Str(), index=Int(0, 1), currency=CUR)),
              'drow': Fixed([Opt(POSITION), Opt(POSITION)], kind='list'), 'dformat': FMT}
    requires = lambda drow, dformat: (drow[0] is None or bool(drow[0])) and (drow[1] is None or bool(drow[1])) and (dformat is None or bool(dformat))
    modifies = []
    raises = {}

    def _post(self, drow, dformat, result):
        v = drow[self.index]
        if v is None or v.units.currency != self.currency:
            return result is None
        if dformat is None:
            return result == v.units.number
        return result == dformat.quantize(v.units.number, self.currency)
    ensures = [('units-of-the-currency-or-null', _post)]


class Inv:
    """native stand-in of an Inventory for the converter contract"""
    def __init__(self, units):
        self.units = units

    def get_currency_units(self, currency):
        return Record('Amount', dict(number=self.units.get(currency, 0), currency=currency))

    def __repr__(self):
        return f'<inv {self.units}>'


INVENTORY = Opaque('inv', natives=[Inv({}), Inv({'USD': 5}), Inv({'USD': -2, 'EUR': 7})])


@contract(f'{NB}:InventoryConverter.__call__')
class inventory_call:
    props = P
    assumes = ['Inventory.get_currency_units(c) is a pure function returning an Amount whose number is ZERO when c is absent', 'ATTRS_PRESENT']
    params = {'self': Obj(f'{NB}:InventoryConverter', fields=dict(name=Str(), index=Int(0, 1), currency=CUR)),
              'drow': Fixed([Opt(INVENTORY), Opt(INVENTORY)], kind='list'), 'dformat': FMT}
    requires = lambda dformat: dformat is None or bool(dformat)
    modifies = []
    raises = {}        # total on NULL cells: nothing may escape

    def _post(self, drow, dformat, result):
        v = drow[self.index]
        if v is None:
            return result is None
        n = v.get_currency_units(self.currency).number
        if not n:
            return result is None
        if dformat is None:
            return result == n
        return result == (dformat.quantize(n, self.currency) or None)
    ensures = [('units-summed-over-lots-or-null', _post)]
