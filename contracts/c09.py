"""C09 - parameters and constants.  T1: a placeholder compiles to a constant holding exactly the parameter bound to
its name (position or key) - no conversion, no copy, no default -, a literal compiles to a constant holding the parsed
value, and neither touches the compiler's state; folding of a constant operand of a unary operator evaluates the very
operator node that a non-constant operand would have produced (the NULL rules of the operator apply to folded values).
The numbering of positional placeholders (Compiler.compile) and history independence are bounded (harness h09)."""
from pyvc.spec import *
from contracts.c05 import CP, COMPILER

PLACEHOLDER = Rec('Placeholder', attrs=dict(name=Dyn()))
CONSTANT = Rec('Constant', attrs=dict(value=Dyn()))


@contract(f'{CP}:Compiler._placeholder')
class placeholder_value:
    props = ['C09']
    params = {'self': COMPILER, 'node': PLACEHOLDER}
    opaque_ctors = {'EvalConstant': ['value']}
    modifies = ['fields:value']
    native = False
    raises = {'KeyError': None, 'IndexError': None, 'TypeError': None}
    assumes = ['ATTRS_PRESENT', 'EvalConstant(value) stores its argument in .value (constructor of the node class: c01.py)']
    ensures = [('constant-holding-the-bound-parameter', lambda self, node, result: result.value == self.parameters[node.name])]


@contract(f'{CP}:Compiler._constant')
class constant_value:
    props = ['C09']
    params = {'self': COMPILER, 'node': CONSTANT}
    opaque_ctors = {'EvalConstant': ['value']}
    modifies = ['fields:value']
    native = False
    assumes = ['ATTRS_PRESENT']
    ensures = [('constant-holding-the-literal', lambda node, result: result.value == node.value)]


# ---- constant folding (unary operators) -------------------------------------------------------------------------------
from contracts.c05 import _compile_assumed, compiled_of


@spec(uninterpreted=True, sig=(['val', 'val'], 'val'))
def operator_for(key, operand):
    """the operator class types.function_lookup selects for a node type and a compiled operand (None: no overload)"""
    raise NotImplementedError


class _lookup_assumed:
    """types.function_lookup: a deterministic function of the key and the operands (the registry is a constant)"""
    kind = 'assumed'
    params = {'functions': Dyn(), 'name': Dyn(), 'operands': ListOf(Dyn(), minlen=1, maxlen=1)}
    result = Dyn()
    modifies = []
    ensures = [('deterministic', lambda name, operands, result: result == operator_for(name, operands[0]))]


@contract(f'{CP}:Compiler._unaryop')
class unaryop_folding:
    props = ['C09', 'C05', 'C01']      # C01: the compiled node is the operator node of the statement (no rewriting that changes NULL behaviour)
    params = {'self': COMPILER, 'node': Rec('UnaryOp', attrs=dict(operand=Dyn()))}
    callees = {f'{CP}:Compiler._compile': Contract(f'{CP}:Compiler._compile', _compile_assumed, 'unary'),
               'beanquery.types:function_lookup': Contract('beanquery.types:function_lookup', _lookup_assumed, 'unary')}
    externals = {'beanquery.types.name': 1}
    opaque_ctors = {'EvalConstant': ['value', 'dtype']}
    modifies = ['fields:value', 'fields:dtype']
    native = False
    assumes = ['ATTRS_PRESENT', 'PURE_CHILDREN', '_compile and types.function_lookup as assumed (deterministic)']
    raises = {'CompilationError': None}
    ensures = [
        ('accepted-only-when-an-overload-matches', lambda node: operator_for(type(node), compiled_of(node.operand)) is not None),
        ('a-constant-operand-folds-to-the-value-the-operator-node-evaluates-to', lambda node, result:
            not isinstance(compiled_of(node.operand), ext('beanquery.query_compile.EvalConstant'))
            or (result.value == operator_for(type(node), compiled_of(node.operand))(compiled_of(node.operand))(None)
                and result.dtype == operator_for(type(node), compiled_of(node.operand))(compiled_of(node.operand)).dtype)),
        ('otherwise-the-operator-node-itself', lambda node, result:
            isinstance(compiled_of(node.operand), ext('beanquery.query_compile.EvalConstant'))
            or result == operator_for(type(node), compiled_of(node.operand))(compiled_of(node.operand))),
    ]


# ---- name resolution and connectives (C05: every name is resolved or the statement is rejected; C01: AND / OR keep their operands in order) ----
from contracts.c05 import NAME
CTABLE = Rec('Table', attrs=dict(columns=Opaque('columns')))
CCOMPILER = Obj(f'{CP}:Compiler', fields=dict(table=CTABLE, context=Opaque('conn'), parameters=Dyn(), depth=Int(0), subquery=Bool()))


@contract(f'{CP}:Compiler._column')
class column_resolution:
    props = ['C05', 'C04']
    params = {'self': CCOMPILER, 'node': Rec('Column', attrs=dict(name=NAME))}
    modifies = []
    native = False
    assumes = ['ATTRS_PRESENT', 'METHODS_PRESENT', 'Table.columns is a mapping: .get(name) is a pure lookup']
    raises = {'CompilationError': lambda self, node: self.table.columns.get(node.name) is None}
    ensures = [('the-column-of-the-current-table-with-that-name', lambda self, node, result: result is not None and result == self.table.columns.get(node.name))]


def _connective(method, ctor):
    @contract(f'{CP}:Compiler.{method}')
    class _c:
        pass
    _c.props = ['C01', 'C05']
    _c.params = {'self': COMPILER, 'node': Rec(ctor[4:], attrs=dict(args=ListOf(Dyn(('obj',)), maxlen=3)))}
    _c.pure_callees = {f'{CP}:Compiler._compile': (compiled_of, ['CompilationError'])}
    _c.opaque_ctors = {ctor: ['args']}
    _c.modifies = ['fields:args']
    _c.native = False
    _c.assumes = ['ATTRS_PRESENT', '_compile is a deterministic function of the node that frames the compiler state and rejects only with CompilationError (same assumption as _compile_assumed in c05.py)']
    _c.raises = {'CompilationError': None}
    _c.ensures = [('every-operand-compiled-once-in-written-order', lambda node, result: len(result.args) == len(node.args)
                   and all(result.args[j] == compiled_of(node.args[j]) for j in range(len(node.args))))]
    return _c


_connective('_and', 'EvalAnd')
_connective('_or', 'EvalOr')


# ---- function calls: overload resolution, coalesce, constant folding ---------------------------------------------------------------------
@spec(uninterpreted=True, sig=(['val', 'seq'], 'val'))
def function_for(name, operands):
    """the function class types.function_lookup selects for a name and compiled operands (None: no overload)"""
    raise NotImplementedError


class _function_lookup_assumed:
    kind = 'assumed'
    params = {'functions': Dyn(), 'name': Dyn(), 'operands': ListOf(Dyn())}
    result = Dyn()
    modifies = []
    ensures = [('deterministic', lambda name, operands, result: result == function_for(name, operands))]


@spec
def compiled_operands(node):
    return [compiled_of(operand) for operand in node.operands]


@spec
def all_constant(operands):
    return all(isinstance(operand, ext('beanquery.query_compile.EvalConstant')) for operand in operands)


@contract(f'{CP}:Compiler._function', 'plain')
class function_call:
    props = ['C09', 'C05', 'C01']
    params = {'self': COMPILER, 'node': Rec('Function', attrs=dict(fname=Str(['f', 'g']), operands=ListOf(Dyn(('obj',)), maxlen=2)))}
    requires = lambda node: node.fname not in ('coalesce', 'meta', 'entry_meta', 'any_meta')
    pure_callees = {f'{CP}:Compiler._compile': (compiled_of, ['CompilationError'])}
    callees = {'beanquery.types:function_lookup': Contract('beanquery.types:function_lookup', _function_lookup_assumed, 'function')}
    opaque_ctors = {'EvalConstant': ['value', 'dtype']}
    modifies = ['fields:value', 'fields:dtype']
    native = False
    assumes = ['ATTRS_PRESENT', 'PURE_CHILDREN', '_compile and types.function_lookup as assumed (deterministic)']
    raises = {'CompilationError': None}
    ensures = [
        ('accepted-only-when-an-overload-matches', lambda node: function_for(node.fname, compiled_operands(node)) is not None),
        ('constant-operands-of-a-pure-function-fold-to-the-value-the-call-evaluates-to', lambda self, node, result:
            not (all_constant(compiled_operands(node)) and function_for(node.fname, compiled_operands(node))(self.context, compiled_operands(node)).pure)
            or (result.value == function_for(node.fname, compiled_operands(node))(self.context, compiled_operands(node))(None)
                and result.dtype == function_for(node.fname, compiled_operands(node))(self.context, compiled_operands(node)).dtype)),
        ('otherwise-the-call-node-itself', lambda self, node, result:
            (all_constant(compiled_operands(node)) and function_for(node.fname, compiled_operands(node))(self.context, compiled_operands(node)).pure)
            or result == function_for(node.fname, compiled_operands(node))(self.context, compiled_operands(node))),
    ]


@contract(f'{CP}:Compiler._function', 'coalesce')
class function_coalesce:
    props = ['C05', 'C04', 'C09', 'C01']       # C09: coalesce is never folded (its value is decided per row by EvalCoalesce, NULL-aware and not truthiness-based)
    params = {'self': COMPILER, 'node': Rec('Function', attrs=dict(fname=Str(['coalesce']), operands=ListOf(Dyn(('obj',)), maxlen=3)))}
    requires = lambda node: node.fname == 'coalesce'
    pure_callees = {f'{CP}:Compiler._compile': (compiled_of, ['CompilationError'])}
    opaque_ctors = {'EvalCoalesce': ['args']}
    modifies = ['fields:args']
    native = False
    assumes = ['ATTRS_PRESENT', '_compile as assumed (deterministic)']
    raises = {'CompilationError': None}
    loops = {0: dict(inv=lambda operands, _i: all(operands[j].dtype == operands[0].dtype for j in range(_i)))}
    ensures = [
        ('at-least-one-argument', lambda node: len(node.operands) >= 1),
        ('arguments-have-one-type', lambda node: all(compiled_of(node.operands[j]).dtype == compiled_of(node.operands[0]).dtype for j in range(len(node.operands)))),
        ('every-argument-compiled-in-written-order', lambda node, result: len(result.args) == len(node.operands)
            and all(result.args[j] == compiled_of(node.operands[j]) for j in range(len(node.operands)))),
    ]


# ---- BETWEEN: the overload is selected by the exact operand types (no decay of bool to int, no implicit casts) ------------------------------
@spec(uninterpreted=True, sig=(['val'], 'bool'))
def rejected(node):
    """Compiler._compile rejects the expression node (for the current table)"""
    raise NotImplementedError


class _compile_rejecting(_compile_assumed):
    """_compile_assumed, with a name for the condition under which the operand itself is rejected"""
    kind = 'assumed'
    params = _compile_assumed.params
    result = _compile_assumed.result
    modifies = []
    ensures = _compile_assumed.ensures
    raises = {'CompilationError': lambda node: rejected(node)}


def _callee_compile(tag):
    return {f'{CP}:Compiler._compile': Contract(f'{CP}:Compiler._compile', _compile_rejecting, tag)}


@contract(f'{CP}:Compiler._between')
class between_overload:
    props = ['C05', 'C04']
    params = {'self': COMPILER, 'node': Rec('Between', attrs=dict(operand=Dyn(('obj',)), lower=Dyn(('obj',)), upper=Dyn(('obj',))))}
    globals = {'OPERATORS': Opaque('registry')}
    callees = _callee_compile('between')
    externals = {'beanquery.types.name': 1}
    modifies = []
    native = False
    assumes = ['ATTRS_PRESENT', 'PURE_CHILDREN', '_compile as assumed (deterministic)', 'ITERABLE', 'OPERATORS[type(node)] is a sequence of operator classes']
    raises = {'CompilationError': lambda OPERATORS, node: rejected(node.operand) or rejected(node.lower) or rejected(node.upper)
              or not any(cand.__intypes__ == [compiled_of(node.operand).dtype, compiled_of(node.lower).dtype, compiled_of(node.upper).dtype] for cand in OPERATORS[type(node)])}
    raises_iff = False
    loops = {0: dict(inv=lambda OPERATORS, node, intypes, _i: all(OPERATORS[type(node)][j].__intypes__ != intypes for j in range(_i)))}
    ensures = [
        ('an-overload-whose-input-types-are-exactly-the-operand-types', lambda OPERATORS, node, result:
            any(cand.__intypes__ == [compiled_of(node.operand).dtype, compiled_of(node.lower).dtype, compiled_of(node.upper).dtype]
                and result == cand(compiled_of(node.operand), compiled_of(node.lower), compiled_of(node.upper)) for cand in OPERATORS[type(node)])),
    ]


# ---- attribute access on structured values ---------------------------------------------------------------------------------------------------
@contract(f'{CP}:Compiler._attribute')
class attribute_access:
    props = ['C05', 'C04']
    params = {'self': COMPILER, 'node': Rec('Attribute', attrs=dict(operand=Dyn(('obj',)), name=NAME))}
    globals = {'types': None}
    callees = _callee_compile('attribute')
    opaque_ctors = {'EvalGetter': ['operand', 'getter', 'dtype']}
    modifies = ['fields:operand', 'fields:getter', 'fields:dtype']
    native = False
    assumes = ['ATTRS_PRESENT', 'METHODS_PRESENT', '_compile as assumed (deterministic)', 'types.ALIASES and Structure.columns are mappings: .get is a pure lookup']
    raises = {'CompilationError': lambda types, node: rejected(node.operand)
              or not issubclass(types.ALIASES.get(compiled_of(node.operand).dtype, compiled_of(node.operand).dtype), types.Structure)
              or types.ALIASES.get(compiled_of(node.operand).dtype, compiled_of(node.operand).dtype).columns.get(node.name) is None}
    raises_iff = False
    ensures = [
        ('the-getter-of-the-structured-type-or-its-alias', lambda types, node, result:
            issubclass(types.ALIASES.get(compiled_of(node.operand).dtype, compiled_of(node.operand).dtype), types.Structure)
            and result.operand == compiled_of(node.operand)
            and result.getter == types.ALIASES.get(compiled_of(node.operand).dtype, compiled_of(node.operand).dtype).columns.get(node.name)
            and result.getter is not None and result.dtype == result.getter.dtype),
    ]


# ---- IN / NOT IN with a non-subquery right operand: only an untyped value or a list / set / dict can be searched -----------------------------
@contract(f'{CP}:Compiler._inop', 'collection')
class inop_collection:
    props = ['C05', 'C04']
    params = {'self': COMPILER, 'node': Rec('In', attrs=dict(left=Dyn(('obj',)), right=Rec('Constant', attrs={}, isa='beanquery.parser.ast:Constant')))}
    requires = lambda OPERATORS, node: not isinstance(compiled_of(node.right), ext('beanquery.query_compile.EvalQuery')) and len(OPERATORS[type(node)]) >= 1
    globals = {'OPERATORS': Opaque('registry')}
    callees = _callee_compile('inop')
    externals = {'beanquery.types.name': 1}
    modifies = []
    native = False
    assumes = ['ATTRS_PRESENT', 'PURE_CHILDREN', '_compile as assumed (deterministic)', 'ITERABLE', 'OPERATORS[type(node)] is a non-empty sequence of operator classes']
    raises = {'CompilationError': lambda node: rejected(node.left) or rejected(node.right)
              or (compiled_of(node.right).dtype is not object and not issubclass(compiled_of(node.right).dtype, (list, set, dict)))}
    raises_iff = False
    ensures = [
        ('the-right-operand-is-untyped-or-a-list-set-or-dict', lambda node:
            compiled_of(node.right).dtype is object or issubclass(compiled_of(node.right).dtype, (list, set, dict))),
        ('the-membership-operator-over-both-compiled-operands', lambda OPERATORS, node, result:
            result == OPERATORS[type(node)][0](compiled_of(node.left), compiled_of(node.right))),
    ]


@contract(f'{CP}:Compiler._subscript')
class subscript_access:
    props = ['C05', 'C04']
    params = {'self': COMPILER, 'node': Rec('Subscript', attrs=dict(operand=Dyn(('obj',)), key=Dyn(('str',))))}
    callees = _callee_compile('subscript')
    opaque_ctors = {'EvalGetItem': ['operand', 'key']}
    modifies = ['fields:operand', 'fields:key']
    native = False
    assumes = ['ATTRS_PRESENT', '_compile as assumed (deterministic)']
    raises = {'CompilationError': lambda node: rejected(node.operand) or not issubclass(compiled_of(node.operand).dtype, dict)}
    raises_iff = False
    ensures = [('only-a-dict-typed-operand-is-subscripted-with-the-written-key', lambda node, result:
                issubclass(compiled_of(node.operand).dtype, dict) and result.operand == compiled_of(node.operand) and result.key == node.key)]


# ---- binary operators: exact overload after type inference, folding of two constants -------------------------------------------------------------
@contract(f'{CP}:Compiler._binaryop')
class binaryop_overload_and_folding:
    props = ['C09', 'C05', 'C04', 'C01']
    params = {'self': COMPILER, 'node': Rec('BinaryOp', attrs=dict(left=Dyn(('obj',)), right=Dyn(('obj',))))}
    globals = {'OPERATORS': Opaque('registry'), 'FUNCTIONS': Opaque('functions')}
    callees = dict(_callee_compile('binaryop'),
                   **{'beanquery.types:function_lookup': Contract('beanquery.types:function_lookup', _function_lookup_assumed, 'binaryop')})
    externals = {'beanquery.types.name': 1}
    opaque_ctors = {'EvalConstant': ['value', 'dtype']}
    modifies = ['fields:value', 'fields:dtype']
    native = False
    assumes = ['ATTRS_PRESENT', 'METHODS_PRESENT', 'PURE_CHILDREN', 'ITERABLE', '_compile and types.function_lookup as assumed (deterministic)',
               'OPERATORS[type(node)] is a sequence of operator classes; types.MAP is a mapping']
    raises = {'CompilationError': None}
    loops = {0: dict(inv=lambda OPERATORS, node, candidates: candidates == OPERATORS[type(node)]),
             1: dict(inv=lambda: True)}
    ensures = [
        ('an-overload-typed-exactly-as-its-operands-and-folded-by-evaluating-it-when-both-are-constants', lambda OPERATORS, node, result:
            not forall(lambda l, r: not any(
                cand.__intypes__ == [l.dtype, r.dtype]
                and (result == cand(l, r)
                     if not (isinstance(l, ext('beanquery.query_compile.EvalConstant')) and isinstance(r, ext('beanquery.query_compile.EvalConstant')))
                     else (result.value == cand(l, r)(None) and result.dtype == cand(l, r).dtype))
                for cand in OPERATORS[type(node)]))),
    ]


# ---- Compiler.compile: positional placeholders are numbered in textual order ---------------------------------------------------------------------
# The tree walk yields the placeholders in an order of its own; the compiler sorts them by source position (a stable sort
# modelled by its permutation witnesses) and writes the rank into each node.  Precondition: the walk yields each node once.
PINFO = Rec('parseinfo', attrs=dict(pos=Int(0)))
PH = Rec('Placeholder', attrs=dict(name=Opt(Int(0)), parseinfo=PINFO), isa='beanquery.parser.ast:Placeholder')
QUERY = Rec('Select', attrs={})


@spec
def placeholders_of(query):
    """the placeholder nodes of the statement, in the order the tree walk yields them"""
    return [node for node in query.walk() if isinstance(node, ext('beanquery.parser.ast.Placeholder'))]


@contract(f'{CP}:Compiler.compile', 'positional')
class compile_positional:
    props = ['C09', 'C05']
    params = {'self': COMPILER, 'query': QUERY, 'parameters': ListOf(Dyn(), maxlen=3)}
    method_results = {'walk': ListOf(PH, maxlen=3)}
    callees = _callee_compile('compile')
    requires = lambda query: all(all(placeholders_of(query)[a] != placeholders_of(query)[b] for b in range(a)) for a in range(len(placeholders_of(query))))
    modifies = ['self.parameters', 'fields:name']
    native = False
    timeout = 20000
    assumes = ["ATTRS_PRESENT", "METHODS_PRESENT", "the tree walk yields every placeholder node once (precondition); parameters is a list (the tuple and named-placeholder forms are bounded: h09)"]
    # a statement whose placeholders are all positional (fresh, or numbered by an earlier compilation of the same parsed statement) is
    # rejected only for a wrong number of parameters (or by the statement compiler proper): never as `mixed`, never with TypeError
    raises = {'CompilationError': lambda query: rejected(query),
              'ProgrammingError': lambda query, parameters: len(placeholders_of(query)) > 0 and len(placeholders_of(query)) != len(parameters)}
    raises_iff = False
    loops = {0: dict(fields=['name'], inv=lambda _seq, _i: all(_seq[j].name == j for j in range(_i)))}
    ensures = [('parameters-bound', lambda self, parameters: self.parameters == parameters),
               ('one-parameter-per-placeholder', lambda query, parameters: len(placeholders_of(query)) == 0 or len(placeholders_of(query)) == len(parameters)),
               ('numbers-are-positions-in-range', lambda query: all(0 <= placeholders_of(query)[a].name < len(placeholders_of(query)) for a in range(len(placeholders_of(query))))),
               ('numbered-in-textual-order', lambda query: all(all(
                   not (placeholders_of(query)[a].parseinfo.pos < placeholders_of(query)[b].parseinfo.pos) or placeholders_of(query)[a].name < placeholders_of(query)[b].name
                   for b in range(len(placeholders_of(query)))) for a in range(len(placeholders_of(query)))))]
