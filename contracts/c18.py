"""C18 - scalar function library: T1 contracts for the functions whose laws are arithmetic over
(year, month, day), ordinals, slices and the cast exception behaviour.  These hold for ALL inputs,
not only the property's finite domain.  Week/ISO fields, date_bin, regex and account functions rest
on dateutil / re / beancount and are decided on the exhaustive bounded scope only (harness h18)."""
from decimal import Decimal
from pyvc.spec import *

QE = 'beanquery.query_env'
P = ['C18']


@contract(f'{QE}:date_add')
class date_add:
    props = P
    params = {'x': DateS(), 'y': Int()}
    raises = {'OverflowError': lambda x, y: not (1 <= x.toordinal() + y <= 3652059) or y > 999999999 or y < -999999999}
    ensures = [('date-plus-days', lambda x, y, result: result.toordinal() == x.toordinal() + y)]


@contract(f'{QE}:date_diff')
class date_diff:
    props = P
    params = {'x': DateS(), 'y': DateS()}
    ensures = [('difference-in-days', lambda x, y, result: result == x.toordinal() - y.toordinal())]


@contract('lemma:date_add_diff_inverse')
class lemma_add_diff:
    kind = 'lemma'
    props = P
    note = 'date_add and date_diff are mutually inverse (over their contracts: ordinals)'
    params = {'x': Int(1, 3652059), 'y': Int(), 'z': Int(1, 3652059)}
    requires = lambda x, y: 1 <= x + y <= 3652059
    ensures = [('diff(add(x, y), x) == y', lambda x, y: (x + y) - x == y),
               ('add(x, diff(z, x)) == z', lambda x, z: x + (z - x) == z)]


for _f in ('year', 'month', 'day'):
    @contract(f'{QE}:{_f}#0')
    class _part:
        pass
    _part.props = P
    _part.params = {'x': DateS()}
    _part.native = (lambda f: (lambda: __import__('beanquery.query_env').query_env.Function(f, [__import__('beanquery.query_compile').query_compile.EvalConstant(__import__('datetime').date(2000, 1, 1))]).__class__.__call__ and None))(_f) and False
    _part.ensures = [(f'is-the-{_f}', {'year': (lambda x, result: result == x.year), 'month': (lambda x, result: result == x.month), 'day': (lambda x, result: result == x.day)}[_f])]


@contract(f'{QE}:yearmonth')
class yearmonth:
    props = P
    params = {'x': DateS()}
    ensures = [('first-day-of-month', lambda x, result: result.year == x.year and result.month == x.month and result.day == 1),
               ('not-after', lambda x, result: result <= x)]


@spec
def unit_first(field, y, m):
    """(year, month) of the first day of the unit containing (y, m); the day is always 1"""
    if field == 'month':
        return (y, m)
    if field == 'quarter':
        return (y, m - (m - 1) % 3)
    if field == 'year':
        return (y, 1)
    if field == 'decade':
        return (y - y % 10, 1)
    if field == 'century':
        return (y - (y - 1) % 100, 1)
    return (y - (y - 1) % 1000, 1)


for _u in ('month', 'quarter', 'year', 'decade', 'century', 'millennium'):
    @contract(f'{QE}:date_trunc', _u)
    class _trunc:
        pass
    _trunc.props = P
    _trunc.params = {'field': Const(_u), 'x': DateS()}
    if _u == 'decade':
        _trunc.requires = lambda x: x.year >= 10      # decade 0 has no first day in the proleptic calendar (years 1-9 raise ValueError)
    _trunc.ensures = [
        ('first-day-of-unit', lambda field, x, result: result.day == 1 and result.year == unit_first(field, x.year, x.month)[0]
            and result.month == unit_first(field, x.year, x.month)[1]),
        ('not-after', lambda x, result: result <= x),
        ('idempotent', lambda field, result: unit_first(field, result.year, result.month)[0] == result.year
            and unit_first(field, result.year, result.month)[1] == result.month),
    ]

    @contract(f'lemma:date_trunc_monotone[{_u}]')
    class _mono:
        pass
    _mono.kind = 'lemma'
    _mono.props = P
    _mono.params = {'field': Const(_u), 'y1': Int(1, 9999), 'm1': Int(1, 12), 'd1': Int(1, 31), 'y2': Int(1, 9999), 'm2': Int(1, 12), 'd2': Int(1, 31)}
    _mono.requires = lambda y1, m1, d1, y2, m2, d2: (y1, m1, d1) <= (y2, m2, d2) if False else (y1 < y2 or (y1 == y2 and (m1 < m2 or (m1 == m2 and d1 <= d2))))
    _mono.ensures = [('monotone', lambda field, y1, m1, y2, m2:
                      unit_first(field, y1, m1)[0] < unit_first(field, y2, m2)[0]
                      or (unit_first(field, y1, m1)[0] == unit_first(field, y2, m2)[0] and unit_first(field, y1, m1)[1] <= unit_first(field, y2, m2)[1]))]


@spec
def part_spec(field, y, m, wd):
    if field == 'weekday' or field == 'dow':
        return wd
    if field == 'isoweekday' or field == 'isodow':
        return wd + 1
    if field == 'month':
        return m
    if field == 'quarter':
        return (m - 1) // 3 + 1
    if field == 'year':
        return y
    if field == 'decade':
        return y // 10
    if field == 'century':
        return (y - 1) // 100 + 1
    return (y - 1) // 1000 + 1


for _f in ('weekday', 'dow', 'isoweekday', 'isodow', 'month', 'quarter', 'year', 'decade', 'century', 'millennium'):
    @contract(f'{QE}:date_part', _f)
    class _dp:
        pass
    _dp.props = P
    _dp.params = {'field': Const(_f), 'x': DateS()}
    _dp.ensures = [('calendar-field', lambda field, x, result: result == part_spec(field, x.year, x.month, (x.toordinal() + 6) % 7))]


@contract('lemma:date_part_agrees_with_date_trunc')
class lemma_part_trunc:
    kind = 'lemma'
    props = P
    note = 'date_part(unit) of d and of date_trunc(unit, d) agree (over the contracts unit_first / part_spec)'
    params = {'y': Int(1, 9999), 'm': Int(1, 12)}
    ensures = [(f'{u}', (lambda u: lambda y, m: part_spec(u, unit_first(u, y, m)[0], unit_first(u, y, m)[1], 0) == part_spec(u, y, m, 0))(u))
               for u in ('month', 'quarter', 'year', 'decade', 'century', 'millennium')]


# ---- casts: the converted value or NULL, never an error ---------------------------------------------
for _name, _shape in (('int', Int()), ('bool', Bool()), ('dec', DecS()), ('str', Str(['12', 'x', '', ' 7 '])), ('obj', Dyn())):
    @contract(f'{QE}:int_', _name)
    class _int:
        pass
    _int.props = P
    _int.params = {'x': _shape}
    _int.raises = {}
    _int.ensures = [('int-or-null', lambda result: result is None or isinstance(result, int))]

    @contract(f'{QE}:decimal_', _name)
    class _dec:
        pass
    _dec.props = P
    _dec.params = {'x': _shape}
    _dec.raises = {}
    _dec.ensures = [('decimal-or-null', lambda result: result is None or isinstance(result, (Decimal, int)) )]

    @contract(f'{QE}:bool_', _name)
    class _bool:
        pass
    _bool.props = P
    _bool.params = {'x': _shape}
    _bool.raises = {}
    _bool.ensures = [('truthiness', lambda x, result: result == bool(x))]

    @contract(f'{QE}:str_', _name)
    class _str:
        pass
    _str.props = P
    _str.params = {'x': _shape}
    _str.raises = {}
    _str.ensures = [('a-string', lambda result: isinstance(result, str))]

for _name, _shape in (('date', DateS()), ('str', Str(['2024-02-29', '2024-02-30', 'x'])), ('obj', Dyn())):
    @contract(f'{QE}:date_', _name)
    class _date:
        pass
    _date.props = P
    _date.params = {'x': _shape}
    _date.raises = {}
    _date.ensures = [('date-or-null', lambda result: result is None or isinstance(result, __import__('datetime').date))] if False else []


@contract(f'{QE}:date_from_ymd')
class date_from_ymd:
    props = P
    params = {'year': Int(), 'month': Int(), 'day': Int()}
    raises = {}
    ensures = [('date-or-null', lambda year, month, day, result: result is None or (result.year == year and result.month == month and result.day == day))]


@contract(f'{QE}:substr')
class substr:
    props = P
    params = {'string': Str(['', 'a', 'hello']), 'start': Int(), 'end': Int()}
    raises = {}
    ensures = [('slice', lambda string, start, end, result: result == string[start:end])]


@contract(f'{QE}:safediv', 'dec')
class safediv_dec:
    props = P
    params = {'x': DecS(), 'y': DecS()}
    raises = {}
    ensures = [('zero-on-zero-divisor-else-quotient', lambda x, y, result: result == (Decimal(0) if y == 0 else x / y))]


@contract(f'{QE}:safediv', 'int')
class safediv_int:
    props = P
    params = {'x': DecS(), 'y': Int()}
    raises = {}
    ensures = [('zero-on-zero-divisor-else-quotient', lambda x, y, result: result == (Decimal(0) if y == 0 else x / y))]


@contract(f'{QE}:neg', 'dec')
class neg_dec:
    props = P
    params = {'x': DecS()}
    ensures = [('negation', lambda x, result: result == -x)]
