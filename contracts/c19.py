"""C19 - settings behave as a typed key-value store.

T1 (one contract per setting, generated from the typed field list below, which is the statement's list of
settings): `setstr(NAME, value)` stores the parsed value in exactly that setting and leaves every other setting
alone; when the value is not valid for the setting's type it raises ValueError and changes nothing; a name that
is not a setting raises AttributeError and changes nothing (in particular it cannot shadow a method or add an
attribute); `getstr(NAME)` is the echo format of the stored value and changes nothing.
The dispatch of `.set` / queries / `.run` through the cmd loop is bounded only (harness h19).
"""
from pyvc.spec import *

SH = 'beanquery.shell'
BOOLS = ['boxed', 'expand', 'narrow', 'numberify', 'pager', 'spaced', 'unicode']
STRS = ['nullvalue']
TRUE_WORDS = ("1", "true", "t", "yes", "y", "on")
FALSE_WORDS = ("0", "false", "f", "no", "n", "off")

FIELDS = dict(boxed=Bool(), expand=Bool(), format=Str(), narrow=Bool(), nullvalue=Str(), numberify=Bool(), pager=Bool(), spaced=Bool(), unicode=Bool())
SETTINGS = Obj(f'{SH}:Settings', fields=FIELDS, complete=True)   # a dataclass instance: exactly its declared fields
FORMATS = {'FORMATS': ListOf(Str())}    # only membership of the registered format names is used


@spec
def norm(value):
    return value.strip().lower()


def _set_bool(name):
    @contract(f'{SH}:Settings.setstr', f'bool:{name}')
    class _c:
        pass
    _c.props = ['C19']
    _c.params = {'self': SETTINGS, 'name': Const(name), 'value': Str(['true', ' Yes ', 'off', '0', 'N', 'maybe', '', 'T', '1', 'on '])}   # pool: native evaluation only
    _c.modifies = [f'self.{name}']
    _c.raises = {'ValueError': lambda value: norm(value) not in TRUE_WORDS and norm(value) not in FALSE_WORDS}
    _c.ensures = [('stores-the-parsed-boolean', lambda self, name, value: (getattr(self, name) is True and norm(value) in TRUE_WORDS)
                                                              or (getattr(self, name) is False and norm(value) in FALSE_WORDS))]
    return _c


for _n in BOOLS:
    _set_bool(_n)


@contract(f'{SH}:Settings.setstr', 'str:nullvalue')
class set_nullvalue:
    props = ['C19']
    params = {'self': SETTINGS, 'name': Const('nullvalue'), 'value': Str()}
    modifies = ['self.nullvalue']
    ensures = [('stores-the-text-itself', lambda self, value: self.nullvalue == value)]


@contract(f'{SH}:Settings.setstr', 'format')
class set_format:
    props = ['C19']
    params = {'self': SETTINGS, 'name': Const('format'), 'value': Str()}
    globals = FORMATS
    modifies = ['self.format']
    native = False      # the registry of formats is a module global of the shell: evaluated natively by harness h19 instead
    raises = {'ValueError': lambda value, FORMATS: value not in FORMATS}
    ensures = [('stores-a-registered-format', lambda self, value, FORMATS: self.format == value and value in FORMATS)]


@contract(f'{SH}:Settings.setstr', 'unknown-name')
class set_unknown:
    props = ['C19']
    params = {'self': SETTINGS, 'name': Str(), 'value': Str()}
    requires = lambda name: name not in ('boxed', 'expand', 'format', 'narrow', 'nullvalue', 'numberify', 'pager', 'spaced', 'unicode')
    modifies = []
    raises = {'AttributeError': None}
    ensures = [('never-returns-normally', lambda name: False)]


def _get_bool(name):
    @contract(f'{SH}:Settings.getstr', f'bool:{name}')
    class _c:
        pass
    _c.props = ['C19']
    _c.params = {'self': SETTINGS, 'name': Const(name)}
    _c.modifies = []
    _c.ensures = [('echo-of-a-boolean', lambda self, name, result: result == ('true' if getattr(self, name) else 'false'))]
    return _c


for _n in BOOLS:
    _get_bool(_n)


@contract(f'{SH}:Settings.getstr', 'unknown-name')
class get_unknown:
    props = ['C19']
    params = {'self': SETTINGS, 'name': Str()}
    requires = lambda name: name not in ('boxed', 'expand', 'format', 'narrow', 'nullvalue', 'numberify', 'pager', 'spaced', 'unicode')
    modifies = []
    raises = {'AttributeError': None}
    ensures = [('never-returns-normally', lambda name: False)]


def _get_str(name):
    @contract(f'{SH}:Settings.getstr', f'str:{name}')
    class _c:
        pass
    _c.props = ['C19']
    _c.params = {'self': SETTINGS, 'name': Const(name)}
    _c.modifies = []
    _c.ensures = [('echo-of-a-text-is-its-quoted-form', lambda self, name, result: result == repr(getattr(self, name)))]
    return _c


for _n in STRS + ['format']:
    _get_str(_n)
