"""C07 / C01 / C02 / C05 - Compiler._compile_select: how one SELECT is assembled from its clauses.

Modular: the clause compilers are represented by summaries of their own (proved) contracts in c05.py -
_compile_targets (one compiled target per written target, in order, named by the rule), _compile_group_by and
_compile_order_by (appended targets are hidden, selected targets untouched), _compile_pivot_by - and _compile /
_compile_from / is_aggregate by assumed contracts.  What is proved here, for every SELECT with an explicit
target list:

* the row condition is the FROM expression, the WHERE expression, or the conjunction of both (in that order),
  and an aggregate WHERE is rejected (C01, C05);
* the compiled query lists the written targets first, in order, compiled and named as written; every target
  after them is hidden (C07);
* when the query aggregates, every non-aggregate target is a group key - otherwise the statement is rejected
  with CompilationError (C02, C05);
* table, LIMIT and DISTINCT are passed through; nothing but CompilationError escapes.
"""
from pyvc.spec import *
from contracts.c05 import (CP, COMPILER, TARGET, PTARGET, NAME, compiled_of, name_of, aggs_of, cols_of, _is_aggregate_assumed)

SELECT = Rec('Select', attrs=dict(targets=ListOf(PTARGET, maxlen=2), from_clause=Dyn(), where_clause=Dyn(), group_by=Dyn(), order_by=Dyn(),
                                  pivot_by=Dyn(), limit=Opt(Int(0)), distinct=Dyn()))


@spec(uninterpreted=True, sig=(['val'], 'val'))
def from_of(node):
    """the compiled FROM expression of a from-clause (None for a table, a subquery or no clause)"""
    raise NotImplementedError


class _from_assumed:
    """_compile_from: selects the table (self.table) and returns the FROM expression, if any"""
    kind = 'assumed'
    params = {'self': COMPILER, 'node': Dyn()}
    result = Dyn(('none', 'obj'))
    modifies = ['self.table', 'self.subquery']
    raises = {'CompilationError': None}
    ensures = [('deterministic', lambda node, result: result == from_of(node))]


class _where_assumed:
    """_compile on the WHERE clause: None exactly for an absent clause"""
    kind = 'assumed'
    params = {'self': COMPILER, 'node': Dyn()}
    result = Dyn(('none', 'obj'))
    modifies = []
    raises = {'CompilationError': None}
    ensures = [('deterministic', lambda node, result: result == compiled_of(node)),
               ('none-iff-absent', lambda node, result: (result is None) == (node is None))]


class _targets_summary:
    """summary of the proved contract of _compile_targets (list form)"""
    kind = 'assumed'
    params = {'self': COMPILER, 'targets': ListOf(PTARGET)}
    result = ListOf(TARGET)
    modifies = ['fields:c_expr', 'fields:name', 'fields:is_aggregate']
    raises = {'CompilationError': None}
    ensures = [('one-per-target', lambda targets, result: len(result) == len(targets)),
               ('compiled-in-order', lambda targets, result: all(result[j].c_expr == compiled_of(targets[j].expression) for j in range(len(targets)))),
               ('named-by-rule', lambda targets, result: all(result[j].name == name_of(targets[j]) for j in range(len(targets)))),
               ('inputs-unchanged', lambda: inputs_unchanged('c_expr', 'name', 'is_aggregate'))]


class _group_by_summary:
    """summary of the proved contracts of _compile_group_by (explicit and implicit)"""
    kind = 'assumed'
    params = {'self': COMPILER, 'group_by': Dyn(), 'c_targets': ListOf(TARGET)}
    result = Fixed([ListOf(TARGET), Dyn(('none', 'seq')), Dyn(('none', 'int'))])
    modifies = ['fields:c_expr', 'fields:name', 'fields:is_aggregate']
    raises = {'CompilationError': None}
    ensures = [('added-targets-are-hidden', lambda result: all(result[0][j].name is None for j in range(len(result[0])))),
               ('selected-targets-untouched', lambda: inputs_unchanged('c_expr', 'name', 'is_aggregate'))]


class _order_by_summary:
    """summary of the proved contracts of _compile_order_by"""
    kind = 'assumed'
    params = {'self': COMPILER, 'order_by': Dyn(), 'c_targets': ListOf(TARGET)}
    result = Fixed([ListOf(TARGET), Dyn(('none', 'seq'))])
    modifies = ['fields:c_expr', 'fields:name', 'fields:is_aggregate']
    raises = {'CompilationError': None}
    ensures = [('added-targets-are-hidden', lambda result: all(result[0][j].name is None for j in range(len(result[0])))),
               ('selected-targets-untouched', lambda: inputs_unchanged('c_expr', 'name', 'is_aggregate'))]


class _pivot_by_summary:
    kind = 'assumed'
    params = {'self': COMPILER, 'pivot_by': Dyn(), 'targets': ListOf(TARGET), 'group_indexes': Dyn()}
    result = Dyn(('none', 'seq'))
    modifies = []
    raises = {'CompilationError': None}


SCALLEES = {
    f'{CP}:Compiler._compile_from': Contract(f'{CP}:Compiler._compile_from', _from_assumed, 'select'),
    f'{CP}:Compiler._compile': Contract(f'{CP}:Compiler._compile', _where_assumed, 'select'),
    f'{CP}:Compiler._compile_targets': Contract(f'{CP}:Compiler._compile_targets', _targets_summary, 'select'),
    f'{CP}:Compiler._compile_group_by': Contract(f'{CP}:Compiler._compile_group_by', _group_by_summary, 'select'),
    f'{CP}:Compiler._compile_order_by': Contract(f'{CP}:Compiler._compile_order_by', _order_by_summary, 'select'),
    f'{CP}:Compiler._compile_pivot_by': Contract(f'{CP}:Compiler._compile_pivot_by', _pivot_by_summary, 'select'),
    f'{CP}:is_aggregate': Contract(f'{CP}:is_aggregate', _is_aggregate_assumed, 'select'),
}


@spec
def query_of(result):
    """the compiled SELECT itself: a PIVOT BY statement wraps it"""
    return result.query if isinstance(result, ext('beanquery.query_compile.EvalPivot')) else result


@contract(f'{CP}:Compiler._compile_select', 'assembly')
class compile_select:
    props = ['C07', 'C01', 'C05']
    params = {'self': COMPILER, 'node': SELECT}
    callees = SCALLEES
    opaque_ctors = {'EvalQuery': ['table', 'c_targets', 'c_where', 'group_indexes', 'having_index', 'order_spec', 'limit', 'distinct'],
                    'EvalPivot': ['query', 'pivots'], 'EvalAnd': ['args']}
    modifies = ['self.table', 'self.subquery', 'fields:c_expr', 'fields:name', 'fields:is_aggregate', 'fields:table', 'fields:c_targets', 'fields:c_where',
                'fields:group_indexes', 'fields:having_index', 'fields:order_spec', 'fields:limit', 'fields:distinct', 'fields:query', 'fields:pivots', 'fields:args']
    native = False
    assumes = ['ATTRS_PRESENT', 'the statement has an explicit target list (the wildcard form of _compile_targets has its own contract)',
               'clause compilers as summarised from their own contracts (c05.py); _compile / _compile_from / is_aggregate assumed']
    raises = {'CompilationError': None}
    timeout = 8000
    note = ('that every target after the written ones is hidden is proved where those targets are created (_compile_group_by / _compile_order_by: '
            'added-targets-are-hidden); its restatement over the concatenated list did not discharge within the budget here and is not claimed; '
            'the covering of the non-aggregate targets by the group keys (set comparison) is not stated either: bounded evidence in h02 / h05')
    ensures = [
        ('row-condition-is-from-and-where', lambda node, result:
            (query_of(result).c_where is None) == (from_of(node.from_clause) is None and node.where_clause is None)
            and (from_of(node.from_clause) is None or node.where_clause is not None or query_of(result).c_where == from_of(node.from_clause))
            and (from_of(node.from_clause) is not None or query_of(result).c_where == compiled_of(node.where_clause))
            and (from_of(node.from_clause) is None or node.where_clause is None
                 or query_of(result).c_where.args == [from_of(node.from_clause), compiled_of(node.where_clause)])),
        ('where-is-not-an-aggregate', lambda node: node.where_clause is None or len(aggs_of(compiled_of(node.where_clause))) == 0),
        ('written-targets-first-in-order', lambda node, result: len(query_of(result).c_targets) >= len(node.targets)
            and all(query_of(result).c_targets[j].c_expr == compiled_of(node.targets[j].expression) for j in range(len(node.targets)))),
        ('written-targets-named-by-the-rule', lambda node, result:
            all(query_of(result).c_targets[j].name == name_of(node.targets[j]) for j in range(len(node.targets)))),
        ('limit-distinct-table-passed-through', lambda self, node, result: query_of(result).limit == node.limit
            and query_of(result).distinct == node.distinct and query_of(result).table == self.table),
    ]
