"""C05 / C07 / C15 - the compiler's static validation, function by function.  Each rule of the property is the
raises-condition of one function: a CompilationError is raised exactly when the rule is violated, nothing else escapes,
and on acceptance the returned indexes / names satisfy the range and naming postconditions the executor relies on."""
from pyvc.spec import *

CP = 'beanquery.compiler'
NAME = Opaque('name', natives=['a', 'b', 'zz'])      # identifiers are only compared for equality: an opaque sort keeps the string solver out of the queries
COLNODE = Rec('Column', attrs=dict(name=NAME), isa='beanquery.parser.ast:Column',
              native=lambda a: __import__('beanquery.parser.ast', fromlist=['x']).Column(a['name']))
TARGET = Rec('EvalTarget', attrs=dict(name=Opt(NAME), c_expr=Opaque('node'), is_aggregate=Bool()),
             native=lambda a: __import__('beanquery.query_compile', fromlist=['x']).EvalTarget(a['c_expr'], a['name'], a['is_aggregate']))
COMPILER = Obj(f'{CP}:Compiler', fields=dict(table=Opaque('table'), context=Opaque('conn'), parameters=Dyn(), depth=Int(0), subquery=Bool()))


# ---- get_target_name (C07): alias, else column name, else the exact source text -------------------------------------
ATARGET = Rec('Target', attrs=dict(name=Opt(Str(['x'])), expression=Opaque('expr')))


@contract(f'{CP}:get_target_name')
class target_name:
    props = ['C07', 'C05']
    params = {'target': ATARGET}
    native = False
    assumes = ['ATTRS_PRESENT', 'METHODS_PRESENT', 'Node.text is the slice of the statement text delimited by the parse positions (bounded evidence: h06/h07)']
    ensures = [('alias-else-column-name-else-source-text', lambda target, result:
                result == (target.name if target.name is not None
                           else (target.expression.name if isinstance(target.expression, ext('beanquery.parser.ast.Column')) else target.expression.text.strip())))]


# ---- PIVOT BY (C15, C05) ---------------------------------------------------------------------------------------------
PIVOT = Obj('beanquery.parser.ast:PivotBy', fields=dict(columns=Fixed([Union(Int(), COLNODE), Union(Int(), COLNODE)], kind='list')),
            native=lambda f: __import__('beanquery.parser.ast', fromlist=['x']).PivotBy(f['columns']))


@spec
def nselected(targets):
    """number of selected targets (the ones with a name; targets added by GROUP BY / ORDER BY / HAVING have none)"""
    return sum(1 for target in targets if target.name is not None)


@spec
def resolves(column, targets, index):
    """index is what the reference `column` denotes: a 1-based position among the selected targets, or the name of a selected target"""
    return (0 <= index < len(targets)) and ((index == column - 1 and index < nselected(targets)) if isinstance(column, int)
                                            else (targets[index].name is not None and targets[index].name == column.name))


@spec
def resolved(column, targets):
    """what a reference denotes: position - 1, or the index of the (last) target carrying the name; None if there is none"""
    if isinstance(column, int):
        return column - 1 if 1 <= column <= nselected(targets) else None
    return {target.name: index for index, target in enumerate(targets)}.get(column.name)


@spec
def pivot_rejected(pivot_by, targets, group_indexes):
    """the statement's rule: the query does not aggregate, a reference is unknown / out of range, both coincide, or the second is not grouped"""
    r0 = resolved(pivot_by.columns[0], targets)
    r1 = resolved(pivot_by.columns[1], targets)
    return group_indexes is None or r0 is None or r1 is None or r0 == r1 or r1 not in group_indexes


@contract(f'{CP}:Compiler._compile_pivot_by')
class compile_pivot_by:
    props = ['C15', 'C05']
    params = {'self': COMPILER, 'pivot_by': PIVOT, 'targets': ListOf(TARGET, maxlen=3), 'group_indexes': Opt(ListOf(Int(0, 3), maxlen=3))}
    modifies = []
    assumes = ['ATTRS_PRESENT']
    raises = {'CompilationError': lambda old: pivot_rejected(old.pivot_by, old.targets, old.group_indexes)}
    ensures = [
        ('both-references-resolve-to-selected-targets', lambda pivot_by, targets, result:
            len(result) == 2 and resolves(pivot_by.columns[0], targets, result[0]) and resolves(pivot_by.columns[1], targets, result[1])),
        ('distinct-and-second-is-grouped', lambda group_indexes, result: result[0] != result[1] and group_indexes is not None and result[1] in group_indexes),
        ('accepted-only-when-the-rule-holds', lambda pivot_by, targets, group_indexes: not pivot_rejected(pivot_by, targets, group_indexes)),
    ]


@contract(f'{CP}:Compiler._compile_pivot_by', 'none')
class compile_pivot_by_none:
    props = ['C15', 'C05']
    params = {'self': COMPILER, 'pivot_by': NoneS(), 'targets': ListOf(TARGET, maxlen=2), 'group_indexes': Opt(ListOf(Int(0, 3), maxlen=2))}
    modifies = []
    native = False
    ensures = [('no-pivot', lambda result: result is None)]


# ---- ORDER BY key resolution (C03, C07, C05) -------------------------------------------------------------------------
@spec(uninterpreted=True, sig=(['val'], 'val'))
def compiled_of(node):
    """the compiled form of an expression node (deterministic for a fixed table): result of Compiler._compile"""
    raise NotImplementedError


@spec(uninterpreted=True, sig=(['val'], 'seq'))
def cols_of(c_expr):
    raise NotImplementedError


@spec(uninterpreted=True, sig=(['val'], 'seq'))
def aggs_of(c_expr):
    raise NotImplementedError


class _compile_assumed:
    """assumed contract of the expression compiler seen from the clause resolvers: a deterministic function of the node
    that leaves the compiler state alone and rejects only with CompilationError (handlers are checked separately: C08 frame)"""
    kind = 'assumed'
    params = {'self': COMPILER, 'node': Dyn()}
    result = Opaque('node')
    raises = {'CompilationError': None}
    modifies = []
    ensures = [('deterministic', lambda node, result: result == compiled_of(node))]


class _gca_assumed:
    kind = 'assumed'
    params = {'node': Opaque('node')}
    result = Fixed([ListOf(Opaque('node')), ListOf(Opaque('node'))])
    ensures = [('columns-and-aggregates', lambda node, result: result[0] == cols_of(node) and result[1] == aggs_of(node))]


class _is_aggregate_assumed:
    kind = 'assumed'
    params = {'node': Opaque('node')}
    result = Bool()
    ensures = [('has-aggregates', lambda node, result: result == (len(aggs_of(node)) > 0))]


CALLEES = {f'{CP}:Compiler._compile': Contract(f'{CP}:Compiler._compile', _compile_assumed, 'clauses'),
           f'{CP}:get_columns_and_aggregates': Contract(f'{CP}:get_columns_and_aggregates', _gca_assumed, 'clauses'),
           f'{CP}:is_aggregate': Contract(f'{CP}:is_aggregate', _is_aggregate_assumed, 'clauses')}
EXPR = Rec('Expr', attrs={}, isa=None)
ORDER = Rec('OrderBy', attrs=dict(column=Union(Int(), COLNODE, Opaque('expr')), ordering=Opaque('ordering')))
CTARGETS = ListOf(TARGET, maxlen=3)


@spec
def order_key(column, c_targets, new_targets, index):
    """what `index` must be for the ORDER BY key `column`: a 1-based position among the selected targets; the (last) selected
    target of that name; otherwise a target (existing, or appended hidden) whose compiled expression is the key's"""
    byname = {target.name: idx for idx, target in enumerate(c_targets) if target.name is not None}.get(column.name) if isinstance(column, ext('beanquery.parser.ast.Column')) else None
    if isinstance(column, int):
        return index == column - 1 and 0 <= index < nselected(c_targets)
    if byname is not None:
        return index == byname
    return 0 <= index < len(new_targets) and new_targets[index].c_expr == compiled_of(column)


@contract(f'{CP}:Compiler._compile_order_by')
class compile_order_by:
    props = ['C03', 'C07', 'C05']
    params = {'self': COMPILER, 'order_by': ListOf(ORDER, minlen=1, maxlen=2), 'c_targets': CTARGETS}
    callees = CALLEES
    opaque_ctors = {'EvalTarget': ['c_expr', 'name', 'is_aggregate']}
    hints = ['seq-pointwise']
    timeout = 10000
    modifies = ['fields:c_expr', 'fields:name', 'fields:is_aggregate']
    native = False
    assumes = ['ATTRS_PRESENT', 'compiled nodes compare by ==; list.index finds the first equal element (merge soundness is C03 EvalNode.__eq__)']
    note = ('what a key given by position or by name denotes is NOT carried by this contract (the invariant with order_key() did not discharge within the budget: nested pair '
            'handles under a dict lookup; bounded evidence in h03, h05, h07); that a key which is an expression (neither a position nor a bare column) sorts by a target '
            'compiled from that very expression is carried by the loop invariant (conjunct 10) - its restatement over the returned slice did not discharge and is not claimed as a postcondition')
    raises = {'CompilationError': None}
    loops = {0: dict(fields=['c_expr', 'name', 'is_aggregate'],
                     inv=lambda order_by, c_targets, new_targets, c_target_expressions, order_spec, _i:
                     len(order_spec) == _i
                     and len(new_targets) >= len(c_targets) and all(new_targets[j] == c_targets[j] for j in range(len(c_targets)))
                     and len(c_target_expressions) == len(new_targets)
                     and all(c_target_expressions[j] == new_targets[j].c_expr for j in range(len(new_targets)))
                     and all(new_targets[j].name is None for j in range(len(c_targets), len(new_targets)))
                     and all(allocated(new_targets[j]) for j in range(len(new_targets)))
                     and all(order_spec[j][1] == order_by[j].ordering for j in range(_i))
                     and all(isinstance(order_spec[j][0], int) for j in range(_i))
                     and all(0 <= order_spec[j][0] < len(new_targets) for j in range(_i))
                     and all(isinstance(order_by[j].column, int) or isinstance(order_by[j].column, ext('beanquery.parser.ast.Column'))
                             or new_targets[order_spec[j][0]].c_expr == compiled_of(order_by[j].column) for j in range(_i))
                     and inputs_unchanged('c_expr', 'name', 'is_aggregate'))}
    ensures = [
        ('one-sort-key-per-clause-with-its-direction', lambda order_by, result: len(result[1]) == len(order_by)
            and all(result[1][j][1] == order_by[j].ordering for j in range(len(order_by)))),
        ('selected-targets-untouched', lambda: inputs_unchanged('c_expr', 'name', 'is_aggregate')),
        ('every-sort-index-addresses-a-target-of-the-extended-list', lambda c_targets, result:
            all(0 <= result[1][j][0] < len(c_targets) + len(result[0]) for j in range(len(result[1])))),
    ]


@contract(f'{CP}:Compiler._compile_order_by', 'absent')
class compile_order_by_absent:
    props = ['C03', 'C05']
    params = {'self': COMPILER, 'order_by': NoneS(), 'c_targets': CTARGETS}
    callees = CALLEES
    modifies = []
    native = False
    ensures = [('no-order', lambda result: len(result[0]) == 0 and result[1] is None)]


# ---- SELECT targets (C07, C05, C02) ------------------------------------------------------------------------------------
PTARGET = Rec('Target', attrs=dict(name=Opt(NAME), expression=Opaque('expr')))


@spec(uninterpreted=True, sig=(['val'], 'val'))
def text_of(expression):
    """the name the statement gives an unnamed, non-column target: its exact source text (get_target_name is proved against this rule above)"""
    raise NotImplementedError


class _target_name_assumed:
    """get_target_name seen from _compile_targets: its own contract (alias, else column name, else source text) is proved above"""
    kind = 'assumed'
    params = {'target': PTARGET}
    result = Opt(NAME)
    modifies = []
    ensures = [('deterministic', lambda target, result: result == name_of(target))]


@spec(uninterpreted=True, sig=(['val'], 'val'))
def name_of(target):
    raise NotImplementedError


TCALLEES = dict(CALLEES)
TCALLEES[f'{CP}:get_target_name'] = Contract(f'{CP}:get_target_name', _target_name_assumed, 'targets')


@contract(f'{CP}:Compiler._compile_targets', 'list')
class compile_targets:
    props = ['C07', 'C05', 'C02']
    params = {'self': COMPILER, 'targets': ListOf(PTARGET, maxlen=3)}
    callees = TCALLEES
    opaque_ctors = {'EvalTarget': ['c_expr', 'name', 'is_aggregate']}
    method_results = {'childnodes': ListOf(Opaque('node'))}
    modifies = ['fields:c_expr', 'fields:name', 'fields:is_aggregate']
    native = False
    assumes = ['ATTRS_PRESENT', 'METHODS_PRESENT', 'isinstance(targets, Asterisk) is false for a list (the wildcard form is the other variant)']
    raises = {'CompilationError': None}
    loops = {0: dict(fields=['c_expr', 'name', 'is_aggregate'],
                     inv=lambda targets, c_targets, _i:
                     len(c_targets) == _i
                     and all(c_targets[j].c_expr == compiled_of(targets[j].expression) for j in range(_i))
                     and all(c_targets[j].name == name_of(targets[j]) for j in range(_i))
                     and all(c_targets[j].is_aggregate == (len(aggs_of(c_targets[j].c_expr)) > 0) for j in range(_i))
                     and all(not (len(cols_of(c_targets[j].c_expr)) > 0 and len(aggs_of(c_targets[j].c_expr)) > 0) for j in range(_i))
                     and all(allocated(c_targets[j]) for j in range(_i))
                     and inputs_unchanged('c_expr', 'name', 'is_aggregate')),
             1: dict(inv=lambda: True),
             2: dict(inv=lambda: True)}
    ensures = [
        ('one-compiled-target-per-written-target-in-order', lambda targets, result: len(result) == len(targets)
            and all(result[j].c_expr == compiled_of(targets[j].expression) for j in range(len(targets)))),
        ('named-by-the-naming-rule', lambda targets, result: all(result[j].name == name_of(targets[j]) for j in range(len(targets)))),
        ('aggregate-flag-is-truthful', lambda result: all(result[j].is_aggregate == (len(aggs_of(result[j].c_expr)) > 0) for j in range(len(result)))),
        ('no-target-mixes-aggregates-and-bare-columns', lambda result:
            all(not (len(cols_of(result[j].c_expr)) > 0 and len(aggs_of(result[j].c_expr)) > 0) for j in range(len(result)))),
    ]


WTABLE = Rec('table', attrs=dict(wildcard_columns=ListOf(NAME, maxlen=3)))
WCOMPILER = Obj(f'{CP}:Compiler', fields=dict(table=WTABLE, context=Opaque('conn'), parameters=Dyn(), depth=Int(0), subquery=Bool()))
ASTN = 'beanquery.parser.ast'


@contract(f'{CP}:Compiler._compile_targets', 'wildcard')
class compile_targets_wildcard:
    props = ['C07', 'C05']
    params = {'self': WCOMPILER, 'targets': Rec('Asterisk', attrs={}, isa='beanquery.parser.ast:Asterisk')}
    callees = TCALLEES
    opaque_ctors = {'EvalTarget': ['c_expr', 'name', 'is_aggregate']}
    pure_ctors = {'Target': ASTN, 'Column': ASTN}
    method_results = {'childnodes': ListOf(Opaque('node'))}
    modifies = ['fields:c_expr', 'fields:name', 'fields:is_aggregate']
    native = False
    assumes = ['ATTRS_PRESENT', 'METHODS_PRESENT']
    raises = {'CompilationError': None}
    loops = {0: dict(fields=['c_expr', 'name', 'is_aggregate'],
                     inv=lambda self, c_targets, _i:
                     len(c_targets) == _i
                     and all(c_targets[j].c_expr == compiled_of(Column(self.table.wildcard_columns[j])) for j in range(_i))
                     and all(c_targets[j].name == name_of(Target(Column(self.table.wildcard_columns[j]), None)) for j in range(_i))
                     and all(allocated(c_targets[j]) for j in range(_i))
                     and inputs_unchanged('c_expr', 'name', 'is_aggregate')),
             1: dict(inv=lambda: True),
             2: dict(inv=lambda: True)}
    ensures = [
        ('one-target-per-wildcard-column-of-the-table-in-order', lambda self, result: len(result) == len(self.table.wildcard_columns)
            and all(result[j].c_expr == compiled_of(Column(self.table.wildcard_columns[j])) for j in range(len(result)))),
        ('named-as-an-unaliased-column-reference', lambda self, result:
            all(result[j].name == name_of(Target(Column(self.table.wildcard_columns[j]), None)) for j in range(len(result)))),
    ]


# ---- GROUP BY / HAVING (C02, C05, C07) -----------------------------------------------------------------------------------
GROUPBY = Rec('GroupBy', attrs=dict(columns=ListOf(Union(Int(), COLNODE, Opaque('expr')), minlen=1, maxlen=2), having=Opt(Opaque('expr'))))


@contract(f'{CP}:Compiler._compile_group_by', 'explicit')
class compile_group_by:
    props = ['C02', 'C05', 'C07']
    params = {'self': COMPILER, 'group_by': GROUPBY, 'c_targets': CTARGETS}
    requires = lambda group_by: len(group_by.columns) >= 1      # the grammar: GROUP BY is followed by at least one key
    callees = CALLEES
    opaque_ctors = {'EvalTarget': ['c_expr', 'name', 'is_aggregate']}
    hints = ['seq-pointwise']
    timeout = 10000
    modifies = ['fields:c_expr', 'fields:name', 'fields:is_aggregate']
    native = False
    assumes = ['ATTRS_PRESENT', 'compiled nodes compare by ==; list.index finds the first equal element (merge soundness is C03 EvalNode.__eq__)']
    raises = {'CompilationError': None}
    loops = {0: dict(fields=['c_expr', 'name', 'is_aggregate'],
                     inv=lambda group_by, c_targets, new_targets, c_target_expressions, group_indexes, having_index, _i:
                     len(group_indexes) == _i and having_index is None
                     and len(new_targets) >= len(c_targets) and all(new_targets[j] == c_targets[j] for j in range(len(c_targets)))
                     and len(c_target_expressions) == len(new_targets)
                     and all(c_target_expressions[j] == new_targets[j].c_expr for j in range(len(new_targets)))
                     and all(new_targets[j].name is None for j in range(len(c_targets), len(new_targets)))
                     and all(new_targets[j].is_aggregate is False for j in range(len(c_targets), len(new_targets)))
                     and all(allocated(new_targets[j]) for j in range(len(new_targets)))
                     and all(isinstance(group_indexes[j], int) for j in range(_i))
                     and all(0 <= group_indexes[j] < len(new_targets) for j in range(_i))
                     and all(len(aggs_of(new_targets[group_indexes[j]].c_expr)) == 0 for j in range(_i))
                     and inputs_unchanged('c_expr', 'name', 'is_aggregate'))}
    ensures = [
        ('one-group-key-per-clause', lambda group_by, result: len(result[1]) == len(group_by.columns)),
        ('every-key-addresses-a-non-aggregate-target-of-the-extended-list', lambda c_targets, result:
            all(0 <= result[1][j] < len(c_targets) + len(result[0]) for j in range(len(result[1])))),
        ('having-iff-written-and-it-is-the-last-hidden-target', lambda group_by, c_targets, result:
            (result[2] is None) == (group_by.having is None)
            and (group_by.having is None or (result[2] == len(c_targets) + len(result[0]) - 1
                                             and result[0][len(result[0]) - 1].c_expr == compiled_of(group_by.having)
                                             and len(aggs_of(compiled_of(group_by.having))) > 0 and len(cols_of(compiled_of(group_by.having))) == 0))),
        ('added-targets-are-hidden', lambda result: all(result[0][j].name is None for j in range(len(result[0])))),
        ('selected-targets-untouched', lambda: inputs_unchanged('c_expr', 'name', 'is_aggregate')),
    ]


@contract(f'{CP}:Compiler._compile_group_by', 'implicit')
class compile_group_by_implicit:
    """no GROUP BY clause: the query aggregates iff some target is an aggregate; then the non-aggregate targets are the (implicit)
    group keys, in target order; nothing is appended and there is no HAVING"""
    props = ['C02', 'C05', 'C07']
    params = {'self': COMPILER, 'group_by': NoneS(), 'c_targets': CTARGETS}
    globals = {'SUPPORT_IMPLICIT_GROUPBY': Const(True)}
    callees = CALLEES
    modifies = []
    native = False
    assumes = ['ATTRS_PRESENT']
    raises = {'CompilationError': lambda: False}
    ensures = [
        ('nothing-appended-no-having', lambda result: len(result[0]) == 0 and result[2] is None),
        ('not-an-aggregate-query-iff-no-target-aggregates', lambda c_targets, result:
            (result[1] is None) == (not any(c_target.is_aggregate for c_target in c_targets))),
        ('implicit-keys-are-the-non-aggregate-targets-in-order', lambda c_targets, result:
            result[1] is None or result[1] == [index for index, c_target in enumerate(c_targets) if not c_target.is_aggregate]),
    ]
