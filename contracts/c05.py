"""C05 / C07 / C15 - the compiler's static validation, function by function.  Each rule of the property is the
raises-condition of one function: a CompilationError is raised exactly when the rule is violated, nothing else escapes,
and on acceptance the returned indexes / names satisfy the range and naming postconditions the executor relies on."""
from pyvc.spec import *

CP = 'beanquery.compiler'
NAME = Opaque('name', natives=['a', 'b', 'zz'])      # identifiers are only compared for equality: an opaque sort keeps the string solver out of the queries
COLNODE = Rec('Column', attrs=dict(name=NAME), isa='beanquery.parser.ast:Column',
              native=lambda a: __import__('beanquery.parser.ast', fromlist=['x']).Column(a['name']))
TARGET = Rec('EvalTarget', attrs=dict(name=Opt(NAME), c_expr=Opaque('node'), is_aggregate=Bool()),
             native=lambda a: __import__('beanquery.query_compile', fromlist=['x']).EvalTarget(a['c_expr'], a['name'], a['is_aggregate']))
COMPILER = Obj(f'{CP}:Compiler', fields=dict(table=Opaque('table'), context=Opaque('conn'), parameters=Dyn(), depth=Int(0), subquery=Bool()))


# ---- get_target_name (C07): alias, else column name, else the exact source text -------------------------------------
ATARGET = Rec('Target', attrs=dict(name=Opt(Str(['x'])), expression=Opaque('expr')))


@contract(f'{CP}:get_target_name')
class target_name:
    props = ['C07', 'C05']
    params = {'target': ATARGET}
    native = False
    assumes = ['ATTRS_PRESENT', 'METHODS_PRESENT', 'Node.text is the slice of the statement text delimited by the parse positions (bounded evidence: h06/h07)']
    ensures = [('alias-else-column-name-else-source-text', lambda target, result:
                result == (target.name if target.name is not None
                           else (target.expression.name if isinstance(target.expression, ext('beanquery.parser.ast.Column')) else target.expression.text.strip())))]


# ---- PIVOT BY (C15, C05) ---------------------------------------------------------------------------------------------
PIVOT = Obj('beanquery.parser.ast:PivotBy', fields=dict(columns=Fixed([Union(Int(), COLNODE), Union(Int(), COLNODE)], kind='list')),
            native=lambda f: __import__('beanquery.parser.ast', fromlist=['x']).PivotBy(f['columns']))


@spec
def nselected(targets):
    """number of selected targets (the ones with a name; targets added by GROUP BY / ORDER BY / HAVING have none)"""
    return sum(1 for target in targets if target.name is not None)


@spec
def resolves(column, targets, index):
    """index is what the reference `column` denotes: a 1-based position among the selected targets, or the name of a selected target"""
    return (0 <= index < len(targets)) and ((index == column - 1 and index < nselected(targets)) if isinstance(column, int)
                                            else (targets[index].name is not None and targets[index].name == column.name))


@spec
def resolved(column, targets):
    """what a reference denotes: position - 1, or the index of the (last) target carrying the name; None if there is none"""
    if isinstance(column, int):
        return column - 1 if 1 <= column <= nselected(targets) else None
    return {target.name: index for index, target in enumerate(targets)}.get(column.name)


@spec
def pivot_rejected(pivot_by, targets, group_indexes):
    """the statement's rule: the query does not aggregate, a reference is unknown / out of range, both coincide, or the second is not grouped"""
    r0 = resolved(pivot_by.columns[0], targets)
    r1 = resolved(pivot_by.columns[1], targets)
    return group_indexes is None or r0 is None or r1 is None or r0 == r1 or r1 not in group_indexes


@contract(f'{CP}:Compiler._compile_pivot_by')
class compile_pivot_by:
    props = ['C15', 'C05']
    params = {'self': COMPILER, 'pivot_by': PIVOT, 'targets': ListOf(TARGET, maxlen=3), 'group_indexes': Opt(ListOf(Int(0, 3), maxlen=3))}
    modifies = []
    assumes = ['ATTRS_PRESENT']
    raises = {'CompilationError': lambda old: pivot_rejected(old.pivot_by, old.targets, old.group_indexes)}
    ensures = [
        ('both-references-resolve-to-selected-targets', lambda pivot_by, targets, result:
            len(result) == 2 and resolves(pivot_by.columns[0], targets, result[0]) and resolves(pivot_by.columns[1], targets, result[1])),
        ('distinct-and-second-is-grouped', lambda group_indexes, result: result[0] != result[1] and group_indexes is not None and result[1] in group_indexes),
        ('accepted-only-when-the-rule-holds', lambda pivot_by, targets, group_indexes: not pivot_rejected(pivot_by, targets, group_indexes)),
    ]


@contract(f'{CP}:Compiler._compile_pivot_by', 'none')
class compile_pivot_by_none:
    props = ['C15', 'C05']
    params = {'self': COMPILER, 'pivot_by': NoneS(), 'targets': ListOf(TARGET, maxlen=2), 'group_indexes': Opt(ListOf(Int(0, 3), maxlen=2))}
    modifies = []
    native = False
    ensures = [('no-pivot', lambda result: result is None)]
