"""C16 - rendering: the two-phase column renderers.

T1: the width protocol that "no value is truncated" and "decimals are aligned on the decimal point" rest on:
update() only ever widens, and after update(v) the accumulated dimensions cover v (fits); prepare() fixes the width
from the accumulated dimensions and marks the renderer prepared; width cannot be read before prepare().
For decimals the dimensions are the widest integral part (sign included) and the longest fractional part, so that
the left padding computed by format() is never negative for a value that was fed to update().
The layout of whole tables (render_rows, render_text, render_csv) and the amount / position / inventory renderers
that delegate to Beancount's DisplayContext are bounded only (harness h16).
"""
from pyvc.spec import *

QR = 'beanquery.query_render'
BASE = dict(maxwidth=Int(0), prepared=Bool())


def renderer(cls, **extra):
    return Obj(f'{QR}:{cls}', fields=dict(BASE, **extra))


# ---- base protocol -----------------------------------------------------------------------------------------
@contract(f'{QR}:ColumnRenderer.prepare')
class prepare_base:
    props = ['C16']
    params = {'self': renderer('ColumnRenderer')}
    modifies = ['self.prepared']
    ensures = [('marks-prepared-and-returns-the-accumulated-width', lambda self, result: self.prepared is True and result == self.maxwidth)]


@contract(f'{QR}:ColumnRenderer.width')
class width_base:
    props = ['C16']
    params = {'self': renderer('ColumnRenderer')}
    modifies = []
    raises = {'RuntimeError': lambda self: not self.prepared}
    ensures = [('only-after-prepare', lambda self, result: self.prepared and result == self.maxwidth)]


# ---- renderers whose cell is str(value) ------------------------------------------------------------------------
def _object_update(cls):
    @contract(f'{QR}:ObjectRenderer.update', cls)
    class _c:
        pass
    _c.props = ['C16']
    _c.params = {'self': renderer(cls), 'value': Dyn()}
    _c.modifies = ['self.maxwidth']
    _c.ensures = [('widens-to-cover-the-cell', lambda old, self, value: self.maxwidth == max(old.self.maxwidth, len(str(value)))),
                  ('never-narrows', lambda old, self: self.maxwidth >= old.self.maxwidth)]
    return _c


for _cls in ('ObjectRenderer', 'StringRenderer', 'IntRenderer', 'DictRenderer'):
    _object_update(_cls)


@contract(f'{QR}:ObjectRenderer.format')
class object_format:
    props = ['C16']
    params = {'self': renderer('ObjectRenderer'), 'value': Dyn()}
    modifies = []
    ensures = [('the-cell-is-the-text-of-the-value', lambda value, result: result == str(value))]


# ---- booleans ----------------------------------------------------------------------------------------------------
@contract(f'{QR}:BoolRenderer.format')
class bool_format:
    props = ['C16']
    params = {'self': renderer('BoolRenderer'), 'value': Bool()}
    modifies = []
    ensures = [('TRUE-or-FALSE', lambda value, result: result == ('TRUE' if value else 'FALSE'))]


@contract(f'{QR}:BoolRenderer.update')
class bool_update:
    props = ['C16']
    params = {'self': renderer('BoolRenderer'), 'value': Bool()}
    modifies = ['self.maxwidth']
    ensures = [('covers-the-cell-it-will-format', lambda old, self, value: self.maxwidth == max(old.self.maxwidth, len('TRUE' if value else 'FALSE'))),
               ('never-narrows', lambda old, self: self.maxwidth >= old.self.maxwidth)]


# ---- dates ---------------------------------------------------------------------------------------------------------
@contract(f'{QR}:DateRenderer.update')
class date_update:
    props = ['C16']
    params = {'self': renderer('DateRenderer'), 'value': DateS()}
    modifies = ['self.maxwidth']
    ensures = [('ten-columns-for-an-ISO-date', lambda self: self.maxwidth == len('YYYY-MM-DD'))]


# ---- decimals ------------------------------------------------------------------------------------------------------
DTUPLE = Rec('DecimalTuple', attrs=dict(sign=Int(0, 1), digits=ListOf(Int(0, 9), kind='tuple'), exponent=Int()))
DECIMAL = renderer('DecimalRenderer', nintegral=Int(0), nfractional=Int(0))


@spec
def intwidth(n):
    """columns before the decimal point of a decimal in positional notation: at least one digit, plus the sign"""
    return max(1, len(n.digits) + n.exponent) + n.sign


@spec
def fits(r, n):
    """the accumulated dimensions of renderer r cover the decimal with tuple n (positional notation)"""
    return r.nintegral >= intwidth(n) and r.nfractional >= -n.exponent


@contract(f'{QR}:DecimalRenderer.update', 'positional')
class decimal_update:
    props = ['C16']
    params = {'self': DECIMAL, 'value': DecS()}
    method_results = {'as_tuple': DTUPLE}
    requires = lambda value: value.as_tuple().exponent <= 0
    modifies = ['self.nintegral', 'self.nfractional']
    assumes = ['Decimal.as_tuple() is a pure function of the value returning (sign in {0,1}, digits, exponent)']
    ensures = [('covers-the-value', lambda self, value: fits(self, value.as_tuple())),
               ('dimensions-are-running-maxima', lambda old, self, value:
                   self.nintegral == max(old.self.nintegral, intwidth(value.as_tuple())) and self.nfractional == max(old.self.nfractional, -value.as_tuple().exponent)),
               ('never-narrows', lambda old, self: self.nintegral >= old.self.nintegral and self.nfractional >= old.self.nfractional)]


@contract(f'{QR}:DecimalRenderer.prepare')
class decimal_prepare:
    props = ['C16']
    params = {'self': DECIMAL}
    modifies = ['self.maxwidth', 'self.prepared']
    ensures = [('width-is-integral-point-fractional', lambda self, result:
                   result == self.maxwidth and self.maxwidth == self.nintegral + self.nfractional + (1 if self.nfractional > 0 else 0)),
               ('marks-prepared', lambda self: self.prepared is True)]
