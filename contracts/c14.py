"""C14 - BALANCES / JOURNAL / PRINT equal their SELECT expansions.

T1: the two rewriting functions build their Select from the statement and from nothing else:
the FROM (and, for BALANCES, the WHERE) clause of the statement is passed through as the very
same AST, the JOURNAL account pattern becomes a regular-expression match of the account column
against a *constant* (never text spliced into a query), every clause the statement cannot
express (PIVOT BY, LIMIT, DISTINCT, and GROUP BY / ORDER BY for JOURNAL) is absent, and the
targets / grouping / ordering come from parsing a text that depends on the summary function
only.  What that text selects is decided on bounded scopes by harness/h14.py (results equal the
hand-written SELECT expansions on the ledgers of harness/ledger.py).
"""
from pyvc.spec import *

QC = 'beanquery.compiler'
PARSE = {'beanquery.parser.parse': 1}
AST = 'beanquery.parser.ast'
CTORS = {'Select': AST, 'Match': AST, 'Column': AST, 'Constant': AST}   # field names are read from ast.py on every run

JOURNAL = Rec('journal', attrs=dict(account=Opt(Str()), summary_func=Opt(Str()), from_clause=Dyn()))
BALANCES = Rec('balances', attrs=dict(summary_func=Opt(Str()), from_clause=Dyn(), where_clause=Dyn()))


@contract(f'{QC}:transform_journal')
class transform_journal:
    props = ['C14', 'C13']       # C13: every qualifier of the statement's FROM clause reaches the SELECT (the clause is the same node)
    params = {'journal': JOURNAL}
    modifies = []
    externals = PARSE
    pure_ctors = CTORS
    native = False
    assumes = ['ATTRS_PRESENT', 'beanquery.parser.parse is a pure function of its text (TatSu; round trip decided on bounded scopes in h06)']
    ensures = [
        ('from-clause-passed-through', lambda journal, result: result.from_clause == journal.from_clause),
        ('account-pattern-is-a-constant-operand-of-a-regex-match-on-the-account-column', lambda journal, result:
            result.where_clause == (Match(Column('account'), Constant(journal.account)) if journal.account else None)),
        ('no-other-clauses', lambda result: result.group_by is None and result.order_by is None and result.pivot_by is None
            and result.limit is None and result.distinct is None),
    ]


@contract(f'{QC}:transform_balances')
class transform_balances:
    props = ['C14', 'C13']
    params = {'balances': BALANCES}
    modifies = []
    externals = PARSE
    pure_ctors = CTORS
    native = False
    assumes = ['ATTRS_PRESENT', 'beanquery.parser.parse is a pure function of its text (TatSu; round trip decided on bounded scopes in h06)']
    ensures = [
        ('from-and-where-passed-through', lambda balances, result: result.from_clause == balances.from_clause and result.where_clause == balances.where_clause),
        ('no-pivot-limit-distinct', lambda result: result.pivot_by is None and result.limit is None and result.distinct is None),
    ]


# ---- the statement handlers of the compiler: PRINT reads the entries table under its own FROM clause; BALANCES / JOURNAL compile to
# ---- exactly what their SELECT expansions compile to (C14 at the level of compiled statements) --------------------------------------------
from contracts.c05 import CP, compiled_of
from contracts.c13 import TCOMPILER
from contracts.c07 import from_of


@spec(uninterpreted=True, sig=(['val', 'val'], 'val'))
def table_after_from(table, node):
    """the table a statement reads after its FROM clause was applied to the current table (Compiler._compile_from: own contracts in c13.py)"""
    raise NotImplementedError


class _from_summary:
    """summary of the three contracts of _compile_from: the statement's table is a function of the current table and the clause,
    the result is the row filter of the clause"""
    kind = 'assumed'
    params = {'self': TCOMPILER, 'node': Dyn()}
    result = Dyn(('none', 'obj'))
    modifies = ['self.table']
    raises = {'CompilationError': None}
    ensures = [('row-filter', lambda node, result: result == from_of(node)),
               ('table', lambda old, self, node: self.table == table_after_from(old.self.table, node))]


@contract(f'{CP}:Compiler._print')
class print_statement:
    props = ['C14', 'C13']
    params = {'self': TCOMPILER, 'node': Rec('Print', attrs=dict(from_clause=Dyn()))}
    callees = {f'{CP}:Compiler._compile_from': Contract(f'{CP}:Compiler._compile_from', _from_summary, 'print')}
    opaque_ctors = {'EvalPrint': ['table', 'where']}
    modifies = ['self.table', 'fields:table', 'fields:where']
    native = False
    assumes = ['ATTRS_PRESENT', 'METHODS_PRESENT', '_compile_from as summarised from its own contracts', 'the table registry is a mapping: tables.get(name) is a pure lookup']
    raises = {'CompilationError': None}
    ensures = [
        ('prints-the-entries-table-of-the-connection-under-the-statements-from-clause', lambda self, node, result:
            result.table == table_after_from(self.context.tables.get('entries'), node.from_clause)),
        ('filtered-by-the-from-expression', lambda node, result: result.where == from_of(node.from_clause)),
    ]


@spec(uninterpreted=True, sig=(['val'], 'val'))
def balances_expansion(node):
    raise NotImplementedError


@spec(uninterpreted=True, sig=(['val'], 'val'))
def journal_expansion(node):
    raise NotImplementedError


class _tb_assumed:
    """transform_balances: a deterministic function of the statement (its own contract: c14.py)"""
    kind = 'assumed'
    params = {'balances': Dyn()}
    result = Dyn(('obj',))
    modifies = []
    ensures = [('deterministic', lambda balances, result: result == balances_expansion(balances))]


class _tj_assumed:
    kind = 'assumed'
    params = {'journal': Dyn()}
    result = Dyn(('obj',))
    modifies = []
    ensures = [('deterministic', lambda journal, result: result == journal_expansion(journal))]


from contracts.c09 import _callee_compile


@contract(f'{CP}:Compiler._balances')
class balances_statement:
    props = ['C14']
    params = {'self': TCOMPILER, 'node': Rec('Balances', attrs={})}
    callees = dict(_callee_compile('balances'), **{f'{CP}:transform_balances': Contract(f'{CP}:transform_balances', _tb_assumed, 'stmt')})
    modifies = []
    native = False
    assumes = ['ATTRS_PRESENT', '_compile as assumed (deterministic)']
    raises = {'CompilationError': None}
    ensures = [('compiles-to-what-its-select-expansion-compiles-to', lambda node, result: result == compiled_of(balances_expansion(node)))]


@contract(f'{CP}:Compiler._journal')
class journal_statement:
    props = ['C14']
    params = {'self': TCOMPILER, 'node': Rec('Journal', attrs={})}
    callees = dict(_callee_compile('journal'), **{f'{CP}:transform_journal': Contract(f'{CP}:transform_journal', _tj_assumed, 'stmt')})
    modifies = []
    native = False
    assumes = ['ATTRS_PRESENT', '_compile as assumed (deterministic)']
    raises = {'CompilationError': None}
    ensures = [('compiles-to-what-its-select-expansion-compiles-to', lambda node, result: result == compiled_of(journal_expansion(node)))]


# ---- execute_print: the directives handed to the Beancount printer are those of the rows whose FROM expression is absent or true
# ---- (truth value, as WHERE tests it), in table order: loop invariant against a recursive specification, and an obligation on the
# ---- arguments of the call of the external printer -----------------------------------------------------------------------------
QX = 'beanquery.query_execute'
ROW = Rec('row', attrs=dict(entry=Opaque('entry')))
TABLE = Rec('table', attrs=dict(options=Opaque('options')))
CPRINT = Rec('EvalPrint', attrs=dict(table=TABLE, where=Dyn(('none', 'obj'))))


@spec(rec=True, sig=(['seq', 'val', 'int'], 'seq'))
def selected(rows, where, n):
    """the directives of the first n rows whose FROM expression is absent or true (a truth value test, as WHERE does), in table order"""
    if n <= 0:
        return []
    row = rows[n - 1]
    if where is None or bool(ev(where, row)):
        return selected(rows, where, n - 1) + [row.entry]
    return selected(rows, where, n - 1)


@contract(f'{QX}:execute_print')
class execute_print:
    props = ['C14']
    params = {'c_print': CPRINT, 'file': Opaque('file')}
    externals = {'beancount.core.display_context.DisplayContext': 1, 'beancount.parser.printer.print_entries': 1}
    modifies = []
    native = False
    assumes = ['ATTRS_PRESENT', 'METHODS_PRESENT', 'PURE_CHILDREN', 'ITERABLE', 'the table is iterated as the sequence of its rows (table iteration: C11 / C13)',
               'Beancount printer and display context are external (C14 round trip: bounded, h14)']
    loops = {0: dict(inv=lambda c_print, entries, expr, _i: entries == selected(c_print.table, c_print.where, _i) and expr == c_print.where)}
    call_requires = {'beancount.parser.printer.print_entries': lambda c_print, file, args:
                     args[0] == selected(c_print.table, c_print.where, len(c_print.table))}
    ensures = [('returns-nothing', lambda result: result is None)]
