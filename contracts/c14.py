"""C14 - BALANCES / JOURNAL / PRINT equal their SELECT expansions.

T1: the two rewriting functions build their Select from the statement and from nothing else:
the FROM (and, for BALANCES, the WHERE) clause of the statement is passed through as the very
same AST, the JOURNAL account pattern becomes a regular-expression match of the account column
against a *constant* (never text spliced into a query), every clause the statement cannot
express (PIVOT BY, LIMIT, DISTINCT, and GROUP BY / ORDER BY for JOURNAL) is absent, and the
targets / grouping / ordering come from parsing a text that depends on the summary function
only.  What that text selects is decided on bounded scopes by harness/h14.py (results equal the
hand-written SELECT expansions on the ledgers of harness/ledger.py).
"""
from pyvc.spec import *

QC = 'beanquery.compiler'
PARSE = {'beanquery.parser.parse': 1}
AST = 'beanquery.parser.ast'
CTORS = {'Select': AST, 'Match': AST, 'Column': AST, 'Constant': AST}   # field names are read from ast.py on every run

JOURNAL = Rec('journal', attrs=dict(account=Opt(Str()), summary_func=Opt(Str()), from_clause=Dyn()))
BALANCES = Rec('balances', attrs=dict(summary_func=Opt(Str()), from_clause=Dyn(), where_clause=Dyn()))


@contract(f'{QC}:transform_journal')
class transform_journal:
    props = ['C14', 'C13']       # C13: every qualifier of the statement's FROM clause reaches the SELECT (the clause is the same node)
    params = {'journal': JOURNAL}
    modifies = []
    externals = PARSE
    pure_ctors = CTORS
    native = False
    assumes = ['ATTRS_PRESENT', 'beanquery.parser.parse is a pure function of its text (TatSu; round trip decided on bounded scopes in h06)']
    ensures = [
        ('from-clause-passed-through', lambda journal, result: result.from_clause == journal.from_clause),
        ('account-pattern-is-a-constant-operand-of-a-regex-match-on-the-account-column', lambda journal, result:
            result.where_clause == (Match(Column('account'), Constant(journal.account)) if journal.account else None)),
        ('no-other-clauses', lambda result: result.group_by is None and result.order_by is None and result.pivot_by is None
            and result.limit is None and result.distinct is None),
    ]


@contract(f'{QC}:transform_balances')
class transform_balances:
    props = ['C14', 'C13']
    params = {'balances': BALANCES}
    modifies = []
    externals = PARSE
    pure_ctors = CTORS
    native = False
    assumes = ['ATTRS_PRESENT', 'beanquery.parser.parse is a pure function of its text (TatSu; round trip decided on bounded scopes in h06)']
    ensures = [
        ('from-and-where-passed-through', lambda balances, result: result.from_clause == balances.from_clause and result.where_clause == balances.where_clause),
        ('no-pivot-limit-distinct', lambda result: result.pivot_by is None and result.limit is None and result.distinct is None),
    ]
