"""C13 - OPEN / CLOSE / CLEAR: what beanquery itself contributes (T1): the qualifiers are applied in the fixed
order OPEN, CLOSE, CLEAR, each iff its field is set, by a function that reads only (entries, options, open, close,
clear) and writes nothing; update() returns a copy and leaves the connection's table untouched.
Balance preservation itself is a theorem about beancount.ops.summarize (assumed; bounded evidence in h13)."""
from pyvc.spec import *

QE = 'beanquery.query_env'
CLOSE = Union(NoneS(), DateS(), Const(True))
TABLE = Obj(f'{QE}:BeanTable', fields=dict(entries=Opaque('entries'), options=Opaque('options'), open=Opt(DateS()), close=CLOSE, clear=Union(NoneS(), Const(True))), closed=True)
SUMMARIZE = {'beancount.ops.summarize.open_opt': 2, 'beancount.ops.summarize.close_opt': 2, 'beancount.ops.summarize.clear_opt': 2}


@contract(f'{QE}:BeanTable.update')
class table_update:
    props = ['C13', 'C09']
    params = {'self': TABLE, 'kwargs': KwArgs(dict(open=Opt(DateS()), close=CLOSE, clear=Union(NoneS(), Const(True))))}
    modifies = []                     # the receiver (the connection's table) is never written
    native = False
    ensures = [('returns-a-copy', lambda self, result: result is not self),
               ('qualifiers-replaced', lambda kwargs, result: result.open == kwargs['open'] and result.close == kwargs['close'] and result.clear == kwargs['clear']),
               ('data-shared-unchanged', lambda self, result: result.entries == self.entries and result.options == self.options)]


@contract(f'{QE}:BeanTable.prepare')
class table_prepare:
    props = ['C13', 'C09']
    params = {'self': TABLE}
    modifies = []                     # in particular no memo of the prepared entries is stored on the (shared, copied) table
    externals = SUMMARIZE
    native = False
    assumes = ['summarize.open_opt / close_opt / clear_opt are pure functions of their arguments (Beancount)']

    def _post(self, result):
        e0 = self.entries
        e1 = e0 if self.open is None else ext('beancount.ops.summarize.open_opt')(e0, self.open, self.options)[0]
        e2 = e1 if self.close is None else ext('beancount.ops.summarize.close_opt')(e1, None if self.close is True else self.close, self.options)[0]
        e3 = e2 if self.clear is None else ext('beancount.ops.summarize.clear_opt')(e2, None, self.options)[0]
        return result == e3
    ensures = [('open-then-close-then-clear-each-iff-set', _post)]
