"""C13 - OPEN / CLOSE / CLEAR: what beanquery itself contributes (T1): the qualifiers are applied in the fixed
order OPEN, CLOSE, CLEAR, each iff its field is set, by a function that reads only (entries, options, open, close,
clear) and writes nothing; update() returns a copy and leaves the connection's table untouched.
Balance preservation itself is a theorem about beancount.ops.summarize (assumed; bounded evidence in h13)."""
import datetime
from pyvc.spec import *

QE = 'beanquery.query_env'
CLOSE = Union(NoneS(), DateS(), Const(True))
TABLE = Obj(f'{QE}:BeanTable', fields=dict(entries=Opaque('entries'), options=Opaque('options'), open=Opt(DateS()), close=CLOSE, clear=Union(NoneS(), Const(True))), closed=True)
SUMMARIZE = {'beancount.ops.summarize.open_opt': 2, 'beancount.ops.summarize.close_opt': 2, 'beancount.ops.summarize.clear_opt': 2}


@contract(f'{QE}:BeanTable.update')
class table_update:
    props = ['C13', 'C09', 'C08']      # C08: a nested SELECT re-qualifies its own table; absent qualifiers are None, not inherited
    params = {'self': TABLE, 'kwargs': KwArgs(dict(open=Opt(DateS()), close=CLOSE, clear=Union(NoneS(), Const(True))))}
    modifies = []                     # the receiver (the connection's table) is never written
    native = False
    ensures = [('returns-a-copy', lambda self, result: result is not self),
               ('qualifiers-replaced', lambda kwargs, result: result.open == kwargs['open'] and result.close == kwargs['close'] and result.clear == kwargs['clear']),
               ('data-shared-unchanged', lambda self, result: result.entries == self.entries and result.options == self.options)]


@contract(f'{QE}:BeanTable.prepare')
class table_prepare:
    props = ['C13', 'C09']
    params = {'self': TABLE}
    modifies = []                     # in particular no memo of the prepared entries is stored on the (shared, copied) table
    externals = SUMMARIZE
    native = False
    assumes = ['summarize.open_opt / close_opt / clear_opt are pure functions of their arguments (Beancount)']

    def _post(self, result):
        e0 = self.entries
        e1 = e0 if self.open is None else ext('beancount.ops.summarize.open_opt')(e0, self.open, self.options)[0]
        e2 = e1 if self.close is None else ext('beancount.ops.summarize.close_opt')(e1, None if self.close is True else self.close, self.options)[0]
        e3 = e2 if self.clear is None else ext('beancount.ops.summarize.clear_opt')(e2, None, self.options)[0]
        return result == e3
    ensures = [('open-then-close-then-clear-each-iff-set', _post)]


# ---- the FROM clause selects and qualifies the table (C13, C05, C08) ------------------------------------------------------
CP = 'beanquery.compiler'
FCOMPILER = Obj(f'{CP}:Compiler', fields=dict(table=Opaque('table'), context=Opaque('conn'), parameters=Dyn(), depth=Int(0), subquery=Bool()))
FROM = Rec('From', attrs=dict(expression=Dyn(), open=Opt(DateS()), close=Union(NoneS(), DateS(), Const(True)), clear=Union(NoneS(), Const(True))),
           isa='beanquery.parser.ast:From')


@spec(uninterpreted=True, sig=(['val'], 'val'))
def compiled_expr(node):
    raise NotImplementedError


@spec(uninterpreted=True, sig=(['val'], 'seq'))
def aggregates_in(c_expr):
    raise NotImplementedError


class _compile_expr_assumed:
    kind = 'assumed'
    params = {'self': FCOMPILER, 'node': Dyn()}
    result = Dyn(('none', 'obj'))
    modifies = []
    raises = {'CompilationError': None}
    ensures = [('deterministic', lambda node, result: result == compiled_expr(node))]


class _is_aggregate_assumed13:
    kind = 'assumed'
    params = {'node': Opaque('node')}
    result = Bool()
    ensures = [('has-aggregates', lambda node, result: result == (len(aggregates_in(node)) > 0))]


FCALLEES = {f'{CP}:Compiler._compile': Contract(f'{CP}:Compiler._compile', _compile_expr_assumed, 'from'),
            f'{CP}:is_aggregate': Contract(f'{CP}:is_aggregate', _is_aggregate_assumed13, 'from')}


@contract(f'{CP}:Compiler._compile_from', 'from-expression')
class compile_from_expression:
    """FROM <expression> [OPEN ON d] [CLOSE [ON d]] [CLEAR]: the statement's table becomes the current table qualified with exactly the
    written qualifiers (absent ones as None), the row filter is the compiled expression; an OPEN date after the CLOSE date and an
    aggregate in the expression are rejected"""
    props = ['C13', 'C05']
    params = {'self': FCOMPILER, 'node': FROM}
    callees = FCALLEES
    method_results = {'update': Opaque('table')}
    modifies = ['self.table']
    native = False
    assumes = ['ATTRS_PRESENT', 'METHODS_PRESENT', 'Table.update is a pure function of the table and its keyword arguments (BeanTable.update: own contract above)']
    raises = {'CompilationError': None}
    ensures = [
        ('table-qualified-with-exactly-the-written-qualifiers', lambda old, self, node:
            self.table == old.self.table.update(open=node.open, close=node.close, clear=node.clear)),
        ('row-filter-is-the-compiled-expression', lambda node, result: result == compiled_expr(node.expression)),
        ('open-not-after-close', lambda node: node.open is None or not isinstance(node.close, datetime.date) or not (node.open > node.close)),
        ('no-aggregate-in-from', lambda node: compiled_expr(node.expression) is None or len(aggregates_in(compiled_expr(node.expression))) == 0),
    ]


@contract(f'{CP}:Compiler._compile_from', 'absent')
class compile_from_absent:
    props = ['C13', 'C05']
    params = {'self': FCOMPILER, 'node': NoneS()}
    callees = FCALLEES
    modifies = []
    native = False
    ensures = [('no-clause-no-filter-table-unchanged', lambda result: result is None)]


TCOMPILER = Obj(f'{CP}:Compiler', fields=dict(table=Opaque('table'), context=Rec('conn', attrs=dict(tables=Opaque('tables'))), parameters=Dyn(), depth=Int(0), subquery=Bool()))


@contract(f'{CP}:Compiler._compile_from', 'table')
class compile_from_table:
    """FROM #name: the statement's table is the connection's table of that name; an unknown name is rejected; there is no row filter"""
    props = ['C13', 'C05', 'C08']
    params = {'self': TCOMPILER, 'node': Rec('Table', attrs=dict(name=Opaque('name')), isa='beanquery.parser.ast:Table')}
    callees = FCALLEES
    modifies = ['self.table']
    native = False
    assumes = ['ATTRS_PRESENT', 'METHODS_PRESENT', 'the table registry is a mapping: tables.get(name) is a pure lookup']
    raises = {'CompilationError': lambda old, node: old.self.context.tables.get(node.name) is None}
    ensures = [('the-named-table-of-the-connection', lambda self, node: self.table == self.context.tables.get(node.name) and self.table is not None),
               ('no-row-filter', lambda result: result is None)]
