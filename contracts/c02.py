"""C02 - aggregation protocol: allocator, per-aggregator initialize/update/finalize, frames.

update maps slot `handle` to step(slot, val(operand, row)) and frames every other slot of the
store; initialize sets the type's zero / NULL; finalize publishes the slot."""
from pyvc.spec import *

QC = 'beanquery.query_compile'
QE = 'beanquery.query_env'
QX = 'beanquery.query_execute'
CTX = Opaque('ctx')
PURE = 'PURE_CHILDREN: evaluating the operand node neither raises nor writes'

ALLOC = Obj(f'{QX}:Allocator', fields=dict(size=Int(0)))


@contract(f'{QX}:Allocator.__init__')
class alloc_init:
    props = ['C02']
    params = {'self': Obj(f'{QX}:Allocator', fields={})}
    ensures = [('empty', lambda self: self.size == 0)]


@contract(f'{QX}:Allocator.allocate')
class alloc_allocate:
    props = ['C02']
    params = {'self': ALLOC}
    modifies = ['self.size']
    result = Int()
    modular = True
    ensures = [('fresh-handle-below-size', lambda old, self, result: result == old.self.size and self.size == old.self.size + 1)]


@contract(f'{QX}:Allocator.create_store')
class alloc_create_store:
    props = ['C02']
    params = {'self': ALLOC}
    modifies = []
    ensures = [('one-empty-slot-per-handle', lambda self, result:
                len(result) == self.size and all(result[j] is None for j in range(len(result))))]


def agg(cls, mod=QE, store=Dyn(), operand=None, **extra):
    f = dict(dtype=Callee(natives=[int]), operands=ListOf(operand or Child(), minlen=1, maxlen=1), handle=Int(0, 2), value=Dyn(), context=Opaque('conn'))
    f.update(extra)
    return Obj(f'{mod}:{cls}', fields=f)


@spec
def framed(store, old_store, h):
    return len(store) == len(old_store) and all(store[j] == old_store[j] for j in range(len(store)) if j != h)


@contract(f'{QC}:EvalAggregator.allocate')
class agg_allocate:
    props = ['C02']
    params = {'self': agg('EvalAggregator', QC), 'allocator': ALLOC}
    modifies = ['self.handle', 'allocator.size']
    ensures = [('handle-is-fresh-slot', lambda old, self, allocator: self.handle == old.allocator.size and allocator.size == old.allocator.size + 1)]


@contract(f'{QC}:EvalAggregator.initialize')
class agg_initialize:
    props = ['C02', 'C12']
    params = {'self': agg('EvalAggregator', QC), 'store': ListOf(Dyn(), maxlen=3)}
    requires = lambda self, store: self.handle < len(store)
    modifies = ['self.value']
    ensures = [('slot-is-zero-of-type', lambda self, store: store[self.handle] == self.dtype()),
               ('value-reset', lambda self: self.value is None),
               ('other-slots-framed', lambda old, self, store: framed(store, old.store, self.handle))]


@contract(f'{QC}:EvalAggregator.finalize')
class agg_finalize:
    props = ['C02']
    params = {'self': agg('EvalAggregator', QC), 'store': ListOf(Dyn(), maxlen=3)}
    requires = lambda self, store: self.handle < len(store)
    modifies = ['self.value']
    ensures = [('publishes-slot', lambda self, store: self.value == store[self.handle]),
               ('store-unchanged', lambda old, store: store == old.store)]


@contract(f'{QC}:EvalAggregator.__call__')
class agg_call:
    props = ['C02']
    params = {'self': agg('EvalAggregator', QC), 'context': Dyn()}
    modifies = []
    ensures = [('returns-finalized-value', lambda self, result: result == self.value)]


def _update(cls, label, storeelem, operand, post, init=None, props=('C02',)):
    @contract(f'{QE}:{cls}.update')
    class _c:
        pass
    _c.props = list(props)
    _c.assumes = [PURE]
    _c.params = {'self': agg(cls, operand=operand), 'store': ListOf(storeelem, maxlen=3), 'context': CTX}
    _c.requires = lambda self, store: self.handle < len(store)
    _c.modifies = []
    _c.ensures = [(label, post), ('other-slots-framed', lambda old, self, store: framed(store, old.store, self.handle))]
    if init:
        @contract(f'{QE}:{cls}.initialize')
        class _i:
            pass
        _i.props = list(props)
        _i.params = {'self': agg(cls), 'store': ListOf(Dyn(), maxlen=3)}
        _i.requires = lambda self, store: self.handle < len(store)
        _i.modifies = []
        _i.ensures = [('slot-starts-null', lambda self, store: store[self.handle] is None),
                      ('other-slots-framed', lambda old, self, store: framed(store, old.store, self.handle))]


INTS = Child(values=[None, 0, 1, 5, -2])
_update('Count', 'counts-every-row', Int(), None,
        lambda old, self, store: store[self.handle] == old.store[self.handle] + 1)
_update('CountArg', 'counts-non-null', Int(), None,
        lambda old, self, store, context: store[self.handle] == old.store[self.handle] + (0 if ev(self.operands[0], context) is None else 1))
_update('SumInt', 'adds-non-null', Dyn(('int',)), INTS,
        lambda old, self, store, context: store[self.handle] == (old.store[self.handle] if ev(self.operands[0], context) is None
                                                                  else old.store[self.handle] + ev(self.operands[0], context)))
_update('SumDecimal', 'adds-non-null', Dyn(('int',)), INTS,
        lambda old, self, store, context: store[self.handle] == (old.store[self.handle] if ev(self.operands[0], context) is None
                                                                  else old.store[self.handle] + ev(self.operands[0], context)))
_update('First', 'keeps-first-non-null', Dyn(('none', 'int')), INTS,
        lambda old, self, store, context: store[self.handle] == (ev(self.operands[0], context) if old.store[self.handle] is None
                                                                  else old.store[self.handle]), init=True)
_update('Last', 'keeps-last', Dyn(('none', 'int')), INTS,
        lambda old, self, store, context: store[self.handle] == ev(self.operands[0], context), init=True)


@spec
def min_step(cur, v):
    return cur if v is None else (v if cur is None or v < cur else cur)


@spec
def max_step(cur, v):
    return cur if v is None else (v if cur is None or v > cur else cur)


_update('Min', 'minimum-ignoring-null', Dyn(('none', 'int')), INTS,
        lambda old, self, store, context: store[self.handle] == min_step(old.store[self.handle], ev(self.operands[0], context)), init=True)
_update('Max', 'maximum-ignoring-null', Dyn(('none', 'int')), INTS,
        lambda old, self, store, context: store[self.handle] == max_step(old.store[self.handle], ev(self.operands[0], context)), init=True)
