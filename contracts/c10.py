"""C10 - cursor fetch protocol and description (DB-API).

Ghost state on the cursor: g_result = rows produced by the last execute (None before),
g_delivered = concatenation of everything handed out by fetch calls since.
Representation invariant I (cursor_inv): _rows is None <=> never executed; otherwise
g_result == g_delivered ++ _rows and _pos == len(g_delivered).  Every public method
requires I and ensures I: the induction over call histories is the invariant itself.
"""
from pyvc.spec import *

ROW = Opaque('row')

CURSOR = Obj('beanquery.cursor:Cursor',
             fields=dict(_context=Opaque('conn'), _description=Dyn(), _rows=Opt(ListOf(ROW)), _rowcount=Int(), _pos=Int(), arraysize=Int()),
             ghost=dict(g_result=Opt(ListOf(ROW)), g_delivered=ListOf(ROW)))


@spec
def cursor_inv(c):
    return ((c._rows is None) == (c.g_result is None)) and (
        c._rowcount == -1 if c._rows is None else
        (c.g_result == c.g_delivered + c._rows and c._pos == len(c.g_delivered) and c._rowcount == len(c.g_result)))


@spec
def exhausted(c):
    return c._rows is None or len(c._rows) == 0


@contract('beanquery.cursor:Cursor.__init__')
class cursor_init:
    props = ['C10']
    params = {'self': Obj('beanquery.cursor:Cursor', fields={}, ghost={}), 'connection': Opaque('conn')}

    def ghost(self):
        self.g_result = None
        self.g_delivered = []
    ensures = [('inv', lambda self: cursor_inv(self)),
               ('fresh-state', lambda self, connection: self._rows is None and self._description is None
                and self._pos == 0 and self.arraysize == 1 and self._context is connection and self._rowcount == -1)]


@contract('beanquery.cursor:Cursor.fetchone')
class fetchone:
    props = ['C10']
    params = {'self': CURSOR}
    requires = lambda self: cursor_inv(self)
    modifies = ['self._rows', 'self._pos']

    def ghost(old, self, result):
        self.g_delivered = old.self.g_delivered + ([] if result is None else [result])
    ensures = [
        ('inv', lambda self: cursor_inv(self)),
        ('none-iff-exhausted', lambda old, result: (result is None) == exhausted(old.self)),
        ('delivers-next-row', lambda old, result: result is None or result == old.self._rows[0]),
        ('rest-in-order', lambda old, self, result: result is None or self._rows == old.self._rows[1:]),
        ('rownumber-counts', lambda old, self, result: self._pos == old.self._pos + (0 if result is None else 1)),
    ]


@contract('beanquery.cursor:Cursor.fetchmany')
class fetchmany:
    props = ['C10']
    params = {'self': CURSOR, 'size': Opt(Int())}
    requires = lambda self: cursor_inv(self)
    modifies = ['self._rows', 'self._pos']

    def ghost(old, self, result):
        self.g_delivered = old.self.g_delivered + result
    ensures = [
        ('inv', lambda self: cursor_inv(self)),
        ('before-execute-empty', lambda old, result: implies(old.self._rows is None, len(result) == 0)),
        ('partition', lambda old, self, result: old.self._rows is None or result + self._rows == old.self._rows),
        ('count', lambda old, self, size, result:
            old.self._rows is None or (size if size is not None else old.self.arraysize) < 0
            or len(result) == min(size if size is not None else old.self.arraysize, len(old.self._rows))),
        ('empty-iff-exhausted', lambda old, size, result: implies(
            (size if size is not None else old.self.arraysize) >= 1, (len(result) == 0) == exhausted(old.self))),
        ('rownumber-counts', lambda old, self, result: self._pos == old.self._pos + len(result)),
    ]


@contract('beanquery.cursor:Cursor.fetchall')
class fetchall:
    props = ['C10']
    params = {'self': CURSOR}
    requires = lambda self: cursor_inv(self)
    modifies = ['self._rows', 'self._pos']

    def ghost(old, self, result):
        self.g_delivered = old.self.g_delivered + result
    ensures = [
        ('inv', lambda self: cursor_inv(self)),
        ('all-remaining', lambda old, result: result == ([] if old.self._rows is None else old.self._rows)),
        ('now-exhausted', lambda self: exhausted(self)),
        ('empty-iff-exhausted', lambda old, result: (len(result) == 0) == exhausted(old.self)),
        ('rownumber-counts', lambda old, self, result: self._pos == old.self._pos + len(result)),
    ]


@contract('beanquery.cursor:Cursor.rownumber')
class rownumber:
    props = ['C10']
    params = {'self': CURSOR}
    requires = lambda self: cursor_inv(self)
    modifies = []
    ensures = [('fetched-so-far', lambda self, result: self._rows is None or result == len(self.g_delivered))]


@contract('beanquery.cursor:Cursor.rowcount')
class rowcount:
    props = ['C10']
    params = {'self': CURSOR}
    requires = lambda self: cursor_inv(self)
    modifies = []
    ensures = [('rows-produced-by-last-execute', lambda self, result:
                result == (-1 if self.g_result is None else len(self.g_result)))]


@contract('beanquery.cursor:Cursor.description')
class description:
    props = ['C10']
    params = {'self': CURSOR}
    modifies = []
    ensures = [('is-field', lambda self, result: result == self._description)]


@contract('beanquery.cursor:Cursor.__iter__')
class cursor_iter:
    props = ['C10']
    params = {'self': CURSOR}
    requires = lambda self: cursor_inv(self)
    modifies = []
    ensures = [('iterates-remaining-rows', lambda self, result: list(result) == ([] if self._rows is None else self._rows))]


# assumed contracts of the callees of execute (not verified here; see C05/C09/C01 for their own obligations)
@contract('beanquery.parser:parse')
class parse_assumed:
    kind = 'assumed'
    params = {'text': Str()}
    result = Opaque('ast')
    raises = {'ParseError': None}


@contract('beanquery.compiler:compile')
class compile_assumed:
    kind = 'assumed'
    params = {'context': Opaque('conn'), 'statement': Opaque('ast'), 'parameters': Dyn()}
    result = Opaque('query')
    raises = {'ProgrammingError': None, 'TypeError': None}


@contract('beanquery.query_execute:execute_query')
class execute_query_assumed:
    kind = 'assumed'
    params = {'query': Opaque('query')}
    result = Fixed([Dyn(), ListOf(ROW)])
    raises = {'Exception': None}


@contract('beanquery.cursor:Cursor.execute')
class execute:
    props = ['C10', 'C09']
    params = {'self': CURSOR, 'query': Union(Str(), Opaque('ast')), 'params': Dyn()}
    requires = lambda self: cursor_inv(self)
    modifies = ['self._rows', 'self._pos', 'self._description', 'self._rowcount']
    raises = {'Exception': None}
    assumes = ['callee contracts of parse/compile/execute_query are assumed (result shapes, exception classes)']

    def ghost(self):
        self.g_result = self._rows
        self.g_delivered = []
    ensures = [
        ('inv', lambda self: cursor_inv(self)),
        ('reset', lambda self, result: self._pos == 0 and self._rows is not None and result is self),
    ]


# ---- Column ------------------------------------------------------------------------
COLUMN = Obj('beanquery.cursor:Column', fields=dict(_name=Dyn(('str', 'none')), _type=Opaque('type')))


@contract('beanquery.cursor:Column.__len__')
class column_len:
    props = ['C10']
    params = {'self': COLUMN}
    modifies = []
    ensures = [('seven', lambda result: result == 7)]


@contract('beanquery.cursor:Column.__getitem__', 'int')
class column_getitem_int:
    props = ['C10']
    params = {'self': COLUMN, 'key': Int()}
    modifies = []
    raises = {'IndexError': lambda key: key < -7 or key >= 7}
    ensures = [
        ('in-range', lambda key: -7 <= key < 7),
        ('item0-name', lambda self, key, result: implies(key == 0 or key == -7, result == self._name)),
        ('item1-type-code', lambda self, key, result: implies(key == 1 or key == -6, result == hash(self._type))),
        ('items2to6-none', lambda key, result: implies(2 <= key <= 6 or -5 <= key <= -1, result is None)),
    ]


@contract('beanquery.cursor:Column.__getitem__', 'slice')
class column_getitem_slice:
    props = ['C10']
    params = {'self': COLUMN, 'key': SliceS()}
    modifies = []
    ensures = [
        ('slice-of-seven', lambda self, key, result:
            result == (self._name, hash(self._type), None, None, None, None, None)[key.start:key.stop]),
    ]


@contract('beanquery.cursor:Column.__eq__', 'column')
class column_eq_column:
    props = ['C10']
    params = {'self': COLUMN, 'other': COLUMN}
    modifies = []
    ensures = [('eq-by-name-and-type', lambda self, other, result:
                result == (self._name == other._name and hash(self._type) == hash(other._type)))]


@contract('beanquery.cursor:Column.__eq__', 'tuple')
class column_eq_tuple:
    props = ['C10']
    params = {'self': COLUMN, 'other': Fixed([Dyn(('str', 'none')), Opaque('type')])}
    modifies = []
    ensures = [('eq-name-type-pair', lambda self, other, result:
                result == (self._name == other[0] and self._type == other[1]))]
