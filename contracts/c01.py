"""C01 - row-level evaluation: node classes, operator bodies, NULL-strict function wrapper.

val(n, ctx) is ev(n, ctx): the value of a compiled child node on a row, uninterpreted under
the assumption PURE_CHILDREN (evaluating a child neither raises nor writes).  Each node class
is proved to satisfy its local semantic equation for arbitrary child values; structural
induction over the expression tree is the (trusted, three-line) meta argument."""
from decimal import Decimal
from pyvc.spec import *

CTX = Opaque('ctx')
PURE = 'PURE_CHILDREN: evaluating a child node neither raises nor writes (each node class is verified under it)'
QC = 'beanquery.query_compile'


def node(cls, **fields):
    f = dict(dtype=Opaque('type'))
    f.update(fields)
    return Obj(f'{QC}:{cls}', fields=f)


@contract(f'{QC}:EvalConstant.__call__')
class eval_constant:
    props = ['C01', 'C09']
    params = {'self': node('EvalConstant', value=Dyn()), '_': CTX}
    modifies = []
    ensures = [('value', lambda self, result: result == self.value)]


@contract(f'{QC}:EvalUnaryOp.__call__')
class eval_unaryop:
    props = ['C01']
    assumes = [PURE]
    params = {'self': node('EvalUnaryOp', operand=Child(), operator=Callee()), 'context': CTX}
    modifies = []
    ensures = [('applies-operator-even-to-null', lambda self, context, result: result == self.operator(ev(self.operand, context)))]


@contract(f'{QC}:EvalUnaryOpSafe.__call__')
class eval_unaryop_safe:
    props = ['C01']
    assumes = [PURE]
    params = {'self': node('EvalUnaryOpSafe', operand=Child(), operator=Callee()), 'context': CTX}
    modifies = []

    def _post(self, context, result):
        v = ev(self.operand, context)
        return result == (None if v is None else self.operator(v))
    ensures = [('null-strict', _post)]


@contract(f'{QC}:EvalBinaryOp.__call__')
class eval_binaryop:
    props = ['C01']
    assumes = [PURE]
    params = {'self': node('EvalBinaryOp', left=Child(), right=Child(), operator=Callee()), 'context': CTX}
    modifies = []

    def _post(self, context, result):
        l = ev(self.left, context)
        r = ev(self.right, context)
        return result == (None if l is None or r is None else self.operator(l, r))
    ensures = [('null-strict-operands-in-order', _post)]


@contract(f'{QC}:EvalBetween.__call__')
class eval_between:
    props = ['C01']
    assumes = [PURE, 'COMPARABLE: non-NULL operands of one BETWEEN overload are mutually comparable (typed columns)']
    params = {'self': node('EvalBetween', operand=Child(values=[None, 0, 1, 5, -2]), lower=Child(values=[None, 0, 1, 5, -2]),
                            upper=Child(values=[None, 0, 1, 5, -2])), 'context': CTX}
    modifies = []

    def _post(self, context, result):
        x = ev(self.operand, context)
        lo = ev(self.lower, context)
        hi = ev(self.upper, context)
        return result == (None if x is None or lo is None or hi is None else lo <= x <= hi)
    ensures = [('null-strict-closed-interval', _post)]


@contract(f'{QC}:EvalAnd.__call__')
class eval_and:
    props = ['C01', 'C04']
    assumes = [PURE]
    params = {'self': node('EvalAnd', args=ListOf(Child())), 'context': CTX}
    modifies = []
    loops = {0: dict(inv=lambda self, context, _i: all(bool(ev(self.args[j], context)) for j in range(_i)))}

    def _post(self, context, result):
        n = len(self.args)
        return ((all(bool(ev(self.args[j], context)) for j in range(n)) and result is True)
                or any((not bool(ev(self.args[k], context)))
                       and all(bool(ev(self.args[j], context)) for j in range(k))
                       and result == (None if ev(self.args[k], context) is None else False)
                       for k in range(n)))
    ensures = [('stops-at-first-null-or-false', _post),
               # the node announces bool: the value is NULL or one of the two truth values themselves, never the (falsy) operand
               ('value-is-null-or-a-truth-value', lambda result: result is None or result is True or result is False)]


@contract(f'{QC}:EvalOr.__call__')
class eval_or:
    props = ['C01', 'C04']
    assumes = [PURE]
    params = {'self': node('EvalOr', args=ListOf(Child())), 'context': CTX}
    modifies = []
    loops = {0: dict(types={'r': Dyn(('none', 'bool'))},
                     inv=lambda self, context, r, _i:
                     (not any(bool(ev(self.args[j], context)) for j in range(_i)))
                     and r == (None if any(ev(self.args[j], context) is None for j in range(_i)) else False))}

    def _post(self, context, result):
        n = len(self.args)
        return result == (True if any(bool(ev(self.args[j], context)) for j in range(n))
                          else (None if any(ev(self.args[j], context) is None for j in range(n)) else False))
    ensures = [('true-if-any-true-else-null-if-any-null', _post),
               ('value-is-null-or-a-truth-value', lambda result: result is None or result is True or result is False)]


@contract(f'{QC}:EvalCoalesce.__call__')
class eval_coalesce:
    props = ['C01']
    assumes = [PURE]
    params = {'self': node('EvalCoalesce', args=ListOf(Child())), 'context': CTX}
    modifies = []
    loops = {0: dict(inv=lambda self, context, _i: all(ev(self.args[j], context) is None for j in range(_i)))}

    def _post(self, context, result):
        n = len(self.args)
        return ((all(ev(self.args[j], context) is None for j in range(n)) and result is None)
                or any(ev(self.args[k], context) is not None
                       and all(ev(self.args[j], context) is None for j in range(k))
                       and result == ev(self.args[k], context)
                       for k in range(n)))
    ensures = [('first-non-null', _post)]


@contract(f'{QC}:EvalGetItem.__call__')
class eval_getitem:
    props = ['C01', 'C11']
    assumes = [PURE, 'dict.get is a pure function of the mapping and the key']
    params = {'self': node('EvalGetItem', operand=Child(), key=Dyn(('str',))), 'context': CTX}
    modifies = []

    def _post(self, context, result):
        o = ev(self.operand, context)
        return result == (None if o is None else o.get(self.key))
    ensures = [('null-strict-mapping-lookup', _post)]
    native = False   # FakeNode values are not mappings; covered by harness h01/h11


@contract(f'{QC}:EvalGetter.__call__')
class eval_getter:
    props = ['C01', 'C11']
    assumes = [PURE]
    params = {'self': node('EvalGetter', operand=Child(), getter=Callee()), 'context': CTX}
    modifies = []

    def _post(self, context, result):
        o = ev(self.operand, context)
        return result == (None if o is None else self.getter(o))
    ensures = [('null-strict-getter', _post)]


# ---- operator bodies (one contract per operand-type overload of the registry) ---------------
def _binop(target, name, combos, post, props=('C01',), raises=None):
    for k, (a, b) in enumerate(combos):
        @contract(f'{QC}:{target}', f'{type(a).__name__},{type(b).__name__}')
        class _c:
            pass
        _c.props = list(props)
        _c.params = {'x': a, 'y': b}
        _c.ensures = [(name, post)]
        _c.raises = raises or {}


NUM4 = [(DecS(), DecS()), (DecS(), Int()), (Int(), DecS()), (Int(), Int())]
DIV3 = [(DecS(), DecS()), (DecS(), Int()), (Int(), DecS())]

_binop('mul_', 'product-in-order', NUM4, lambda x, y, result: result == x * y)
_binop('add_', 'sum-in-order', NUM4, lambda x, y, result: result == x + y)
_binop('sub_', 'difference-in-order', NUM4, lambda x, y, result: result == x - y)
_binop('div_', 'null-on-zero-else-quotient', DIV3, lambda x, y, result: result == (None if y == 0 else x / y))
_binop('mod_', 'null-on-zero-else-remainder', NUM4, lambda x, y, result: result == (None if y == 0 else x % y))


@contract(f'{QC}:div_int')
class div_int:
    props = ['C01']
    params = {'x': Int(), 'y': Int()}
    globals = {}
    ensures = [('int-division-is-decimal', lambda x, y, result: result == (None if y == 0 else Decimal(x) / y))]


@contract(f'{QC}:neg_', 'Int')
class neg_int:
    props = ['C01']
    params = {'x': Int()}
    ensures = [('negation', lambda x, result: result == -x)]


@contract(f'{QC}:neg_', 'DecS')
class neg_dec:
    props = ['C01']
    params = {'x': DecS()}
    ensures = [('negation', lambda x, result: result == -x)]


@contract(f'{QC}:null')
class is_null:
    props = ['C01']
    params = {'x': Dyn()}
    ensures = [('is-null', lambda x, result: result == (x is None))]


@contract(f'{QC}:not_null')
class is_not_null:
    props = ['C01']
    params = {'x': Dyn()}
    ensures = [('is-not-null', lambda x, result: result == (x is not None))]


@contract(f'{QC}:in_')
class in_op:
    props = ['C01', 'C08']
    params = {'x': Dyn(), 'y': ListOf(Dyn())}
    ensures = [('membership', lambda x, y, result: result == (x in y))]


@contract(f'{QC}:not_in_')
class not_in_op:
    props = ['C01', 'C08']
    params = {'x': Dyn(), 'y': ListOf(Dyn())}
    ensures = [('non-membership', lambda x, y, result: result == (x not in y))]


@contract(f'{QC}:add_date_int')
class add_date_int:
    props = ['C01', 'C18']
    params = {'x': DateS(), 'y': Int()}
    raises = {'OverflowError': lambda x, y: not (1 <= x.toordinal() + y <= 3652059)}
    ensures = [('date-plus-days', lambda x, y, result: result.toordinal() == x.toordinal() + y)]


@contract(f'{QC}:add_int_date')
class add_int_date:
    props = ['C01', 'C18']
    params = {'x': Int(), 'y': DateS()}
    raises = {'OverflowError': lambda x, y: not (1 <= y.toordinal() + x <= 3652059)}
    ensures = [('days-plus-date', lambda x, y, result: result.toordinal() == y.toordinal() + x)]


@contract(f'{QC}:sub_date_int')
class sub_date_int:
    props = ['C01', 'C18']
    params = {'x': DateS(), 'y': Int()}
    raises = {'OverflowError': lambda x, y: not (1 <= x.toordinal() - y <= 3652059)}
    ensures = [('date-minus-days', lambda x, y, result: result.toordinal() == x.toordinal() - y)]


@contract(f'{QC}:sub_date_date')
class sub_date_date:
    props = ['C01', 'C18']
    params = {'x': DateS(), 'y': DateS()}
    ensures = [('difference-in-days', lambda x, y, result: result == x.toordinal() - y.toordinal())]


# ---- NULL-strict wrapper of scalar functions ------------------------------------------------
def _func_native(func, pass_row, pass_context):
    def call(self, row):
        from beanquery import query_env
        f2 = query_env.function([], object, pass_row=pass_row, pass_context=pass_context, name='__verif_probe__')(func)
        from beanquery import query_compile
        cls = query_compile.FUNCTIONS['__verif_probe__'].pop()
        if not query_compile.FUNCTIONS['__verif_probe__']:
            del query_compile.FUNCTIONS['__verif_probe__']
        o = cls.__new__(cls)
        o.context = self.context
        o.operands = self.operands
        return cls.__call__(o, row)
    return call


FUNC_OBJ = Obj('beanquery.query_env:function.decorator.Func', fields=dict(operands=ListOf(Child()), context=Opaque('conn')),
               native=lambda vals: Record('Func', vals))

for _pr, _pc in ((False, False), (True, False), (False, True)):
    @contract('beanquery.query_env:function.decorator.Func.__call__', f'pass_row={_pr},pass_context={_pc}')
    class func_call:
        props = ['C01']
        assumes = [PURE, 'the wrapped function body is applied as an opaque pure function apply(func, args)']
        params = {'self': FUNC_OBJ, 'row': CTX}
        closure = {'func': Callee(natives=[lambda *a: ('applied',) + a]), 'pass_row': Const(_pr), 'pass_context': Const(_pc)}
        modifies = []
        loops = {0: dict(inv=lambda args, _i: all(args[j] is not None for j in range(_i)))}
        native = _func_native
    if _pr:
        func_call.ensures = [('null-strict-then-body(row, args)', lambda self, row, func, result:
                              result == (None if any(o(row) is None for o in self.operands) else func(row, *[o(row) for o in self.operands])))]
    elif _pc:
        func_call.ensures = [('null-strict-then-body(context, args)', lambda self, row, func, result:
                              result == (None if any(o(row) is None for o in self.operands) else func(self.context, *[o(row) for o in self.operands])))]
    else:
        func_call.ensures = [('null-strict-then-body(args)', lambda self, row, func, result:
                              result == (None if any(o(row) is None for o in self.operands) else func(*[o(row) for o in self.operands])))]


# ---- execute_select, non-aggregate and unordered behaviour: the row loop and the project -> DISTINCT -> LIMIT pipeline ----
QX = 'beanquery.query_execute'
XTARGET = Rec('EvalTarget', attrs=dict(name=Opt(Opaque('name')), c_expr=Child()))
XTABLE = Obj('beanquery.tables:Table', fields={}, ghost=dict(_seq=ListOf(CTX)))
XQUERY = Obj(f'{QC}:EvalQuery', fields=dict(table=XTABLE, c_targets=ListOf(XTARGET, maxlen=2), c_where=Opt(Child()), group_indexes=NoneS(), having_index=NoneS(),
                                            order_spec=NoneS(), limit=Opt(Int(0)), distinct=Bool()))
from contracts.c03 import uniq, mem      # noqa: E402  (the DISTINCT specification)


@spec(rec=True, sig=(['seq', 'val', 'seq', 'int'], 'seq'))
def rows_upto(seq, where, exprs, n):
    """the rows of the first n source rows: one row per source row whose condition is true (NULL and false exclude it),
    in source order, each row holding the value of every target expression on that source row"""
    if n <= 0:
        return []
    context = seq[n - 1]
    if where is None or bool(ev(where, context)):
        return rows_upto(seq, where, exprs, n - 1) + [[c_expr(context) for c_expr in exprs]]
    return rows_upto(seq, where, exprs, n - 1)


@contract(f'{QX}:execute_select', 'non-aggregate-unordered')
class execute_select_rows:
    props = ['C01', 'C03', 'C07']
    assumes = [PURE, 'ATTRS_PRESENT', 'the table iterator yields the ghost sequence _seq (table iterators: bounded evidence in h11)']
    params = {'query': XQUERY}
    pure_ctors = ['Column']
    modifies = []
    native = False
    note = 'aggregate queries (group loop) and ORDER BY (multi-pass sort) are outside this contract: bounded evidence in h02, h03'
    loops = {0: dict(inv=lambda query, rows, c_where, c_target_exprs, _i: rows == rows_upto(query.table._seq, c_where, c_target_exprs, _i))}

    def _rows(query, result):
        exprs = [c_target.c_expr for c_target in query.c_targets]
        base = rows_upto(query.table._seq, query.c_where, exprs, len(query.table._seq))
        visible = [index for index, c_target in enumerate(query.c_targets) if c_target.name]
        proj = list(tuple(row[i] for i in visible) for row in base)
        dist = uniq(proj, len(proj)) if query.distinct else proj
        return result[1] == (dist if query.limit is None else dist[:query.limit])
    ensures = [
        ('description-is-the-selected-targets-in-order', lambda query, result:
            result[0] == tuple(Column(target.name, target.c_expr.dtype) for target in query.c_targets if target.name is not None)),
        ('rows-filter-map-then-project-distinct-limit', _rows),
    ]
