"""C08 - subqueries compose.  T1: the compiler's current-table state is framed by every SELECT
(a nested SELECT must not change the table the enclosing statement resolves columns against),
SubqueryTable exposes one positional column per visible inner target, IN-subquery node caches
its value once.  Structural: no expression handler writes Compiler.table."""
import ast as _ast
from pyvc.spec import *

COMPILER = Obj('beanquery.compiler:Compiler', fields=dict(table=Opaque('table'), context=Opaque('conn'), parameters=Dyn(),
                                                           depth=Int(0), subquery=Bool()))


@contract('beanquery.compiler:Compiler._compile_select')
class compile_select_assumed:
    kind = 'assumed'
    params = {'self': COMPILER, 'node': Opaque('ast')}
    # the permission to be a subquery is consumed before the body of the SELECT is compiled: while the body is compiled a nested
    # SELECT is allowed only where _compile_subquery grants it again (proved at the call site in Compiler._select)
    requires = lambda self: self.subquery is False
    modifies = ['self.table']
    result = Opaque('query')
    raises = {'ProgrammingError': None, 'Exception': None}


@contract('beanquery.compiler:Compiler._select')
class select_frames_table:
    props = ['C08', 'C01']
    params = {'self': COMPILER, 'node': Opaque('ast')}
    modifies = ['self.parameters', 'self.subquery']   # i.e. self.table and self.depth are unchanged on normal AND exceptional exit
    raises = {'ProgrammingError': None, 'Exception': None}
    native = False
    assumes = ['_compile_select may set self.table and may raise (assumed callee contract; its own obligations are bounded, see h08)']
    ensures = [('table-restored', lambda old, self: self.table == old.self.table),
               ('nested-select-only-where-allowed', lambda old: old.self.depth == 0 or old.self.subquery),
               ('subquery-permission-consumed', lambda self: self.subquery is False)]


STRUCTURAL = []


def structural(prop, name):
    def deco(fn):
        STRUCTURAL.append((prop, name, fn))
        return fn
    return deco


@structural('C08', 'compiler-table-frame')
def compiler_table_frame(modinfo):
    """Every handler registered on Compiler._compile other than the statement-level ones leaves
    self.table alone: it neither assigns it nor calls (transitively, through self.<method>) a method
    that assigns it, except through _compile, whose SELECT handler is proved (T1) to restore it."""
    mod, cls, _ = modinfo.resolve('beanquery.compiler:Compiler')
    methods = {n.name: n for n in cls.body if isinstance(n, _ast.FunctionDef)}
    direct, calls, registered = {}, {}, set()
    for name, fn in methods.items():
        direct[name] = any(isinstance(t, _ast.Attribute) and isinstance(t.value, _ast.Name) and t.value.id == 'self' and t.attr == 'table'
                           for n in _ast.walk(fn) if isinstance(n, (_ast.Assign, _ast.AugAssign, _ast.AnnAssign))
                           for t in (n.targets if isinstance(n, _ast.Assign) else [n.target]))
        direct[name] = direct[name] or any(isinstance(n, _ast.Call) and isinstance(n.func, _ast.Name) and n.func.id == 'setattr' for n in _ast.walk(fn))
        calls[name] = {n.func.attr for n in _ast.walk(fn) if isinstance(n, _ast.Call) and isinstance(n.func, _ast.Attribute)
                       and isinstance(n.func.value, _ast.Name) and n.func.value.id == 'self'}
        for d in fn.decorator_list:
            src = _ast.unparse(d)
            if src.startswith('_compile.register'):
                registered.add(name)
    restoring = {'_select'}          # proved by the T1 contract above
    statement_level = {'_print'}     # may set the table: PRINT is never nested inside an expression (grammar)
    writes = {m: direct[m] for m in methods}
    changed = True
    while changed:
        changed = False
        for m in methods:
            if writes[m] or m in restoring:
                continue
            for callee in calls[m]:
                if callee == '_compile' or callee in restoring:
                    continue
                if callee in methods and writes[callee]:
                    writes[m] = True
                    changed = True
    out = []
    for m in sorted(registered - statement_level - restoring):
        out.append({'oid': f'beanquery.compiler:Compiler.{m}::frame-static:self.table unchanged', 'kind': 'frame', 'label': f'{m} leaves self.table unchanged',
                    'verdict': 'failed' if writes[m] else 'proved',
                    'detail': f'{m} assigns self.table or calls a method that does' if writes[m] else 'no write site reachable', 'lineno': methods[m].lineno})
    # the restoring handler must save/restore syntactically as well (belt and braces for the T1 proof)
    sel = methods.get('_select')
    has_finally = sel is not None and any(isinstance(n, _ast.Try) and n.finalbody for n in _ast.walk(sel))
    out.append({'oid': 'beanquery.compiler:Compiler._select::frame-static:restores table in finally', 'kind': 'frame', 'label': '_select restores self.table on every exit',
                'verdict': 'proved' if has_finally else 'failed', 'detail': 'try/finally present' if has_finally else 'no try/finally around the nested compilation',
                'lineno': getattr(sel, 'lineno', None)})
    return out


# ---- IN (subquery): value computed once per compiled statement, NULL when the subquery returns no row -------------
QC = 'beanquery.query_compile'
SUBQUERY = Obj(f'{QC}:EvalQuery', fields={}, ghost=dict(g_rows=ListOf(Dyn(('seq',)))))
MARKER = GlobalRef(f'{QC}:MARKER')


class _execute_query_rows:
    """assumed contract of execute_query for this caller: the rows are a function of the compiled query
    (ghost field g_rows); its own obligations are bounded (h01-h03, h08)"""
    kind = 'assumed'
    params = {'query': SUBQUERY}
    result = Fixed([Dyn(), ListOf(Dyn(('seq',)))])
    ensures = [('rows-of-the-query', lambda query, result: result[1] == query.g_rows)]


EXECUTE_QUERY_ROWS = Contract('beanquery.query_execute:execute_query', _execute_query_rows, 'rows')


@contract(f'{QC}:EvalConstantSubquery1D.__call__', 'first-evaluation')
class subquery1d_first:
    props = ['C08', 'C09']
    params = {'self': Obj(f'{QC}:EvalConstantSubquery1D', fields=dict(dtype=Opaque('type'), subquery=SUBQUERY, value=MARKER)), 'context': Opaque('ctx')}
    callees = {'beanquery.query_execute:execute_query': EXECUTE_QUERY_ROWS}
    modifies = ['self.value']
    native = False
    assumes = ['rows returned by execute_query are sequences with at least one cell (single-column check of _inop)']
    ensures = [('list-of-first-cells-or-null-when-empty', lambda self, result:
                result == (None if len(self.subquery.g_rows) == 0 else [r[0] for r in self.subquery.g_rows])),
               ('cached', lambda self, result: self.value == result)]


@contract(f'{QC}:EvalConstantSubquery1D.__call__', 'later-evaluations')
class subquery1d_cached:
    props = ['C08', 'C09']
    params = {'self': Obj(f'{QC}:EvalConstantSubquery1D', fields=dict(dtype=Opaque('type'), subquery=SUBQUERY, value=Opt(ListOf(Dyn())))), 'context': Opaque('ctx')}
    callees = {'beanquery.query_execute:execute_query': EXECUTE_QUERY_ROWS}
    modifies = []                    # in particular the subquery is not executed again (execute_query is not even reachable)
    native = False
    ensures = [('returns-the-cached-value', lambda old, self, result: result == old.self.value)]
