"""C11 - ledger tables: every column accessor of the postings and entries tables against the attribute that the
statement's naming rule designates (X -> attribute X of the posting, else of its units / cost for number, currency,
cost_*, else of the transaction; year/month/day -> date parts; NULL where the posting has no cost / no metadata /
the entry is not a transaction).  The postconditions are derived from the column NAME, not copied from the bodies.
Row iteration, description / other_accounts / balance and the typed tables are bounded only (harness h11, h12)."""
from pyvc.spec import *

QE = 'beanquery.query_env'
P = ['C11', 'C04']
AMOUNT = Rec('amount', attrs=dict(number=DecS(), currency=Str()))
COST = Rec('cost', attrs=dict(number=DecS(), currency=Str(), date=DateS(), label=Opt(Str())))
META = Opaque('meta')
POSTING = Rec('posting', attrs=dict(account=Str(), flag=Opt(Str()), units=AMOUNT, cost=Opt(COST), price=Opt(AMOUNT), meta=Opt(META)))
TXN = Rec('entry', attrs=dict(date=DateS(), flag=Opt(Str()), payee=Opt(Str()), narration=Opt(Str()), tags=Dyn(('seq', 'none')), links=Dyn(('seq', 'none')), meta=META))
ROW = Obj(f'{QE}:Row', fields=dict(entry=TXN, posting=POSTING, rowid=Int(0), balance=Opaque('inv'), balance_rowid=Int(0)))
EXT = {'beancount.core.compare.hash_entry': 1, 'beancount.core.convert.get_weight': 1, 'beancount.core.position.Position': 1}
ASSUME = ['Beancount data model: postings and directives are named tuples with the fields used here; Amount / Cost / directives are never falsy', 'ATTRS_PRESENT', 'METHODS_PRESENT']


def _col(target, label, post, props=P, assumes=ASSUME, externals=None):
    @contract(f'{QE}:{target}')
    class _c:
        pass
    _c.props = list(props)
    _c.params = {'context': ROW}
    _c.modifies = []
    _c.native = False       # evaluated natively on real ledgers by harness h11
    _c.assumes = list(assumes)
    _c.externals = externals or {}
    _c.ensures = [(label, post)]
    return _c


# ---- postings table (definitions that override the entries-table ones are the later ones: #1) -----------------
_col('account_', 'account-of-the-posting', lambda context, result: result == context.posting.account)
_col('posting_flag', 'flag-of-the-posting', lambda context, result: result == context.posting.flag)
_col('number', 'units-number', lambda context, result: result == context.posting.units.number)
_col('currency', 'units-currency', lambda context, result: result == context.posting.units.currency)
_col('cost_number', 'cost-number-or-null', lambda context, result: result == (None if context.posting.cost is None else context.posting.cost.number))
_col('cost_currency', 'cost-currency-or-null', lambda context, result: result == (None if context.posting.cost is None else context.posting.cost.currency))
_col('cost_date', 'cost-date-or-null', lambda context, result: result == (None if context.posting.cost is None else context.posting.cost.date))
_col('price', 'price-of-the-posting', lambda context, result: result == context.posting.price)
_col('meta#2', 'metadata-of-the-posting', lambda context, result: result == context.posting.meta)
_col('entry', 'the-transaction', lambda context, result: result == context.entry)
_col('flag#1', 'flag-of-the-transaction', lambda context, result: result == context.entry.flag)
_col('payee#1', 'payee-of-the-transaction', lambda context, result: result == context.entry.payee)
_col('narration#1', 'narration-of-the-transaction', lambda context, result: result == context.entry.narration)
_col('tags#1', 'tags-of-the-transaction', lambda context, result: result == context.entry.tags)
_col('links#1', 'links-of-the-transaction', lambda context, result: result == context.entry.links)
_col('filename#1', 'posting-filename-or-null-without-metadata', lambda context, result: result == (None if context.posting.meta is None else context.posting.meta['filename']))
_col('lineno#1', 'posting-lineno-or-null-without-metadata', lambda context, result: result == (None if context.posting.meta is None else context.posting.meta['lineno']))
_col('weight', 'balancing-weight', lambda context, result: result == ext('beancount.core.convert.get_weight')(context.posting), externals=EXT)

# ---- entries table (also inherited by the postings table for date / year / month / day / id / type) ---------------
_col('date', 'date-of-the-directive', lambda context, result: result == context.entry.date)
_col('year#1', 'year-of-the-date', lambda context, result: result == context.entry.date.year)
_col('month#1', 'month-of-the-date', lambda context, result: result == context.entry.date.month)
_col('day#1', 'day-of-the-date', lambda context, result: result == context.entry.date.day)
_col('id_', 'hash-of-the-directive', lambda context, result: result == ext('beancount.core.compare.hash_entry')(context.entry), externals=EXT)
_col('type_', 'lower-cased-class-name', lambda context, result: result == type(context.entry).__name__.lower())
_col('meta#1', 'metadata-of-the-directive', lambda context, result: result == context.entry.meta)
_col('filename#0', 'directive-filename', lambda context, result: result == context.entry.meta['filename'])
_col('lineno#0', 'directive-lineno', lambda context, result: result == context.entry.meta['lineno'])
for _n in ('flag', 'payee', 'narration', 'tags', 'links'):
    _col(f'{_n}#0', f'{_n}-of-a-transaction-else-null',
         {'flag': lambda context, result: result == (context.entry.flag if isinstance(context.entry, ext('beancount.core.data.Transaction')) else None),
          'payee': lambda context, result: result == (context.entry.payee if isinstance(context.entry, ext('beancount.core.data.Transaction')) else None),
          'narration': lambda context, result: result == (context.entry.narration if isinstance(context.entry, ext('beancount.core.data.Transaction')) else None),
          'tags': lambda context, result: result == (context.entry.tags if isinstance(context.entry, ext('beancount.core.data.Transaction')) else None),
          'links': lambda context, result: result == (context.entry.links if isinstance(context.entry, ext('beancount.core.data.Transaction')) else None)}[_n])
