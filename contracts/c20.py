"""C20 - thread isolation, decided by the classical sufficient condition as ownership / frame obligations:
an execution writes only to objects it allocated itself or that its cursor owns; everything reachable by two
executions is read-only after import.  Contracts cannot quantify over interleavings (no schedule exploration is
claimed as proof); harness h20 replays deterministic two-thread schedules as a bounded stand-in."""
import ast as _ast
from pyvc.spec import *

STRUCTURAL = []
MODULES = ['beanquery', 'beanquery.cursor', 'beanquery.compiler', 'beanquery.query_compile', 'beanquery.query_execute', 'beanquery.query_env',
           'beanquery.types', 'beanquery.tables', 'beanquery.parser', 'beanquery.parser.ast', 'beanquery.sources.beancount']
ENTRY = {('beanquery.cursor', 'Cursor.execute'), ('beanquery.cursor', 'Cursor.executemany'), ('beanquery', 'Connection.execute'), ('beanquery', 'Connection.compile'),
         ('beanquery', 'Connection.parse'), ('beanquery', 'Connection.cursor'), ('beanquery.cursor', 'Cursor.fetchone'), ('beanquery.cursor', 'Cursor.fetchmany'),
         ('beanquery.cursor', 'Cursor.fetchall')}
MUTATORS = {'append', 'extend', 'add', 'pop', 'sort', 'insert', 'remove', 'clear', 'update', 'setdefault', 'add_position', 'add_amount', 'add_inventory', 'popitem', 'discard', 'reverse'}
# protocol methods reached through dynamic dispatch (node(context), iteration, aggregation protocol)
DYNAMIC = {'__call__', '__iter__', 'update', 'initialize', 'finalize', 'allocate', '__eq__', '__hash__', '__init__', 'childnodes', 'prepare', 'wildcard_columns', 'columns', '__getitem__', 'walk', 'text'}
# classes whose instances are created afresh by every execution (or owned by one cursor): writes to self.* are owned writes
PER_EXECUTION = {'Compiler': 'one Compiler per compile() call', 'Row': 'one row context per table scan (created in __iter__)', 'Allocator': 'created per execute_select call',
                 'Cursor': 'a cursor is owned by the thread using it (DB-API level 2 shares modules and connections, not cursors)',
                 'EvalNode': 'compiled nodes are built afresh by every compilation', 'EvalAggregator': 'compiled per execution; aggregate state lives in the node and the per-execution store',
                 'EvalConstantSubquery1D': 'compiled per execution', 'SubqueryTable': 'built per compilation', 'EvalConstant': 'compiled per execution',
                 'ParseError': 'exception object', 'CompilationError': 'exception object', 'InvalidLiteral': 'exception object', 'BQLSemantics': 'one semantics object per parse() call',
                 'Column': 'description entries are created per execution', 'Func': 'compiled per execution', 'Op': 'compiled per execution'}
# Connections, tables and column objects are shared between executions (that is what thread safety level 2 means): a write to
# self.* in one of their methods is owned only while the object is under construction (__init__); connection set-up (attach)
# is listed in SETUP.  Everything else in these classes needs a hand-written justification.
# remaining sites, each justified by hand
JUSTIFIED = {
    ('beanquery.compiler:Compiler.compile', 'attr:placeholder.name'):
        'writes the positional index into the caller\'s parsed statement: idempotent (the value depends only on the statement), so concurrent compilations store the same value',
    ('beanquery.query_env:BeanTable.update', 'call:setattr'): 'setattr on the copy.copy(self) made two lines above: the connection table is never written',
    ('beanquery.query_env:balance', 'mut:context.balance.add_position'): 'context is the Row of the current scan (fresh per __iter__); guarded by balance_rowid so that other scans cannot interfere',
    ('beanquery.query_env:balance', 'attr:context.balance_rowid'): 'field of the per-scan Row',
    ('beanquery.query_execute:execute_query', 'mut:rows.sort'): 'rows is the list just returned by execute_select for this execution',
    ('beanquery.query_execute:execute_select', 'mut:c_expr.update'): 'aggregator protocol method (not dict.update): writes only store[handle], the per-execution store (T1 contracts in C02)',
}
# connection set-up and import-time code, not part of an execution
SETUP = {'beanquery.sources.beancount:attach': 'connection set-up', 'beanquery:Connection.attach': 'connection set-up', 'beanquery:Connection.__init__': 'connection set-up',
         'beanquery.query_env:BeanTable.column': 'import-time decorator (registers a column on the table class)',
         'beanquery.query_env:BeanTable.column.decorator': 'import-time decorator'}


def structural(prop, name):
    def deco(fn):
        STRUCTURAL.append((prop, name, fn))
        return fn
    return deco


def _functions(modinfo):
    """(module, qual) -> (FunctionDef, enclosing class name or None, ModInfo)"""
    out = {}
    for mname in MODULES:
        mod = modinfo.load(mname)
        if mod is None:
            continue

        def walk(body, prefix, cls):
            for st in body:
                if isinstance(st, _ast.FunctionDef):
                    out[(mname, prefix + st.name)] = (st, cls, mod)
                    walk(st.body, prefix + st.name + '.', cls)
                elif isinstance(st, _ast.ClassDef):
                    walk(st.body, prefix + st.name + '.', st.name)
                else:
                    for fld in ('body', 'orelse', 'finalbody'):
                        sub = getattr(st, fld, None)
                        if isinstance(sub, list):
                            walk([s for s in sub if isinstance(s, _ast.stmt)], prefix, cls)
        walk(mod.tree.body, '', None)
    return out


def _own_nodes(fn):
    """nodes of fn excluding nested function/class bodies"""
    todo = list(fn.body)
    while todo:
        n = todo.pop()
        yield n
        for ch in _ast.iter_child_nodes(n):
            if isinstance(ch, (_ast.FunctionDef, _ast.ClassDef, _ast.Lambda)):
                continue
            todo.append(ch)


def _called_names(fn):
    names = set()
    local = {t.id for n in _own_nodes(fn) if isinstance(n, (_ast.Assign, _ast.AugAssign, _ast.For)) for t0 in (n.targets if isinstance(n, _ast.Assign) else [n.target])
             for t in _ast.walk(t0) if isinstance(t, _ast.Name)}
    local |= {a.arg for a in fn.args.args}
    for n in _own_nodes(fn):
        if isinstance(n, _ast.Call):
            f = n.func
            if isinstance(f, _ast.Name):
                if f.id in local:
                    continue        # a local callable value (dynamic dispatch is covered by DYNAMIC)
                names.add(f.id)
            elif isinstance(f, _ast.Attribute):
                names.add(f.attr)
    return names


def _fresh_locals(fn):
    """locals bound to a constructor call / literal / comprehension / copy in this function"""
    fresh = set()
    for n in _own_nodes(fn):
        if isinstance(n, _ast.Assign) and len(n.targets) == 1 and isinstance(n.targets[0], _ast.Name):
            v = n.value
            if isinstance(v, (_ast.List, _ast.Dict, _ast.Set, _ast.ListComp, _ast.DictComp, _ast.SetComp, _ast.Tuple)):
                fresh.add(n.targets[0].id)
            elif isinstance(v, _ast.Call):
                f = v.func
                nm = f.id if isinstance(f, _ast.Name) else (f.attr if isinstance(f, _ast.Attribute) else '')
                if nm[:1].isupper() or nm in ('list', 'dict', 'set', 'copy', 'deepcopy', 'defaultdict', 'create_store', 'Counter', 'sorted', 'tuple'):
                    fresh.add(n.targets[0].id)
                elif isinstance(f, _ast.Attribute) and isinstance(f.value, _ast.Name) and f.value.id == 'self' and nm.startswith('_compile'):
                    fresh.add(n.targets[0].id)      # results of the compiler's own methods are built by this compilation
            elif isinstance(v, _ast.Subscript) and isinstance(v.slice, _ast.Slice):
                fresh.add(n.targets[0].id)
            elif isinstance(v, _ast.BinOp) and isinstance(v.left, (_ast.List, _ast.Tuple)):
                fresh.add(n.targets[0].id)
    return fresh


def _mutable_value(v):
    if isinstance(v, (_ast.List, _ast.Dict, _ast.Set, _ast.ListComp, _ast.DictComp, _ast.SetComp)):
        return True
    if isinstance(v, _ast.BinOp):
        return _mutable_value(v.left) or _mutable_value(v.right)
    if isinstance(v, _ast.Call):
        f = v.func
        nm = f.id if isinstance(f, _ast.Name) else (f.attr if isinstance(f, _ast.Attribute) else '')
        return nm in ('list', 'dict', 'set', 'defaultdict', 'OrderedDict', 'Counter', 'deque', 'Inventory', 'bytearray')
    return False


def _class_mutables(modinfo):
    """class name -> names bound in the class body to a mutable object (one object shared by every instance, at any nesting depth)"""
    out = {}
    for mname in MODULES:
        mod = modinfo.load(mname)
        if mod is None:
            continue
        for c in _ast.walk(mod.tree):
            if isinstance(c, _ast.ClassDef):
                for st in c.body:
                    tg = st.targets if isinstance(st, _ast.Assign) else ([st.target] if isinstance(st, _ast.AnnAssign) and st.value is not None else [])
                    if tg and _mutable_value(st.value):
                        for t in tg:
                            if isinstance(t, _ast.Name):
                                out.setdefault(c.name, set()).add(t.id)
                for st in c.body:
                    # an attribute the constructor binds on the instance shadows the class-level object
                    if isinstance(st, _ast.FunctionDef) and st.name in ('__init__', '__post_init__'):
                        for n in _ast.walk(st):
                            if isinstance(n, (_ast.Assign, _ast.AnnAssign)):
                                for t in (n.targets if isinstance(n, _ast.Assign) else [n.target]):
                                    if isinstance(t, _ast.Attribute) and isinstance(t.value, _ast.Name) and t.value.id == 'self':
                                        out.get(c.name, set()).discard(t.attr)
    return out


def _self_aliases(fn):
    """local name -> attribute X for locals bound (only) by `name = self.X`"""
    al, other = {}, set()
    for n in _own_nodes(fn):
        if isinstance(n, _ast.Assign):
            for t in n.targets:
                if isinstance(t, _ast.Name):
                    v = n.value
                    if isinstance(v, _ast.Attribute) and isinstance(v.value, _ast.Name) and v.value.id == 'self':
                        al[t.id] = v.attr
                    else:
                        other.add(t.id)
    return {k: v for k, v in al.items() if k not in other}


def analyse(modinfo):
    funcs = _functions(modinfo)
    cmut = _class_mutables(modinfo)
    byname = {}
    for (m, q), v in funcs.items():
        byname.setdefault(q.rsplit('.', 1)[-1], []).append((m, q))
    reach, todo = set(), [e for e in ENTRY if e in funcs]
    # registered callbacks (column accessors, BQL functions, operators) are invoked through the registries
    for key, (fn, cls, mod) in funcs.items():
        for d in fn.decorator_list:
            f = d.func if isinstance(d, _ast.Call) else d
            nm = f.id if isinstance(f, _ast.Name) else (f.attr if isinstance(f, _ast.Attribute) else '')
            if nm in ('column', 'function', 'register', 'aggregator', 'unaryop', 'binaryop'):
                todo.append(key)
            if nm in ('property', 'cached_property'):
                todo.append(key)        # reached by an attribute read, which the name-based call graph does not see
    dyn_added = False
    while todo:
        key = todo.pop()
        if key in reach:
            continue
        reach.add(key)
        fn, cls, mod = funcs[key]
        called = _called_names(fn)
        for nm in called:
            for k in byname.get(nm, []):
                if k not in reach:
                    todo.append(k)
            # class instantiation
            for k in byname.get('__init__', []):
                if k[1].rsplit('.', 2)[-2:-1] == [nm] and k not in reach:
                    todo.append(k)
        if not dyn_added:
            dyn_added = True
            for nm in DYNAMIC:
                for k in byname.get(nm, []):
                    todo.append(k)
    sites = []
    for key in sorted(reach):
        fn, cls, mod = funcs[key]
        qual = f'{key[0]}:{key[1]}'
        params = {a.arg for a in fn.args.args + fn.args.kwonlyargs} | ({fn.args.vararg.arg} if fn.args.vararg else set())
        fresh = _fresh_locals(fn)
        alias = _self_aliases(fn) if cls is not None else {}
        shared_attrs = cmut.get(cls, set()) if cls is not None else set()

        def class_level(expr):
            """the attribute of self the written object is reached through, when that attribute is bound to a mutable object in the
            class body (shared by all instances): directly (self.X[...] / self.X.m()) or through a local alias (a = self.X; a[...] = ...)"""
            b = expr
            while isinstance(b, (_ast.Attribute, _ast.Subscript)):
                if isinstance(b, _ast.Attribute) and isinstance(b.value, _ast.Name) and b.value.id == 'self':
                    return b.attr if b.attr in shared_attrs and b is not expr else None
                b = b.value
            if isinstance(b, _ast.Name) and b.id in alias and alias[b.id] in shared_attrs and b is not expr:
                return alias[b.id]
            return None
        for d in fn.decorator_list:
            src = _ast.unparse(d)
            if 'lru_cache' in src or src.startswith('cache') or 'functools.cache' in src:
                sites.append((qual, 'memo:' + src, fn.lineno, None))
        for n in _own_nodes(fn):
            if isinstance(n, (_ast.Global, _ast.Nonlocal)):
                sites.append((qual, 'global:' + ','.join(n.names), n.lineno, None))
            tgts = []
            if isinstance(n, _ast.Assign): tgts = n.targets
            elif isinstance(n, (_ast.AugAssign, _ast.AnnAssign)): tgts = [n.target]
            elif isinstance(n, _ast.Delete): tgts = n.targets
            for t in tgts:
                for x in (t.elts if isinstance(t, (_ast.Tuple, _ast.List)) else [t]):
                    base = x
                    kind = None
                    while isinstance(base, (_ast.Attribute, _ast.Subscript)):
                        kind = kind or ('attr' if isinstance(base, _ast.Attribute) else 'item')
                        base = base.value
                    if kind is None or not isinstance(base, _ast.Name):
                        continue
                    ca = class_level(x)
                    if ca is not None and key[1].rsplit('.', 1)[-1] not in ('__init__', '__post_init__'):
                        sites.append((qual, f'classattr:self.{ca}', n.lineno, None))
                        continue
                    sites.append((qual, f'{kind}:{_ast.unparse(x) if kind == "attr" else _ast.unparse(x.value)}', n.lineno, _classify(base.id, x, cls, params, fresh, key)))
            if isinstance(n, _ast.Call) and isinstance(n.func, _ast.Attribute) and n.func.attr in MUTATORS:
                base = n.func.value
                while isinstance(base, (_ast.Attribute, _ast.Subscript)):
                    base = base.value
                if isinstance(base, _ast.Name):
                    ca = class_level(n.func)
                    if ca is not None and key[1].rsplit('.', 1)[-1] not in ('__init__', '__post_init__'):
                        sites.append((qual, f'classattr:self.{ca}', n.lineno, None))
                    elif base.id in alias and base.id not in fresh and isinstance(n.func.value, _ast.Name):
                        # `x = self.attr; x.sort()`: the object mutated is the one the instance holds
                        sites.append((qual, f'mut:self.{alias[base.id]}.{n.func.attr}', n.lineno, _classify('self', n.func.value, cls, params, fresh, key)))
                    else:
                        sites.append((qual, f'mut:{_ast.unparse(n.func)}', n.lineno, _classify(base.id, n.func.value, cls, params, fresh, key)))
            if isinstance(n, _ast.Call) and isinstance(n.func, _ast.Name) and n.func.id == 'setattr':
                sites.append((qual, 'call:setattr', n.lineno, None))
    return reach, sites


def _classify(base, node, cls, params, fresh, key):
    """-> justification string or None (needs a hand-written justification)"""
    if base in fresh:
        return 'local-fresh'
    if base in ('self', 'cls') and cls is not None:
        if base == 'cls':
            return None
        if key is not None and str(key[1]).split('.')[-1] in ('__init__', '__post_init__'):
            return f'self-of-{cls} under construction: the object is not shared before its constructor returns'
        if cls in PER_EXECUTION:
            return f'self-of-{cls}: {PER_EXECUTION[cls]}'
        if cls.startswith('Eval'):
            return f'self-of-{cls}: compiled nodes are built afresh by every compilation'
        return None
    if base in params:
        # parameters that receive objects owned by the running execution
        if base in ('store', 'columns', 'aggregates', 'allocator', 'out', 'file', 'res', 'rows'):
            return 'param-owned: accumulator / store created by the calling execution'
        return None
    if base not in params and base != 'self':
        # a local that is not provably fresh, or a module global
        return None
    return None


@structural('C20', 'write-sites')
def write_sites(modinfo):
    reach, sites = analyse(modinfo)
    out = []
    seen = set()
    for qual, what, lineno, why in sites:
        j = why or JUSTIFIED.get((qual, what)) or SETUP.get(qual)
        oid = f'{qual}::ownership:{what}'
        if oid in seen:
            continue
        seen.add(oid)
        out.append({'oid': oid, 'kind': 'frame', 'label': f'write site {what} is owned by the execution', 'verdict': 'proved' if j else 'failed',
                    'detail': j or 'write to state that may be shared between executions (no ownership justification)', 'lineno': lineno})
    # ambient per-thread / per-process state (decimal context, locale, recursion limit): an execution neither sets it nor relies on
    # the importing thread having set it
    for mname in MODULES:
        mod = modinfo.load(mname)
        if mod is None:
            continue
        for n in _ast.walk(mod.tree):
            hit = None
            if isinstance(n, (_ast.Assign, _ast.AugAssign)):
                for t in (n.targets if isinstance(n, _ast.Assign) else [n.target]):
                    b = t
                    while isinstance(b, (_ast.Attribute, _ast.Subscript)):
                        b = b.value
                    if isinstance(b, _ast.Call) and 'getcontext' in _ast.unparse(b.func):
                        hit = 'decimal-context'
            if isinstance(n, _ast.Call):
                fn_src = _ast.unparse(n.func)
                if fn_src.endswith(('setcontext', 'setlocale', 'setrecursionlimit', 'setswitchinterval')):
                    hit = fn_src
            if hit:
                out.append({'oid': f'{mname}::ownership:global:ambient:{hit}', 'kind': 'frame', 'label': 'no write to ambient per-thread or per-process state',
                            'verdict': 'failed', 'detail': 'sets thread-ambient state (other threads keep the default): results depend on the executing thread', 'lineno': n.lineno})
    out.append({'oid': 'beanquery:threadsafety::constant', 'kind': 'post', 'label': 'module advertises DB-API thread safety level 2',
                'verdict': 'proved' if _threadsafety(modinfo) == 2 else 'failed', 'detail': f'threadsafety = {_threadsafety(modinfo)}', 'lineno': None})
    # registries are not written by reachable code
    for qual, what, lineno, why in sites:
        if any(r in what for r in ('FUNCTIONS', 'OPERATORS', 'RENDERERS', 'TYPES', 'ALIASES')):
            out.append({'oid': f'{qual}::registry-write:{what}', 'kind': 'frame', 'label': 'global registries are read-only after import', 'verdict': 'failed',
                        'detail': 'reachable write to a global registry', 'lineno': lineno})
    out.append({'oid': 'beanquery:reachable-functions::cover', 'kind': 'cover', 'label': 'reachable set is not empty', 'verdict': 'proved' if len(reach) > 40 else 'failed',
                'detail': f'{len(reach)} functions reachable from the execution entry points, {len(sites)} write sites', 'lineno': None})
    return out


def _threadsafety(modinfo):
    mod = modinfo.load('beanquery')
    vals = mod.assigns.get('threadsafety', [])
    return vals[-1].value if vals and isinstance(vals[-1], _ast.Constant) else None


# exception objects and cursors aside, the classes whose self-writes are accepted above because "every execution builds its own"
_PER_EXEC_BUILT = {c for c in PER_EXECUTION if c not in ('ParseError', 'CompilationError', 'InvalidLiteral', 'Cursor', 'Column')}


@structural('C20', 'per-execution-allocation')
def per_execution_allocation(modinfo):
    """The ownership argument accepts writes to self.* of Compiler, Row, Allocator, compiled nodes ... because every execution
    builds its own instances.  That premise is an obligation of its own: no instance of such a class is ever stored where two
    executions can reach it - in an attribute of a shared object (connection, table, column, module, class body).  A
    constructor call whose value is stored into self.<attr> of a class that is not itself per-execution, or bound at module /
    class level, fails the obligation."""
    out = []
    for mname in MODULES:
        mod = modinfo.load(mname)
        if mod is None:
            continue

        def is_per_exec_ctor(call):
            f = call.func
            name = f.id if isinstance(f, _ast.Name) else (f.attr if isinstance(f, _ast.Attribute) else None)
            return name is not None and (name in _PER_EXEC_BUILT or (name.startswith('Eval') and name[4:5].isupper()))

        def visit(body, qual, cls, in_function):
            for st in body:
                if isinstance(st, _ast.FunctionDef):
                    visit(st.body, f'{qual}.{st.name}' if qual else st.name, cls, True)
                    continue
                if isinstance(st, _ast.ClassDef):
                    visit(st.body, f'{qual}.{st.name}' if qual else st.name, st.name, False)
                    continue
                if isinstance(st, (_ast.Assign, _ast.AnnAssign, _ast.AugAssign)) and st.value is not None:
                    ctors = [n for n in _ast.walk(st.value) if isinstance(n, _ast.Call) and is_per_exec_ctor(n)
                             and not any(isinstance(p, _ast.Lambda) for p in _ast.walk(st.value) if n in list(_ast.walk(p)) and p is not n)]
                    targets = st.targets if isinstance(st, _ast.Assign) else [st.target]
                    for t in targets:
                        shared = None
                        if isinstance(t, _ast.Name) and not in_function:
                            shared = f'module / class level name {t.id}'
                        base = t
                        while isinstance(base, (_ast.Attribute, _ast.Subscript)):
                            base = base.value
                        if isinstance(t, (_ast.Attribute, _ast.Subscript)) and isinstance(base, _ast.Name) and base.id in ('self', 'cls') \
                                and cls is not None and cls not in PER_EXECUTION and not cls.startswith('Eval'):
                            shared = f'{_ast.unparse(t)} of the shared class {cls}'
                        if shared and ctors:
                            for c in ctors:
                                out.append({'oid': f'{mname}:{qual}::per-execution-allocation:{_ast.unparse(t)}', 'kind': 'frame',
                                            'label': f'instances of {_ast.unparse(c.func)} are built per execution and never stored in shared state',
                                            'verdict': 'failed', 'detail': f'{_ast.unparse(c.func)}(...) is stored in {shared}', 'lineno': st.lineno})
                for fld in ('body', 'orelse', 'finalbody', 'handlers'):
                    sub = getattr(st, fld, None)
                    if isinstance(sub, list):
                        visit([s for s in sub if isinstance(s, _ast.stmt)] + [s2 for h in sub if isinstance(h, _ast.ExceptHandler) for s2 in h.body], qual, cls, in_function)
        visit(mod.tree.body, '', None, False)
    out.append({'oid': 'beanquery::per-execution-allocation:premise', 'kind': 'frame',
                'label': 'no instance of a per-execution class is stored in shared state',
                'verdict': 'proved' if not out else 'failed', 'detail': f'{len(out)} offending store(s)', 'lineno': None})
    return out


@structural('C20', 'instance-state')
def instance_state(modinfo):
    """A write through self.X[...] / self.X.append(...) is a write to per-instance state only if some constructor of the class
    (or of a base class) creates X for the instance (`self.X = ...` in __init__).  Otherwise X is whatever the class body or a
    base class provides - one object shared by every instance, every connection and every thread - and the ownership argument
    for `self` says nothing about it."""
    reach, sites = analyse(modinfo)
    funcs = _functions(modinfo)
    classes = {}          # class name -> (bases, attrs assigned as self.X in __init__, attrs bound in the class body)
    for mname in MODULES:
        mod = modinfo.load(mname)
        if mod is None:
            continue
        for node in _ast.walk(mod.tree):
            if isinstance(node, _ast.ClassDef):
                init_attrs, body_attrs = set(), set()
                for st in node.body:
                    if isinstance(st, _ast.FunctionDef) and st.name in ('__init__', '__post_init__'):
                        for n in _ast.walk(st):
                            if isinstance(n, (_ast.Assign, _ast.AnnAssign, _ast.AugAssign)):
                                for t in (n.targets if isinstance(n, _ast.Assign) else [n.target]):
                                    for x in (t.elts if isinstance(t, (_ast.Tuple, _ast.List)) else [t]):
                                        if isinstance(x, _ast.Attribute) and isinstance(x.value, _ast.Name) and x.value.id == 'self':
                                            init_attrs.add(x.attr)
                    if isinstance(st, (_ast.Assign, _ast.AnnAssign)):
                        for t in (st.targets if isinstance(st, _ast.Assign) else [st.target]):
                            if isinstance(t, _ast.Name):
                                body_attrs.add(t.id)
                bases = [b.id if isinstance(b, _ast.Name) else (b.attr if isinstance(b, _ast.Attribute) else None) for b in node.bases]
                is_dc = any('dataclass' in _ast.unparse(d) for d in node.decorator_list)
                classes[node.name] = (bases, init_attrs | (body_attrs if is_dc else set()), body_attrs)

    def created_per_instance(cls, attr, seen=()):
        if cls not in classes or cls in seen:
            return False
        bases, init_attrs, _ = classes[cls]
        return attr in init_attrs or any(created_per_instance(b, attr, seen + (cls,)) for b in bases if b)
    out = []
    for qual, what, lineno, why in sites:
        kind, _, expr = what.partition(':')
        if kind not in ('item', 'mut') or not expr.startswith('self.'):
            continue
        attr = expr.split('.')[1].split('[')[0]
        key = next((k for k in funcs if f'{k[0]}:{k[1]}' == qual), None)
        cls = funcs[key][1] if key else None
        if cls is None:
            continue
        ok = created_per_instance(cls, attr)
        out.append({'oid': f'{qual}::instance-state:{expr}', 'kind': 'frame', 'label': f'self.{attr} mutated here is created per instance by a constructor of {cls}',
                    'verdict': 'proved' if ok else 'failed',
                    'detail': 'assigned as self.%s in __init__' % attr if ok else f'no __init__ of {cls} or its bases assigns self.{attr}: the mutated object is class-level / shared state', 'lineno': lineno})
    return out
