#!/bin/sh
# validates that the interpreters and solver bindings the checks need are present (nothing is fetched or built)
set -e
python3-vt -c "import z3; print('z3', z3.get_version_string())"
/venv/bin/python -c "import beanquery, beancount, tatsu; print('beanquery importable')"
