import json, os, subprocess, sys
names = sys.argv[1:]
for name in names:
    d = f'/verif/seeded/{name}'
    meta = json.load(open(f'{d}/meta.json'))
    prop = meta['property']
    props = [w.split()[1] for w in meta.get('what_was_run', [f'./check {prop}'])]
    subprocess.run(['git', '-C', '/repo', 'checkout', '--', '.'])
    r = subprocess.run(['git', '-C', '/repo', 'apply', f'{d}/patch.diff'], capture_output=True, text=True)
    if r.returncode != 0:
        print(name, 'PATCH-DOES-NOT-APPLY', r.stderr.strip()[:100], flush=True); continue
    det = []
    try:
        for p in props:
            c = subprocess.run(['./check', p], cwd='/verif', capture_output=True, text=True)
            det.append((p, c.returncode, sum(1 for l in c.stdout.splitlines() if l.startswith('VIOLATION'))))
    finally:
        subprocess.run(['git', '-C', '/repo', 'checkout', '--', '.'])
    print(name, 'DETECTED' if any(rc == 1 for _, rc, _ in det) else 'MISSED', det, flush=True)
print('SAMPLEDONE', flush=True)
