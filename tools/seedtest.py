#!/usr/bin/env python3
"""tools/seedtest.py <seed-dir> <PROP> <name> [--props C01,C03]: validate a seeded change and run the checks against it.

seed-dir holds patch.diff, demo.py, meta.json (written by an independent sub-agent in its own worktree).
1. in a scratch worktree of /repo: demo passes at HEAD, fails with the patch, test-suite result unchanged;
2. apply the patch to /repo, run ./check for the property (and others given), undo it straight afterwards;
3. keep it as /verif/seeded/<name>/ with what was run."""
import json, os, shutil, subprocess, sys, re

def sh(cmd, cwd=None, env=None, timeout=3600):
    p = subprocess.run(cmd, shell=True, cwd=cwd, env=env, capture_output=True, text=True, timeout=timeout)
    return p.returncode, (p.stdout + p.stderr)

def main():
    seed, prop, name = sys.argv[1:4]
    seed = os.path.abspath(seed)
    props = [prop]
    if '--props' in sys.argv:
        props = sys.argv[sys.argv.index('--props') + 1].split(',')
    wt = f'/tmp/seedwt_{name}'
    sh(f'git -C /repo worktree remove --force {wt}')
    rc, out = sh(f'git -C /repo worktree add -q {wt} HEAD')
    env = dict(os.environ, PYTHONPATH=wt, PYTHONDONTWRITEBYTECODE='1')
    res = {'name': name, 'property': prop}
    try:
        rc0, o0 = sh(f'/venv/bin/python -B {seed}/demo.py', cwd=wt, env=env)
        res['demo_on_head'] = rc0
        rc, o = sh(f'git apply {seed}/patch.diff || git apply --3way {seed}/patch.diff', cwd=wt)
        if rc != 0:
            res['apply_error'] = o[-500:]
            print(json.dumps(res, indent=1)); return 2
        rc1, o1 = sh(f'/venv/bin/python -B {seed}/demo.py', cwd=wt, env=env)
        res['demo_with_patch'] = rc1
        res['demo_output'] = o1[-600:]
        rc, o = sh('/venv/bin/python -m pytest -q -p no:cacheprovider 2>&1 | tail -1', cwd=wt, env=env)
        res['tests_with_patch'] = o.strip()
    finally:
        sh(f'git -C /repo worktree remove --force {wt}')
    ok = res['demo_on_head'] == 0 and res['demo_with_patch'] != 0 and '241 passed' in res.get('tests_with_patch', '') and '14 failed' in res.get('tests_with_patch', '')
    res['confirmed'] = ok
    # run checks against /repo with the patch applied
    rc, o = sh(f'git -C /repo apply {os.path.abspath(seed)}/patch.diff || (git -C /repo apply --3way {os.path.abspath(seed)}/patch.diff && git -C /repo reset -q)')
    res['checks'] = {}
    try:
        if rc != 0:
            res['repo_apply_error'] = o[-300:]
        else:
            for p in props:
                rc, o = sh(f'./check {p} --tier quick', cwd='/verif')
                lines = [l for l in o.splitlines() if l.startswith(('VIOLATION', 'KNOWN-FINDING', 'CHECKER-ERROR', p))]
                res['checks'][p] = {'exit': rc, 'lines': lines[:8]}
    finally:
        sh('git -C /repo checkout -- .')
    res['detected'] = any(v['exit'] == 1 for v in res['checks'].values())
    dst = f'/verif/seeded/{name}'
    os.makedirs(dst, exist_ok=True)
    for f in ('patch.diff', 'demo.py'):
        if os.path.abspath(os.path.join(seed, f)) != os.path.abspath(os.path.join(dst, f)):
            shutil.copy(os.path.join(seed, f), dst)
    meta = {}
    try:
        meta = json.load(open(os.path.join(seed, 'meta.json')))
    except Exception:
        pass
    meta.update({'property': prop, 'confirmed_by': 'tools/seedtest.py: demo exit 0 at HEAD, non-zero with the patch, test suite 241 passed / 14 failed unchanged',
                 'what_was_run': [f'./check {p} --tier quick' for p in props], 'result': res})
    json.dump(meta, open(os.path.join(dst, 'meta.json'), 'w'), indent=1)
    print(json.dumps({k: res[k] for k in ('name', 'confirmed', 'detected', 'demo_on_head', 'demo_with_patch', 'tests_with_patch')}, indent=0))
    for p, v in res['checks'].items():
        print(p, 'exit', v['exit'])
        for l in v['lines'][:4]:
            print('   ', l[:230])
    # evidence files were rewritten against the patched tree: re-run on the clean tree
    for p in props:
        sh(f'./check {p} --tier quick', cwd='/verif')

main()
