#!/usr/bin/env python3
"""re-run every kept seeded change against the current checks: tools/seedall.py [PROP ...]"""
import json, os, subprocess, sys
want = set(sys.argv[1:])
rows = []
for name in sorted(os.listdir('/verif/seeded')):
    d = f'/verif/seeded/{name}'
    meta = json.load(open(f'{d}/meta.json'))
    prop = meta['property']
    if want and prop not in want:
        continue
    props = [w.split()[1] for w in meta.get('what_was_run', [f'./check {prop}'])]
    subprocess.run(['git', '-C', '/repo', 'checkout', '--', '.'])
    r = subprocess.run(['git', '-C', '/repo', 'apply', f'{d}/patch.diff'], capture_output=True, text=True)
    if r.returncode != 0:
        rows.append((name, 'PATCH-DOES-NOT-APPLY', r.stderr.strip()[:100]))
        continue
    det = []
    try:
        for p in props:
            c = subprocess.run(['./check', p], cwd='/verif', capture_output=True, text=True)
            det.append((p, c.returncode, sum(1 for l in c.stdout.splitlines() if l.startswith('VIOLATION'))))
    finally:
        subprocess.run(['git', '-C', '/repo', 'checkout', '--', '.'])
    rows.append((name, 'DETECTED' if any(rc == 1 for _, rc, _ in det) else 'MISSED', det))
for r in rows:
    print(*r)
for p in sorted({p for r in rows if isinstance(r[2], list) for p, _, _ in r[2]}):
    subprocess.run(['./check', p], cwd='/verif', capture_output=True)
