"""./check <PROP> [--tier quick|thorough] | ./check --replay <file>

Runs under python3-vt (z3).  Native work (T3 scopes, replay, harnesses) is delegated to
/venv/bin/python -B checker/native.py."""
import argparse
import concurrent.futures as cf
import glob
import hashlib
import importlib
import json
import multiprocessing as mp
import os
import re
import subprocess
import sys
import time

ROOT = os.path.dirname(os.path.dirname(os.path.abspath(__file__)))
sys.path.insert(0, ROOT)
VENV_PY = '/venv/bin/python'


def contract_modules():
    return sorted('contracts.' + os.path.basename(p)[:-3] for p in glob.glob(os.path.join(ROOT, 'contracts', 'c*.py')))


def load_contracts():
    from pyvc import spec as S
    for m in contract_modules():
        importlib.import_module(m)
    return S.CONTRACTS


def _verify_worker(args):
    key, timeout_ms, feas_ms = args[:3]
    scale = args[3] if len(args) > 3 else 1
    os.environ.setdefault('PYTHONHASHSEED', '0')
    sys.path.insert(0, ROOT)
    sys.setrecursionlimit(10000)
    contracts = load_contracts()
    from pyvc.driver import Driver
    from pyvc.core import Budget
    c = contracts[key]
    t0 = time.time()
    try:
        d = Driver(c, Budget((c.timeout or timeout_ms) * scale, feas_ms))
        r = d.run()
        out = r.asdict()
        for o, od in zip(r.obligations, out['obligations']):
            if getattr(o, 'smt', None):
                od['smt'] = o.smt[:30000]
            od['path'] = getattr(o, 'path', '')
            od['part'] = getattr(o, 'part', 0)
        return out
    except Exception as e:  # engine crash: never a violation
        import traceback
        return {'key': key, 'crash': f'{type(e).__name__}: {e}', 'tb': traceback.format_exc()[-3000:], 'obligations': [],
                'unsupported': [], 'errors': [], 'paths': 0, 'cases': 0, 'solver_time': 0, 'wall': time.time() - t0,
                'target': None, 'inlined': [], 'used_contracts': [], 'used_builtins': [], 'missing': None}


def run_native(argv, payload=None, timeout=3600):
    env = dict(os.environ)
    env['PYTHONDONTWRITEBYTECODE'] = '1'
    env['PYTHONPATH'] = ROOT + os.pathsep + os.environ.get('VERIF_REPO', '/repo')
    env.setdefault('BEANQUERY_VERIF', '1')
    p = subprocess.run([VENV_PY, '-B', os.path.join(ROOT, 'checker', 'native.py')] + argv,
                       input=json.dumps(payload) if payload is not None else None,
                       capture_output=True, text=True, timeout=timeout, env=env, cwd=ROOT)
    lines = [l for l in p.stdout.splitlines() if l.startswith('@@JSON@@')]
    if not lines:
        return {'crash': f'native runner produced no result (exit {p.returncode})', 'stderr': p.stderr[-3000:], 'stdout': p.stdout[-1000:]}
    return json.loads(lines[-1][len('@@JSON@@'):])


def aggregate(results):
    """group per (contract key, kind, label): verdict = worst over paths"""
    order = {'failed': 0, 'unknown': 1, 'proved': 2}
    agg = {}
    for r in results:
        for o in r['obligations']:
            k = o['oid']
            a = agg.setdefault(k, {'oid': k, 'contract': r['key'], 'kind': o['kind'], 'label': o['label'], 'verdict': 'proved',
                                   'vcs': 0, 'seconds': 0.0, 'tier': o.get('tier', 'T1'), 'lineno': o.get('lineno'), 'witness': None})
            a['vcs'] += 1
            a['seconds'] += o['seconds']
            if o.get('tier') == 'T2':
                a['tier'] = 'T2'
            if order[o['verdict']] < order[a['verdict']]:
                a['verdict'] = o['verdict']
            if o['verdict'] == 'failed' and a['witness'] is None:
                a['witness'] = o
    return agg


def load_known():
    p = os.path.join(ROOT, 'known_findings.json')
    if not os.path.exists(p):
        return []
    return json.load(open(p)).get('findings', [])


def known_match(known, prop, fingerprint):
    for k in known:
        if k.get('status', 'open') != 'open':
            continue
        if k['property'] == prop and k['fingerprint'] == fingerprint:
            return k
    return None


def safe_name(s):
    return re.sub(r'[^A-Za-z0-9_.-]+', '_', s)[:120] + '-' + hashlib.sha1(s.encode()).hexdigest()[:8]


def main():
    ap = argparse.ArgumentParser()
    ap.add_argument('prop', nargs='?')
    ap.add_argument('--tier', default=os.environ.get('VERIF_TIER', 'quick'))
    ap.add_argument('--replay')
    ap.add_argument('--rebaseline', action='store_true')
    ap.add_argument('--jobs', type=int, default=int(os.environ.get('VERIF_JOBS', '16')))
    ap.add_argument('--verbose', '-v', action='store_true')
    a = ap.parse_args()
    if a.replay:
        return do_replay(a.replay)
    if not a.prop:
        ap.error('property id required')
    from checker import props as P
    if a.prop not in P.PROPS:
        print(f'unknown property {a.prop}')
        return 3
    return check_property(a.prop, a.tier, a)


def do_replay(path):
    rec = json.load(open(path))
    if rec.get('kind') in ('obligation-not-discharged', 'structural') or (rec.get('kind') == 'obligation' and not rec.get('model')):
        # no input to replay: re-run the obligation itself on the current tree
        if rec.get('contract') == 'structural' or rec.get('kind') == 'structural':
            from pyvc import modinfo
            load_contracts()
            import importlib
            obs = []
            for m in contract_modules():
                for pr, sname, fn in getattr(importlib.import_module(m), 'STRUCTURAL', []):
                    if pr == rec['property']:
                        obs += fn(modinfo)
            hit = [o for o in obs if o['oid'] == rec['obligation']]
            ok = bool(hit) and all(o['verdict'] == 'proved' for o in hit)
            print(json.dumps({'obligation': rec['obligation'], 'now': [o['verdict'] + ': ' + str(o.get('detail')) for o in hit] or 'not generated'}, indent=1))
        else:
            out = _verify_worker((rec['contract'], 10000, 3000, 2))
            hit = [o for o in out.get('obligations', []) if o['oid'] == rec['obligation']]
            ok = bool(hit) and all(o['verdict'] == 'proved' for o in hit)
            if rec['obligation'].endswith('::paths:every path through the function is verified'):
                ok = not out.get('unsupported') and not out.get('errors') and not out.get('crash') and all(o['verdict'] == 'proved' for o in out.get('obligations', []))
                hit = [{'verdict': 'proved' if ok else 'path not verified: ' + '; '.join(u['why'] for u in out.get('unsupported', []))[:200]}]
            print(json.dumps({'obligation': rec['obligation'], 'now': sorted({o['verdict'] for o in hit}) or 'not generated', 'crash': out.get('crash')}, indent=1))
        if not ok:
            print(f"VIOLATION property={rec['property']} replay={path} no-failing-input-found")
            return 1
        print('obligation discharged on the current tree')
        return 0
    r = run_native(['replay'], {'records': [rec]})
    if 'crash' in r:
        print('CHECKER-ERROR replay runner:', r['crash'], r.get('stderr', '')[-500:])
        return 3
    res = r['results'][0]
    print(json.dumps(res, indent=1)[:3000])
    if res['status'] == 'reproduced':
        print(f"VIOLATION property={rec['property']} replay={path}")
        return 1
    print('not reproduced')
    return 0


def check_property(prop, tier, a):
    from checker import props as P
    cfg = P.PROPS[prop]
    seed = int(os.environ.get('VERIF_SEED', '0'))
    t_start = time.time()
    contracts = load_contracts()
    mine = [c for c in contracts.values() if prop in c.props and c.kind != 'assumed']
    timeout_ms = 10000 if tier == 'quick' else 60000
    feas_ms = 3000 if tier == 'quick' else 10000
    known = load_known()

    # --- T1/T2 in a process pool, native T3 concurrently -----------------------------
    results = []
    native_fn = native_h = None
    ctx = mp.get_context('spawn')
    with cf.ThreadPoolExecutor(max_workers=2) as tp:
        fut_fn = tp.submit(run_native, ['fn', prop, '--tier', tier, '--seed', str(seed)])
        fut_h = tp.submit(run_native, ['harness', prop, '--tier', tier, '--seed', str(seed)]) if cfg.get('harness') else None
        if mine:
            # one fresh process per contract: the behaviour of z3 depends on what the process did before
            # (symbol numbering, global context), and a verdict must not depend on scheduling
            with cf.ProcessPoolExecutor(max_workers=min(a.jobs, max(1, len(mine))), mp_context=ctx, max_tasks_per_child=1) as pool:
                results = list(pool.map(_verify_worker, [(c.key, timeout_ms, feas_ms) for c in mine]))
        native_fn = fut_fn.result()
        native_h = fut_h.result() if fut_h else None
    # second attempt, on a quiet machine and with twice the budget, for every contract that came back with an `unknown`: solver
    # time limits are wall-clock, and the first round shares the cores with the native harness.  The better verdict per
    # obligation and path counts (an `unknown` that becomes `proved`); `failed` verdicts are never overridden.
    retry = [r['key'] for r in results if any(o['verdict'] == 'unknown' for o in r.get('obligations', []))]
    if retry:
        with cf.ProcessPoolExecutor(max_workers=min(4, len(retry)), mp_context=ctx, max_tasks_per_child=1) as pool:
            second = {r['key']: r for r in pool.map(_verify_worker, [(k, timeout_ms, feas_ms, 2) for k in retry])}
        for r in results:
            r2 = second.get(r['key'])
            if not r2 or r2.get('crash'):
                continue
            kf = lambda o: (o['oid'], o.get('path', ''), o.get('part', 0), o.get('lineno'))
            better = {kf(o): o for o in r2['obligations'] if o['verdict'] == 'proved'}
            for i, o in enumerate(r['obligations']):
                if o['verdict'] == 'unknown' and kf(o) in better:
                    r['obligations'][i] = dict(better[kf(o)], detail=(better[kf(o)].get('detail') or '') + ' (second attempt, 2x budget)')
            r['solver_time'] = r.get('solver_time', 0) + r2.get('solver_time', 0)

    checker_errors = []
    for r in results:
        if r.get('crash'):
            checker_errors.append(f"engine crash in {r['key']}: {r['crash']}")
    if 'crash' in (native_fn or {}):
        checker_errors.append('native fn runner: ' + native_fn['crash'] + ' ' + native_fn.get('stderr', '')[-800:])
    if native_h is not None and 'crash' in native_h:
        checker_errors.append('native harness: ' + native_h['crash'] + ' ' + native_h.get('stderr', '')[-800:])

    # structural obligations (static analyses over the ast of /repo declared next to the contracts)
    structural = []
    from pyvc import modinfo as _mi
    for m in contract_modules():
        mod = sys.modules.get(m)
        for sprop, sname, fn in getattr(mod, 'STRUCTURAL', []):
            if sprop != prop:
                continue
            try:
                obs = fn(_mi)
            except _mi.TargetMissing as e:
                obs = []
                checker_errors.append(f'structural check {sname}: target missing ({e})') if False else None
            except Exception as e:
                obs = []
                checker_errors.append(f'structural check {sname} crashed: {type(e).__name__}: {e}')
            for o in obs:
                o.setdefault('seconds', 0.0)
                o['tier'] = 'T1'
                o['backend'] = 'static'
                structural.append(o)
    if structural:
        results.append({'key': 'structural', 'obligations': structural, 'unsupported': [], 'errors': [], 'paths': 0, 'cases': 0,
                        'solver_time': 0.0, 'wall': 0.0, 'target': None, 'inlined': [], 'used_contracts': [], 'used_builtins': [], 'missing': None})
    agg = aggregate(results)
    t1 = [o for o in agg.values() if o['tier'] == 'T1']
    t2 = [o for o in agg.values() if o['tier'] == 'T2']
    failed = [o for o in agg.values() if o['verdict'] == 'failed']

    baseline = {}
    bp = os.path.join(ROOT, 'baseline_obligations.json')
    if os.path.exists(bp):
        baseline = json.load(open(bp)).get(prop, {})
    demoted = []
    # --- replay failed obligations natively ------------------------------------------
    violations = []      # dicts: fingerprint, replay record
    if failed:
        recs = [{'property': prop, 'kind': 'obligation', 'contract': o['contract'], 'obligation': o['oid'],
                 'model': o['witness'].get('model')} if o['contract'] != 'structural' else
                {'property': prop, 'kind': 'structural', 'contract': 'structural', 'obligation': o['oid'], 'model': None} for o in failed]
        rr = run_native(['replay'], {'records': recs})
        reps = rr.get('results', [{'status': 'not-reproduced', 'detail': rr.get('crash')}] * len(recs))
        for o, rec, rep in zip(failed, recs, reps):
            tgt = next((r['target'] for r in results if r['key'] == o['contract']), None)
            rec.update({'function': tgt, 'tier': o['tier'], 'backend': 'z3 ' + z3_version(), 'solver_answer': 'sat',
                        'lineno': o['witness'].get('lineno'), 'detail': o['witness'].get('detail'),
                        'path': o['witness'].get('path'), 'native_replay': rep,
                        'smt2': o['witness'].get('smt', '')})
            structural_global = o['contract'] == 'structural' and any(k in o['oid'] for k in ('::ownership:memo:', '::ownership:global:', '::registry-write:', '::ownership:attr:self.', '::ownership:mut:self.', '::ownership:item:self.', '::ownership:classattr:', '::per-execution-allocation:', '::instance-state:'))
            # a write to a declared field outside the contract's modifies clause: on the baseline the frame of that contract was
            # discharged as one summary obligation (no per-field obligation exists while nothing is written), so the per-field
            # failure is a regression of that summary.  (Writes to attributes the contract's shape does not know are not
            # covered by this: they stay undecided unless they replay.)
            when = 'exceptional' if '(exceptional)' in o['label'] else 'normal'
            frame_regression = (o['kind'] == 'frame' and o['label'].endswith(f'unchanged ({when})') and ' of objects outside ' not in o['label']
                                and baseline.get(f"{o['contract']}::frame:fields outside modifies are checked ({when})") == 'proved')
            if rep.get('status') != 'reproduced' and baseline.get(o['oid']) != 'proved' and not structural_global and not frame_regression:
                # a countermodel that does not replay, on an obligation that never verified on the committed
                # baseline: undecided (DESIGN 2.1 step 6), not a violation
                demoted.append({'contract': o['contract'], 'why': f"sat-unconfirmed on non-baseline obligation {o['kind']}:{o['label']}"})
                continue
            violations.append({'fingerprint': o['oid'], 'record': rec, 'reproduced': rep.get('status') == 'reproduced',
                               'what': f"{o['kind']} obligation '{o['label']}' of {o['contract']} fails"})

    # --- proofs lost on changed code ---------------------------------------------------
    # An obligation that was discharged on the committed baseline and is not discharged any more (solver: unknown) counts as
    # failed when the code it was generated from (function under contract + callees verified inline, docstrings / comments /
    # layout aside) differs from the baseline's: the verifier no longer accepts the changed function.  On unchanged code an
    # 'unknown' is solver instability and stays undecided.
    src_now = {r['key']: (r.get('target') or {}).get('ast_sha') for r in results}
    src_base = baseline.get('__src__', {}) if isinstance(baseline.get('__src__'), dict) else {}
    lost = []
    for o in agg.values():
        if o['verdict'] == 'unknown' and baseline.get(o['oid']) == 'proved':
            hb, hn = src_base.get(o['contract']), src_now.get(o['contract'])
            if hb and hn and hb != hn:
                lost.append(o)
                tgt = next((r['target'] for r in results if r['key'] == o['contract']), None)
                rec = {'property': prop, 'kind': 'obligation-not-discharged', 'contract': o['contract'], 'obligation': o['oid'], 'function': tgt,
                       'tier': o['tier'], 'backend': 'z3 ' + z3_version(), 'solver_answer': 'unknown (timeout / incomplete quantifier instantiation)',
                       'baseline_verdict': 'proved', 'code_hash_baseline': hb, 'code_hash_now': hn, 'model': None,
                       'note': 'this obligation was discharged for the committed tree; the function (or a callee verified inline) has changed and the '
                               'verifier no longer accepts it. No counterexample was produced.'}
                violations.append({'fingerprint': o['oid'], 'record': rec, 'reproduced': False,
                                   'what': f"{o['kind']} obligation '{o['label']}' of {o['contract']} is no longer discharged after the function changed"})

    # ... and an obligation that was discharged on the committed tree and is not even generated any more, because the changed
    # function now contains something the verifier does not accept (an unsupported construct on the path, an engine error),
    # is reported the same way: the named obligation is no longer discharged for the code as it stands.
    by_key = {r['key']: r for r in results}
    for oid, v in baseline.items():
        if v != 'proved' or oid in agg or '::' not in oid:
            continue
        key = oid.split('::', 1)[0]
        r = by_key.get(key)
        hb, hn = src_base.get(key), src_now.get(key)
        if r is None or not (hb and hn and hb != hn) or not (r['unsupported'] or r['errors']):
            continue
        whys = {u['why'] for u in r['unsupported']} | {e['why'] for e in r['errors']}
        if any('not bound' in w for w in whys):
            # a loop invariant / postcondition names a local variable that no longer exists (renamed): the contract text does not fit
            # the code any more - a limit of the sidecar contract, not a verdict about the code: undecided
            continue
        why = '; '.join(sorted(whys))[:300]
        rec = {'property': prop, 'kind': 'obligation-not-discharged', 'contract': key, 'obligation': oid, 'function': r.get('target'),
               'tier': 'T1', 'backend': 'pyvc / z3 ' + z3_version(), 'solver_answer': 'not generated: ' + why,
               'baseline_verdict': 'proved', 'code_hash_baseline': hb, 'code_hash_now': hn, 'model': None,
               'note': 'this obligation was discharged for the committed tree; the function (or a callee verified inline) has changed and the '
                       'verifier does not accept the new code, so the obligation is not discharged. No counterexample was produced.'}
        violations.append({'fingerprint': oid, 'record': rec, 'reproduced': False,
                           'what': f"obligation '{oid.split('::', 1)[1]}' of {key} is no longer discharged after the function changed ({why[:120]})"})

    # ... and the same when the obligations are still generated on some paths but another path through the changed function ends in
    # something the verifier does not accept: a postcondition 'proved' on the remaining paths is not discharged for the function.
    reported_keys = {v['record'].get('contract') for v in violations if v['record'].get('kind') == 'obligation-not-discharged'}
    for r in results:
        key = r['key']
        hb, hn = src_base.get(key), src_now.get(key)
        if key in reported_keys or not (hb and hn and hb != hn) or not (r['unsupported'] or r['errors']):
            continue
        if not any(v == 'proved' and oid.startswith(key + '::') for oid, v in baseline.items()):
            continue
        whys = {u['why'] for u in r['unsupported']} | {e['why'] for e in r['errors']}
        if any('not bound' in w for w in whys):
            continue
        why = '; '.join(sorted(whys))[:300]
        oid = f'{key}::paths:every path through the function is verified'
        rec = {'property': prop, 'kind': 'obligation-not-discharged', 'contract': key, 'obligation': oid, 'function': r.get('target'),
               'tier': 'T1', 'backend': 'pyvc / z3 ' + z3_version(), 'solver_answer': 'path not verified: ' + why,
               'baseline_verdict': 'proved', 'code_hash_baseline': hb, 'code_hash_now': hn, 'model': None,
               'note': 'on the committed tree every path through this function was verified against its contract; the function has changed and a path '
                       'now ends in a construct the verifier does not accept, so the postconditions are not discharged for it. No counterexample was produced.'}
        violations.append({'fingerprint': oid, 'record': rec, 'reproduced': False,
                           'what': f"a path through {key} is no longer verified after the function changed ({why[:120]})"})

    # --- native function-level T3 ------------------------------------------------------
    fn_evals = fn_distinct = 0
    fn_samples = []
    fn_skipped = []
    for r in (native_fn or {}).get('contracts', []):
        fn_evals += r['evaluations']
        fn_distinct += r['nontrivial']
        fn_samples += r['samples'][:1]
        if r.get('skipped'):
            fn_skipped.append(f"{r['key']}: {r['skipped']}")
        for v in r['violations']:
            fp = f"{r['key']}::native:{v['clause']}"
            if any(x['fingerprint'].startswith(r['key'] + '::') and x['reproduced'] for x in violations):
                continue
            rec = {'property': prop, 'kind': 'native-contract', 'contract': r['key'], 'clause': v['clause'], 'input': v['input'],
                   'observed': v['observed'], 'tier': 'T3'}
            violations.append({'fingerprint': fp, 'record': rec, 'reproduced': True,
                               'what': f"contract clause '{v['clause']}' of {r['key']} fails natively on {json.dumps(v['input'])[:200]}"})

    # --- property-level harness ----------------------------------------------------------
    h_evals = h_distinct = 0
    h_samples = []
    h_info = {}
    if native_h and 'crash' not in native_h:
        h_evals, h_distinct = native_h.get('evaluations', 0), native_h.get('distinct_nontrivial', 0)
        h_samples = native_h.get('samples', [])[:5]
        h_info = {k: native_h[k] for k in ('rule', 'scopes', 'exhaustive', 'notes') if k in native_h}
        for v in native_h.get('violations', []):
            rec = {'property': prop, 'kind': 'harness', 'harness': cfg['harness'], 'case': v.get('case'), 'observed': v.get('observed'),
                   'expected': v.get('expected'), 'clause': v.get('clause'), 'tier': 'T3'}
            violations.append({'fingerprint': v['fingerprint'], 'record': rec, 'reproduced': True,
                               'what': v.get('what', v.get('clause', 'harness violation'))})

    # --- structural checks delivered by the native side (C06 regeneration, C20 write sites ...) ---
    for v in (native_fn or {}).get('structural_violations', []):
        violations.append(v)

    # --- known findings ---------------------------------------------------------------------
    out_lines = []
    new_violations = []
    seen_known = set()
    for v in violations:
        k = known_match(known, prop, v['fingerprint'])
        if k is not None:
            if k['fingerprint'] not in seen_known:
                seen_known.add(k['fingerprint'])
                out_lines.append(f"KNOWN-FINDING: property={prop} {k['summary']}")
            continue
        new_violations.append(v)

    # --- undecided / vacuity ------------------------------------------------------------------
    undecided = []
    for r in results:
        if r.get('missing'):
            undecided.append({'contract': r['key'], 'why': 'target-missing: ' + r['missing']})
        for u in r['unsupported']:
            undecided.append({'contract': r['key'], 'why': 'unsupported: ' + u['why'], 'line': u.get('line')})
        for e in r['errors']:
            undecided.append({'contract': r['key'], 'why': 'engine error: ' + e['why']})
    for o in agg.values():
        if o['verdict'] == 'unknown':
            undecided.append({'contract': o['contract'], 'why': f"solver unknown on {o['kind']}:{o['label']}"})

    undecided += demoted
    # baseline comparison (obligations that were proved on the committed baseline)
    regress = [oid for oid, v in baseline.items() if v == 'proved' and agg.get(oid, {}).get('verdict') != 'proved']
    not_generated = [oid for oid in regress if oid not in agg]

    n_t1 = len(t1)
    n_t1_proved = sum(1 for o in t1 if o['verdict'] == 'proved')
    total_cases = fn_evals + h_evals + sum(o['vcs'] for o in agg.values())
    if total_cases == 0:
        checker_errors.append('zero obligations and zero evaluations generated')
    if cfg.get('min_t1', 0) and n_t1 < cfg['min_t1'] and not any(r.get('missing') for r in results):
        checker_errors.append(f'only {n_t1} T1 obligations generated (expected >= {cfg["min_t1"]})')

    # --- replay files, verdict ---------------------------------------------------------------
    rdir = os.path.join(ROOT, 'replays', prop)
    exit_code = 0
    for v in new_violations:
        os.makedirs(rdir, exist_ok=True)
        path = os.path.join('replays', prop, safe_name(v['fingerprint']) + '.json')
        json.dump(v['record'], open(os.path.join(ROOT, path), 'w'), indent=1, default=str)
        suffix = '' if v['reproduced'] else ' no-failing-input-found'
        out_lines.append(f"VIOLATION property={prop} replay={path}{suffix}")
        out_lines.append(f"  # {v['what']}"[:400])
        exit_code = 1
    if checker_errors and exit_code == 0:
        exit_code = 3

    # --- evidence ---------------------------------------------------------------------------------
    wall = time.time() - t_start
    fuc = [r['target'] for r in results if r.get('target')]
    samples = []
    for o in list(agg.values())[:3]:
        samples.append({'obligation': o['oid'], 'kind': o['kind'], 'verdict': o['verdict'], 'vcs': o['vcs'], 'tier': o['tier']})
    samples += [{'t3_function_scope_input': s} for s in fn_samples[:2]]
    samples += [{'t3_harness_case': s} for s in h_samples[:3]]
    used_builtins = sorted({b for r in results for b in r.get('used_builtins', [])})
    used_assumed = sorted({k for r in results for k in r.get('used_contracts', [])})
    inlined = sorted({k for r in results for k in r.get('inlined', [])})
    assumes = sorted({s for c in mine for s in c.assumes})
    coverage = {
        'obligations': n_t1,
        'discharged': n_t1_proved,
        'checker_cmd': f'./check {prop} --tier {tier}',
        'trusted_base': cfg.get('trusted_base', []) + [
            'pyvc encoding of Python semantics (DESIGN.md 2.3): int mathematical, Decimal ops uninterpreted, value-semantics lists with alias guard',
            'z3 ' + z3_version(),
        ] + [f'library model: {b}' for b in used_builtins] + [f'callee contract used modularly: {k}' for k in used_assumed]
          + [f'contract assumption: {s}' for s in assumes],
        'explanation': cfg['explanation'],
        'functions_under_contract': fuc,
        'inlined_callees_verified_with_caller': inlined,
        'not_claimed_by_contract': sorted(f'{c.key}: {c.note}' for c in mine if getattr(c, 'note', None)),
        'obligation_records': [{k: o[k] for k in ('oid', 'kind', 'verdict', 'vcs', 'seconds', 'tier')} for o in agg.values()],
        'vcs_total': sum(o['vcs'] for o in agg.values()),
        'paths_total': sum(r['paths'] for r in results),
        'bounded_obligations_T2': {'count': len(t2), 'proved': sum(1 for o in t2 if o['verdict'] == 'proved'),
                                   'bounds': sorted({f"{c.key}: loops unrolled to {c.unroll}" for c in mine if c.unroll})},
        'solver_time_s': {'z3': round(sum(r['solver_time'] for r in results), 3)},
        'undecided': undecided[:60],
        'undecided_count': len(undecided),
        'baseline_regressions': regress[:40],
        'evaluations': fn_evals + h_evals,
        'distinct_nontrivial': fn_distinct + h_distinct,
        'bounded_T3': {'function_scope_evaluations': fn_evals, 'function_scope_distinct': fn_distinct,
                       'function_scope_skipped': fn_skipped, 'harness_evaluations': h_evals, 'harness_distinct': h_distinct, **h_info},
        'rule': 'T3: contract lambdas evaluated natively on the real function over the small scope enumerated from the parameter shapes; '
                'distinct = distinct argument tuples satisfying the precondition. ' + (h_info.get('rule') or ''),
        'samples': samples or [{'note': 'no samples'}],
        'known_findings_reported': sorted(seen_known),
        'checker_errors': checker_errors,
    }
    if h_info.get('exhaustive'):
        coverage['exhaustive'] = True
    ev = {'property_id': prop, 'tier': tier, 'seed': seed, 'level': cfg['level'], 'coverage': coverage,
          'assumptions': cfg.get('assumptions', []) + assumes, 'wall_s': round(wall, 2), 'violations': len(new_violations)}
    os.makedirs(os.path.join(ROOT, 'evidence'), exist_ok=True)
    json.dump(ev, open(os.path.join(ROOT, 'evidence', f'{prop}.json'), 'w'), indent=1, default=str)

    if a.rebaseline:
        allb = json.load(open(bp)) if os.path.exists(bp) else {}
        allb[prop] = {oid: o['verdict'] for oid, o in sorted(agg.items())}
        allb[prop]['__src__'] = {r['key']: r['target']['ast_sha'] for r in results if (r.get('target') or {}).get('ast_sha')}
        json.dump(allb, open(bp, 'w'), indent=1, sort_keys=True)

    print(f'{prop} [{tier}] T1 obligations {n_t1_proved}/{n_t1} proved ({coverage["vcs_total"]} VCs, {coverage["paths_total"]} paths), '
          f'T2 {coverage["bounded_obligations_T2"]["proved"]}/{len(t2)}, T3 fn-scope {fn_evals} evals, harness {h_evals} evals, '
          f'undecided {len(undecided)}, wall {wall:.1f}s')
    if a.verbose:
        for u in undecided[:40]:
            print('  undecided:', u)
    for e in checker_errors:
        print('CHECKER-ERROR', e[:600])
    shown = 0
    for l in out_lines:
        if l.startswith('VIOLATION') or l.startswith('  #'):
            shown += 1
            if shown > 24:
                continue
        print(l)
    if shown > 24:
        print(f'... {(shown - 24) // 2} more VIOLATION lines suppressed (all replay files are written under replays/{prop}/)')
    return exit_code


def z3_version():
    try:
        import z3
        return z3.get_version_string()
    except Exception:
        return '?'


if __name__ == '__main__':
    sys.exit(main())
