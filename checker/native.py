"""Native side of ./check (runs under /venv/bin/python -B with /repo importable)."""
import glob
import importlib
import json
import os
import sys
import traceback

ROOT = os.path.dirname(os.path.dirname(os.path.abspath(__file__)))
sys.path.insert(0, ROOT)
REPO = os.environ.get('VERIF_REPO', '/repo')
if REPO not in sys.path:
    sys.path.insert(0, REPO)
sys.dont_write_bytecode = True


def emit(obj):
    print('@@JSON@@' + json.dumps(obj, default=str))


def load_contracts():
    from pyvc import spec as S
    for p in sorted(glob.glob(os.path.join(ROOT, 'contracts', 'c*.py'))):
        importlib.import_module('contracts.' + os.path.basename(p)[:-3])
    return S.CONTRACTS


def main():
    cmd = sys.argv[1]
    args = sys.argv[2:]
    tier = args[args.index('--tier') + 1] if '--tier' in args else 'quick'
    seed = int(args[args.index('--seed') + 1]) if '--seed' in args else 0
    if cmd == 'fn':
        prop = args[0]
        from checker import native_fn
        contracts = load_contracts()
        out = []
        for c in contracts.values():
            if prop in c.props and c.kind != 'assumed':
                budget, limit = (3, 2000) if tier == 'quick' else (4, 20000)
                try:
                    out.append(native_fn.run_contract(c, budget, limit, seed))
                except Exception as e:
                    out.append({'key': c.key, 'evaluations': 0, 'nontrivial': 0, 'violations': [], 'samples': [],
                                'skipped': f'runner error {type(e).__name__}: {e} {traceback.format_exc()[-400:]}', 'exhaustive': False})
        emit({'contracts': out})
    elif cmd == 'replay':
        payload = json.load(sys.stdin)
        from checker import native_fn
        contracts = load_contracts()
        results = []
        for rec in payload['records']:
            try:
                if rec['kind'] == 'obligation':
                    c = contracts[rec['contract']]
                    st, detail = native_fn.replay(c, rec.get('model') or {})
                    results.append({'status': st, 'detail': detail})
                elif rec['kind'] == 'native-contract':
                    c = contracts[rec['contract']]
                    r = native_fn.run_contract(c, 3, 3000, 0)
                    hit = [v for v in r['violations'] if v['clause'] == rec['clause']]
                    results.append({'status': 'reproduced' if hit else 'not-reproduced', 'detail': hit[:1]})
                elif rec['kind'] == 'harness':
                    h = importlib.import_module('harness.' + rec['harness'])
                    results.append(h.replay(rec['case']))
                else:
                    results.append({'status': 'not-reproduced', 'detail': 'unknown record kind (structural obligations have no input)'})
            except Exception as e:
                results.append({'status': 'not-reproduced', 'detail': f'{type(e).__name__}: {e}'})
        emit({'results': results})
    elif cmd == 'harness':
        prop = args[0]
        from checker import props as P
        h = importlib.import_module('harness.' + P.PROPS[prop]['harness'])
        try:
            emit(h.run(tier, seed))
        except Exception as e:  # noqa
            # An exception that escapes from the library into the harness (innermost frame inside the repository, reached from a
            # call the harness makes on the unchanged tree without trouble) is an observation about the library, not a harness
            # failure.  Anything raised by harness code itself stays a checker error.
            tb = traceback.extract_tb(e.__traceback__)
            repo = os.path.realpath(os.environ.get('VERIF_REPO', '/repo'))
            inner = tb[-1] if tb else None
            is_rejection = any(k.__name__ in ('ProgrammingError', 'ParseError', 'CompilationError') for k in type(e).__mro__)     # a statement the harness wrote is rejected: harness error
            if inner is not None and os.path.realpath(inner.filename).startswith(repo + os.sep) and not is_rejection:
                emit({'evaluations': 1, 'distinct_nontrivial': 1, 'samples': [], 'rule': 'harness aborted by an exception escaping from the library',
                      'violations': [{'fingerprint': f'{P.PROPS[prop]["harness"]}:library-exception:{type(e).__name__}:{os.path.basename(inner.filename)}:{inner.name}',
                                      'clause': 'the library raises no unexpected exception in the scenarios of the harness',
                                      'case': {'traceback': traceback.format_exc()[-1500:]}, 'observed': f'{type(e).__name__}: {e}'[:300], 'expected': 'no exception',
                                      'what': f'{type(e).__name__} escaping from {os.path.basename(inner.filename)}:{inner.name} aborted the harness'}]})
            else:
                raise
    else:
        raise SystemExit('unknown command')


if __name__ == '__main__':
    main()
