"""Per-property configuration of ./check (levels, harness, explanation, trusted base)."""

PROPS = {
    'C10': dict(
        level='proof',
        harness='h10',
        min_t1=30,
        explanation='Every public Cursor method is proved (T1, unbounded in result size, arguments and call history) to preserve the '
                    'representation invariant g_result == g_delivered ++ _rows, _pos == len(g_delivered) and to satisfy its DB-API '
                    'postcondition; Column is proved to be a 7-item sequence (indexing, slicing, len, equality). The native history '
                    'harness is a cross-check of the encoding and the replay vehicle, not the deciding evidence.',
        trusted_base=['callee contracts of parse/compile/execute_query are assumed in Cursor.execute (their own obligations live in C01-C09)',
                      'iter(list) yields the list elements in order'],
        assumptions=['rows are opaque values; distinct parameters are distinct objects'],
    ),
}

NOT_APPLICABLE = {}

BASELINE_CMD = ('cd /repo && env -u BEANQUERY_VERIF /venv/bin/python -m pytest -ra -q -p no:cacheprovider --timeout=900 '
                '--continue-on-collection-errors')
