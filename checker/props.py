"""Per-property configuration of ./check (levels, harness, explanation, trusted base)."""

PROPS = {
    'C10': dict(
        level='proof',
        harness='h10',
        min_t1=30,
        explanation='Every public Cursor method is proved (T1, unbounded in result size, arguments and call history) to preserve the '
                    'representation invariant g_result == g_delivered ++ _rows, _pos == len(g_delivered) and to satisfy its DB-API '
                    'postcondition; Column is proved to be a 7-item sequence (indexing, slicing, len, equality). The native history '
                    'harness is a cross-check of the encoding and the replay vehicle, not the deciding evidence.',
        trusted_base=['callee contracts of parse/compile/execute_query are assumed in Cursor.execute (their own obligations live in C01-C09)',
                      'iter(list) yields the list elements in order'],
        assumptions=['rows are opaque values; distinct parameters are distinct objects'],
    ),
}

PROPS['C01'] = dict(
    level='other',
    harness='h01',
    min_t1=40,
    explanation='T1 (unbounded, z3): every evaluation node class (constant, unary, NULL-strict unary, binary, BETWEEN, AND, OR, COALESCE, getitem, getter) satisfies its semantic equation from the statement for arbitrary child values and - through loop invariants - every argument count; operator bodies per operand-type overload (NULL on zero divisor, int/int division decimal, operand order, no exception); the NULL-strict scalar-function wrapper for all operand counts; the row loop of execute_select for non-aggregate, unordered queries against the recursive specification rows_upto (one row per source row whose condition is truthy, in source order, each cell the value of its target expression on that row), followed by projection / DISTINCT / LIMIT. Structural induction over expression depth is a stated meta-argument. FROM/WHERE combination in the compiler, overload lookup and parser-to-compiler wiring are decided only on a bounded scope (T3: Connection.execute vs. a reference semantics written from the statement; registry sweep over every registered operator overload).',
    trusted_base=['structural induction over expression trees: sem is defined by the local equations each node class is proved to satisfy',
                  'Decimal arithmetic is uninterpreted (which operation on which operands under which guards is proved, not rounding)',
                  'decorator effects (registry entries) are taken from the imported package (reflection), not from symbolic execution'],
    assumptions=['PURE_CHILDREN', 'values of one column have one Python type (structural equality of values coincides with ==)'],
)

PROPS['C02'] = dict(
    level='other',
    harness='h02',
    min_t1=30,
    explanation='T1 (unbounded): the allocator hands out distinct handles below its size and creates stores with one NULL slot per handle; '
                'every aggregator (count(*), count(x), sum int/decimal, first, last, min, max) update maps exactly its own slot to '
                'step(slot, operand value) - NULL operands skipped where the statement says so - and frames every other slot; initialize '
                'sets the zero of the type / NULL and frames the rest; finalize publishes the slot. The group loop of execute_select '
                '(partition by key tuple, first-appearance order, HAVING) is decided on a bounded scope (T3 harness: every aggregate x key set '
                'x key style incl. implicit / positional / by name / invisible keys, NULL keys, interleaved groups, WHERE/HAVING, '
                'arithmetic over aggregates, additivity of counts and sums).',
    trusted_base=['Decimal/int addition as Python +', 'the group loop itself is not under a T1 contract (bounded only)'],
    assumptions=['PURE_CHILDREN'],
)
PROPS['C03'] = dict(
    level='other',
    harness='h03',
    min_t1=8,
    explanation='T1 (unbounded): NullType orders before every value and not before itself; both nullitemgetter closures return the item / the tuple of items in argument order with None replaced by NULL (loop invariant over any number of keys); uniquify yields exactly the first occurrences in order (recursive spec uniq/mem, invariant over the seen-set) for every input length; EvalNode.__eq__ (merge soundness of ORDER BY keys with targets); Compiler._compile_order_by: one sort key per clause with its direction, every index addresses a target of the extended list, appended targets are hidden, selected targets untouched; execute_select (unordered): projection, DISTINCT, then LIMIT in that order. The multi-pass stable sort itself and what each ORDER BY key denotes (position / name / expression) are decided on a bounded scope (T3).',
    trusted_base=['list.sort is a stable sort, also with reverse=True (CPython documentation)', 'set membership coincides with == on row tuples'],
    assumptions=['values in one column are mutually comparable'],
)

NOT_APPLICABLE = {}

BASELINE_CMD = ('cd /repo && env -u BEANQUERY_VERIF /venv/bin/python -m pytest -ra -q -p no:cacheprovider --timeout=900 '
                '--continue-on-collection-errors')

PROPS['C07'] = dict(
    level='other', harness='h07', min_t1=0,
    explanation='T1 (unbounded): execute_select returns as description exactly the named targets in order, and rows projected to exactly those positions; get_target_name is alias, else column name, else the exact source text; targets appended by ORDER BY are hidden (name None) and the selected ones untouched. Bounded (T3): Connection.execute: naming rule incl. source slices that parse back, hidden GROUP BY / HAVING targets never visible, row length == description length, wildcard expansion on every table kind.',
    trusted_base=['TatSu parseinfo.pos/endpos delimit the node text (exercised only by the bounded scope)'],
    assumptions=[],
)

PROPS['C08'] = dict(
    level='other', harness='h08', min_t1=2,
    explanation="T1: Compiler._select restores the compiler's current table and depth on normal and exceptional exit and consumes the subquery permission (frame); structural obligation: no expression handler writes Compiler.table; EvalConstantSubquery1D evaluates its subquery once and serves later rows from the cached value; in_/not_in_ operator bodies. Bounded (T3): FROM (subquery) vs. the outer query over a materialised table (names, datatypes, rows) for 10 inner x 8 outer forms x depth 1-3; IN / NOT IN subqueries vs. list membership incl. NULL and empty-subquery cases.",
    trusted_base=[], assumptions=[],
)

PROPS['C09'] = dict(
    level='other', harness='h09', min_t1=5,
    explanation='T1: a placeholder compiles to a constant holding exactly the bound parameter and a literal to its parsed value (Compiler._placeholder / _constant); constant operands of unary operators, binary operators and pure functions fold to the value the very operator / call node evaluates to, with its datatype, and non-constant ones are left as the node (Compiler._unaryop / _binaryop / _function, _compile and types.function_lookup assumed deterministic); EvalConstant returns its value; Cursor.execute re-establishes the cursor state whatever the history (frame: only the cursor fields are written, callee contracts assumed); BeanTable.update returns a copy and never writes the shared table; BeanTable.prepare writes nothing. Bounded (T3): placeholders (positional in textual order / named, in targets, WHERE, ORDER BY, subqueries, repeated names) vs. literal substitution; folded constants vs. per-row evaluation; execution histories (text and parsed-once statements re-used with different parameters, interleaved with other statements) vs. fresh single executions; executemany; deep comparison of the source table.',
    trusted_base=[], assumptions=[],
)

PROPS['C05'] = dict(
    level='other', harness='h05', min_t1=0,
    explanation="T1 (unbounded): Compiler._compile_pivot_by raises CompilationError exactly when the statement's rule is violated and otherwise returns two distinct indexes of selected targets, the second grouped; Compiler._compile_order_by raises nothing but CompilationError; get_target_name. Bounded (T3): Connection.execute on hand-written statements for every acceptance rule of the property, token-level mutations, random token strings and hand-built ASTs: accepted exactly when the rules hold; every rejection is a ProgrammingError (ParseError / CompilationError) and its location is a valid span that the shell can render.",
    trusted_base=['TatSu reports the failure position'], assumptions=['well-formed ASTs: PIVOT BY has two columns, placeholders named by "" or an identifier'],
)

PROPS['C18'] = dict(
    level='other', harness='h18', min_t1=0,
    explanation='The property quantifies over a finite domain and the harness evaluates the function contracts natively on all of it '
                '(exhaustive: 73 414 dates x units/fields/offsets, account names, strings, decimals, cast pool). T1 obligations (all inputs, '
                'not only the domain) on the date arithmetic, calendar truncation/part functions, casts and numeric functions are listed in '
                'the evidence as they are built; week/ISO functions, date_bin, regex and account functions depend on dateutil/re/beancount and '
                'are bounded only.',
    trusted_base=['Python datetime, re, textwrap, dateutil.relativedelta and beancount.core.account as reference implementations of the calendar / regex / account laws'],
    assumptions=[],
)

PROPS['C17'] = dict(
    level='other', harness='h17', min_t1=8,
    explanation='T1 (all inputs): the four converters return the cell unchanged / the units of their currency (NULL when absent, quantized iff a '
                'formatter is given) and never raise, in particular on NULL cells. Bounded (T3): numberify_results against a reference written from '
                'the statement (column naming, census order by decreasing frequency, identity columns, row count/order, cell values summed over lots).',
    trusted_base=['Amount / Position / Inventory API of Beancount (field names, get_currency_units, currencies)', 'DisplayFormatter.quantize is pure'],
    assumptions=[],
)

PROPS['C15'] = dict(
    level='other', harness='h15', min_t1=0,
    explanation='T1 (unbounded): Compiler._compile_pivot_by - both references resolve to selected targets (1-based position or name), they are distinct, the second is a GROUP BY column, rejected exactly otherwise. Bounded (T3): Connection.execute with PIVOT BY against the reshaping defined by the statement (row per first key ascending, block per second key ascending, naming, datatypes, NULL fill, un-pivot identity) on full / sparse / duplicate / single / empty tables with the pivot columns in every target position, by name and by position.',
    trusted_base=[], assumptions=['non-NULL pivot key values of one column are mutually comparable; NULL is a key value of its own, sorted first'],
)

PROPS['C11'] = dict(
    level='other', harness='h11', min_t1=30,
    explanation='T1 (all inputs): 32 column accessors of the postings and entries tables return the attribute the naming rule designates (NULL without cost / metadata / '
                'for non-transactions), derived from the column name; the NULL-strict getitem / getter node classes. Bounded (T3): every column of every ledger table '
                '(incl. description, other_accounts, typed tables, accounts, commodities) and the metadata / open / commodity functions against a direct traversal of '
                'the directives on generated ledgers; row iteration order and counts.',
    trusted_base=['Beancount data model (field names), hash_entry, get_weight, get_account_open_close, get_commodity_directives'], assumptions=[],
)

PROPS['C12'] = dict(
    level='other', harness='h12', min_t1=3,
    explanation='T1: aggregator initialize (zero of the type, frame on the other slots; shared with C02). Bounded (T3): sum(position) vs the Beancount '
                'inventory sum, units/cost/value/convert commuting with sum, partition additivity, running balance vs prefix sums with 0-4 references per '
                'row, balance consulted in WHERE, and a nested scan evaluated between two references of balance in one row.',
    trusted_base=['Beancount Inventory algebra (add_position / add_inventory / reduce) is assumed, not verified'], assumptions=[],
)

PROPS['C13'] = dict(
    level='other', harness='h13', min_t1=5,
    explanation='Balance preservation is a theorem about beancount.ops.summarize (a dependency): decided only on a bounded scope (T3) over generated ledgers x clause '
                'subsets x a date grid. T1 (unbounded): BeanTable.prepare applies open, close, clear in that order, each iff its field is set, as a function of '
                '(entries, options, open, close, clear) only (reads clause) that writes nothing; BeanTable.update returns a copy with the three fields replaced and '
                'never writes the receiver.',
    trusted_base=['beancount.ops.summarize.open_opt / close_opt / clear_opt'], assumptions=[],
)

PROPS['C14'] = dict(
    level='other', harness='h14', min_t1=0,
    explanation='T1 (unbounded): transform_journal / transform_balances build their Select from the statement alone: FROM (and for BALANCES, WHERE) passed through as the same AST, the JOURNAL account pattern is the constant right operand of a regex match on the account column (never spliced into query text), every clause the statement cannot express is absent; Compiler._balances / _journal compile to exactly what the expansion compiles to; Compiler._print reads the entries table of the connection under the FROM clause of the statement itself; execute_print hands the printer the directives of the rows whose FROM expression is absent or true (truth value), in table order (loop invariant against a recursive specification, obligation on the arguments of the external call). Bounded (T3): BALANCES / JOURNAL against the per-account sums and the posting register computed from the plain SELECT over the same FROM clause, for every summary function, FROM clause, WHERE condition and account pattern of the scope; PRINT output re-loaded with the Beancount loader and compared directive by directive.',
    trusted_base=['Beancount printer and loader', 'textwrap.shorten'], assumptions=[],
)

PROPS['C16'] = dict(
    level='other', harness='h16', min_t1=0,
    explanation='T1 (unbounded): the two-phase width protocol - ColumnRenderer.prepare / width (no width before prepare), update of the str()-cell renderers, booleans and dates widens to cover the cell and never narrows; DecimalRenderer.update keeps the running maxima of integral width (sign included) and fractional digits so that every fed value fits, prepare computes integral + point + fractional. Bounded (T3): render_text / render_csv on generated result tables of every datatype x all 32 boolean option combinations (+ nullvalue / list separator variants): rectangular output, fixed offsets, headers, NULL placeholder, row expansion, decimal alignment, read-back of every cell, CSV records; amount / position / inventory renderers (Beancount DisplayContext).',
    trusted_base=['Beancount DisplayContext formatting', 'str.ljust/rjust/center semantics'], assumptions=[],
)

PROPS['C04'] = dict(
    level='other', harness='h04', min_t1=0,
    explanation='T1: the dtype announced by node classes and column accessors shared with C01 / C11 contracts (type-tag obligations). Bounded (T3): for every registered function / operator overload, conforming operands from per-type pools are evaluated and the value checked against the declared datatype (and for TypeError); every column of every ledger table, structured attribute access, every aggregate x column type, interval arithmetic, renderer lookup for every announced datatype.',
    trusted_base=['Beancount field types'], assumptions=['collections conform by kind (set / list interchangeable), object admits anything'],
)

PROPS['C06'] = dict(
    level='exploration', harness='h06', min_t1=0,
    explanation='The deciding code is the TatSu runtime plus the generated parser: no function contract on it can be discharged here, so this property is decided on a bounded scope only '
                '(T3): parse(unparse(a)) == a with a specification printer written from the statement precedence table, over enumerated ASTs and four printing styles; plus the '
                'extraction-faithfulness obligation that parser.py is byte-identical to the TatSu translation of bql.ebnf.',
    trusted_base=['TatSu 5.7 code generator and runtime'], assumptions=[],
)

PROPS['C19'] = dict(
    level='other', harness='h19', min_t1=0,
    explanation='T1 (unbounded in the value text): Settings.setstr for each of the nine settings stores the parsed value in exactly that setting (frame: every other setting unchanged), raises ValueError and changes nothing for a value invalid for the type, raises AttributeError and changes nothing for a name that is not a setting; getstr echoes booleans as true/false and texts quoted. Bounded (T3) sessions in batch mode: shell output vs the renderer applied to the API result over a settings grid, .run of named queries, command dispatch, CLI options through click.',
    trusted_base=['cmd.Cmd.parseline, shlex.split, click'], assumptions=[],
)

PROPS['C20'] = dict(
    level='other', harness='h20', min_t1=50,
    explanation='Contracts cannot quantify over interleavings. What is decided is the classical sufficient condition, as ownership / frame obligations generated from the '
                'ast of /repo: every write site (attribute / item store, mutating call, memo cache, global) in every function reachable from the execution entry points is owned '
                'by the execution (fresh local, self of a per-execution class, owned parameter) or carries an explicit hand-written justification; registries are not written after '
                'import; threadsafety == 2. If every obligation holds, executions share no mutable state and every interleaving equals a serial order. A failed obligation is '
                'reported with no-failing-input-found unless the bounded harness (deterministic two/three-thread schedules driven by a tick() BQL function) produces a schedule.',
    trusted_base=['name-based conservative call graph', 'the ownership classification table PER_EXECUTION and the hand-written JUSTIFIED entries in contracts/c20.py',
                  'CPython: single attribute / list-item stores are atomic'],
    assumptions=['cursors are not shared between threads (DB-API level 2)'],
)
PROPS['C05']['min_t1'] = 4
PROPS['C15']['min_t1'] = 4


# ---- deciding method per property (MANIFEST "technique") and vacuity floor (min_t1 ~ 70% of the obligations generated on the pinned tree) ----
_T1 = ('contract-based deductive verification: pre/postconditions, loop invariants and frames on the real functions, VCs generated from the ast of /repo on every run '
       '(pyvc) and discharged by z3; ')
_T3 = 'the parts outside the contracts are decided by bounded native contract evaluation (labelled bounded, never counted as proved)'
TECHNIQUE = {
    'C01': _T1 + 'row loop of execute_select against a recursive specification, node classes, operator bodies, row condition assembled by _compile_select (FROM and WHERE), the expression handlers of the compiler (the compiled node is the operator / call node of the statement, folded only by evaluating it; AND / OR operands in written order); ' + _T3,
    'C02': _T1 + 'allocator and aggregator update / initialize / finalize with slot frames, group-key resolution and HAVING in _compile_group_by; the group loop: ' + _T3,
    'C03': _T1 + 'NullType order, nullitemgetter closures, uniquify against a recursive specification, ORDER BY key resolution, DISTINCT/LIMIT pipeline of execute_select; the multi-pass sort: ' + _T3,
    'C04': _T1 + 'type-tag obligations on node classes and column accessors; the compiler selects overloads whose input types are exactly the operand datatypes (binary, BETWEEN, IN, attribute, subscript, coalesce); registry sweep: ' + _T3,
    'C05': _T1 + 'contracts of the clause compilers (targets, GROUP BY / HAVING, ORDER BY, PIVOT BY, FROM), of their assembly in _compile_select, and of the expression handlers (column resolution, overload selection by exact operand types for unary / binary / BETWEEN / IN / function nodes, attribute and subscript access, coalesce: CompilationError exactly when the rule is violated), get_target_name; statement-level acceptance: ' + _T3,
    'C06': 'bounded native contract evaluation only (parse(print(a)) == a over enumerated ASTs; generated parser == grammar translation): the deciding code is the TatSu runtime, '
           'no function contract on it is discharged - nothing is counted as proved',
    'C07': _T1 + 'description / projection of execute_select, target compilation and naming (_compile_targets, get_target_name), hidden GROUP BY / ORDER BY targets, written targets first (_compile_select); ' + _T3,
    'C08': _T1 + 'frame of the compiler state across nested SELECTs (Compiler._select), IN-subquery node caching; structural obligation that no expression handler writes Compiler.table; composition: ' + _T3,
    'C09': _T1 + 'placeholder / literal constants and constant folding of unary, binary and function nodes in the compiler (folded value = the node evaluated), numbering of positional placeholders in textual order (Compiler.compile, sorted() through its permutation witnesses), Cursor.execute state re-establishment, EvalConstant, BeanTable.update/prepare frames; named placeholders and histories: ' + _T3,
    'C10': _T1 + 'representation invariant and DB-API postcondition of every Cursor method, Column sequence protocol (all proved, unbounded)',
    'C11': _T1 + '32 column accessors against the naming rule; table iteration: ' + _T3,
    'C12': _T1 + 'aggregator initialize / slot frames; the inventory algebra is Beancount (trusted): ' + _T3,
    'C13': _T1 + 'BeanTable.prepare (order and iff-conditions of open/close/clear, reads clause, no writes), BeanTable.update, _compile_from (the table is qualified with exactly the written qualifiers); balance preservation is a theorem about beancount.ops.summarize: ' + _T3,
    'C14': _T1 + 'transform_journal / transform_balances (clauses passed through, account pattern as a constant operand, no other clauses), Compiler._balances / _journal (compile to what the expansion compiles to), Compiler._print (entries table under the statement FROM clause), execute_print (directives selected by truth value, in table order, handed to the printer); result equality with the SELECT expansions and PRINT round trip: ' + _T3,
    'C15': _T1 + 'Compiler._compile_pivot_by (references resolve to selected targets, rejection rule); the reshaping itself: ' + _T3,
    'C16': _T1 + 'two-phase width protocol of the column renderers (update widens and covers, prepare fixes the width, decimals: integral/fractional maxima); table layout: ' + _T3,
    'C17': _T1 + 'the four numberify converters; numberify_results: ' + _T3,
    'C18': _T1 + 'date arithmetic, truncation / part functions, casts, numeric functions for all inputs; the property domain is finite and additionally evaluated exhaustively (bounded, labelled)',
    'C19': _T1 + 'Settings.setstr / getstr per setting (stores exactly that setting, rejects invalid values and unknown names, changes nothing else); shell sessions: ' + _T3,
    'C20': 'ownership / frame obligations generated from the ast of /repo for every write site reachable from the execution entry points (structural, decided syntactically, no solver); '
           'deterministic two/three-thread schedules as bounded native stand-in',
}
MIN_T1 = {'C01': 95, 'C02': 85, 'C03': 42, 'C04': 80, 'C05': 150, 'C06': 0, 'C07': 88, 'C08': 30, 'C09': 44, 'C10': 34, 'C11': 47, 'C12': 3, 'C13': 24,
          'C14': 18, 'C15': 5, 'C16': 24, 'C17': 5, 'C18': 58, 'C19': 39, 'C20': 100}
for _p, _c in PROPS.items():
    _c['technique'] = TECHNIQUE[_p]
    _c['min_t1'] = MIN_T1[_p]
