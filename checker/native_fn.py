"""Native (CPython, real /repo code) evaluation of pyvc contracts.

Runs under /venv/bin/python -B.  Used for: T3 bounded scopes derived from the shapes, and
replay of solver counter-models.  The real function object is taken from the imported
package in /repo; nothing is modelled here."""
import copy
import datetime
import importlib
import inspect
import itertools
import random
import sys
from decimal import Decimal

sys.path.insert(0, '/verif')
from pyvc import spec as S  # noqa: E402


class Skip(Exception):
    pass


def resolve_native(c):
    """-> (callable, is_method) for the contract's target"""
    if c.native is False:
        raise Skip('contract marked native=False')
    if callable(c.native):
        return c.native(), None
    modname, _, path = c.target.partition(':')
    mod = importlib.import_module(modname)
    obj = mod
    parent = None
    for seg in path.split('.'):
        name = seg.split('#')[0]
        if '#' in seg:
            raise Skip('ordinal target needs an explicit native resolver')
        parent = obj
        try:
            obj = inspect.getattr_static(obj, name)
        except AttributeError:
            raise Skip(f'cannot resolve {c.target} natively')
    if isinstance(obj, property):
        return obj.fget, parent
    if isinstance(obj, staticmethod):
        return obj.__func__, parent
    if isinstance(obj, classmethod):
        raise Skip('classmethod')
    return obj, parent


def build(shape, value):
    """turn an enumerated description into a real object (Obj shapes)"""
    if isinstance(value, tuple) and len(value) == 3 and value[0] == '__obj__':
        _, sh, vals = value
        modname, _, cname = sh.cls.partition(':')
        if sh.native is not None:
            return sh.native({k: build(sh.allfields()[k], v) for k, v in vals.items()})
        cls = importlib.import_module(modname)
        for seg in cname.split('.'):
            cls = getattr(cls, seg)
        o = cls.__new__(cls)
        for k, v in vals.items():
            object.__setattr__(o, k, build(sh.allfields()[k], v))
        return o
    if isinstance(shape, S.Fixed) and isinstance(value, (list, tuple)):
        r = [build(s, v) for s, v in zip(shape.shapes, value)]
        return r if shape.kind == 'list' else tuple(r)
    if isinstance(value, list):
        return list(value)
    return value


def enum_inputs(c, budget, rng, limit):
    names = list(c.params) + list(c.closure)
    shapes = [c.params[n] if n in c.params else c.closure[n] for n in names]
    pools = [sh.enum(budget) for sh in shapes]
    total = 1
    for p in pools:
        total *= max(len(p), 1)
    if total <= limit:
        combos = itertools.product(*pools)
        exhaustive = True
    else:
        def gen():
            for _ in range(limit):
                yield tuple(rng.choice(p) for p in pools)
        combos = gen()
        exhaustive = False
    for combo in combos:
        yield names, shapes, combo, exhaustive


def call_by_name(fn, env):
    argnames = list(fn.__code__.co_varnames[:fn.__code__.co_argcount])
    return fn(*[env[a] for a in argnames])


def exc_matches(e, name):
    return any(k.__name__ == name for k in type(e).__mro__)


def snapshot(v):
    try:
        return copy.deepcopy(v)
    except Exception:
        return v


def describe(v):
    if hasattr(v, '__dict__') and not isinstance(v, (S.Tok, S.FakeNode, S.Record)) and not callable(v):
        return {'class': type(v).__name__, 'fields': {k: repr(x)[:120] for k, x in vars(v).items()}}
    return repr(v)[:200]


def evaluate(c, fn, names, shapes, combo):
    """-> ('skip'|'ok'|'violation', detail)"""
    env = {n: build(sh, v) for n, sh, v in zip(names, shapes, combo)}
    # shape invariants and requires
    for n, sh in zip(names, shapes):
        if isinstance(sh, S.Obj) and sh.where is not None:
            try:
                if not call_by_name(sh.where, {'self': env[n], n: env[n]}):
                    return 'skip', None
            except Exception:
                return 'skip', None
    try:
        if c.requires is not None and not call_by_name(c.requires, env):
            return 'skip', None
    except Exception as e:
        return 'skip', f'requires raised {type(e).__name__}'
    if c.globals:
        import importlib as _il
        m = _il.import_module(c.target.split(':')[0])
        for g in c.globals:
            if g not in env and hasattr(m, g.split('.')[0]):
                env[g] = getattr(m, g)
    old = S.Old({n: snapshot(v) for n, v in env.items()})
    pnames = [n for n in names if n in c.params]
    args = [env[n] for n in pnames]
    # closure variables: the contract's native resolver gets them
    f = fn
    if c.closure:
        if not callable(c.native):
            raise Skip('closure contract without native resolver')
        f = c.native(**{n: env[n] for n in c.closure})
    desc = {n: describe(env[n]) for n in names}
    try:
        result = f(*args)
        if inspect.isgenerator(result):
            result = tuple(result)
    except Exception as e:  # noqa
        if isinstance(e, AttributeError) and getattr(e, 'obj', None) is not None:
            # a field the contract's shape does not describe (objects are built field by field, without
            # running __init__): the scope cannot evaluate this input; undecided, not a violation
            for n, sh in zip(names, shapes):
                if isinstance(sh, S.Obj) and e.obj is env.get(n) and e.name not in sh.allfields():
                    return 'skip', f'shape lacks field {e.name}'
        for exc, cond in c.raises.items():
            if exc_matches(e, exc):
                e2 = dict(env)
                e2['old'] = old
                if cond is None or call_by_name(cond, {**{n: getattr(old, n) for n in names}, 'old': old}):
                    return 'ok', 'raised-permitted'
                return 'violation', {'clause': f'raises {exc} only when permitted', 'input': desc, 'observed': f'{type(e).__name__}: {e}'}
        return 'violation', {'clause': f'no {type(e).__name__}', 'input': desc, 'observed': f'{type(e).__name__}: {e}'}
    env2 = dict(env)
    env2['result'] = result
    env2['old'] = old
    for exc, cond in c.raises.items():
        if exc in (c.must_raise or ()) and cond is not None:
            if call_by_name(cond, {**{n: getattr(old, n) for n in names}, 'old': old}):
                return 'violation', {'clause': f'{exc} must be raised', 'input': desc, 'observed': f'returned {result!r}'[:200]}
    if c.ghost is not None:
        try:
            call_by_name(c.ghost, env2)
        except Exception as e:
            return 'violation', {'clause': 'ghost update failed', 'input': desc, 'observed': f'{type(e).__name__}: {e}'}
    for lab, e in c.ensures_list():
        try:
            ok = call_by_name(e, env2)
        except Exception as ex:
            return 'violation', {'clause': lab, 'input': desc, 'observed': f'postcondition raised {type(ex).__name__}: {ex}; result={result!r}'[:300]}
        if not ok:
            return 'violation', {'clause': lab, 'input': desc, 'observed': f'result={result!r}'[:300]}
    if c.modifies is not None:
        allowed = set(c.modifies)
        for n, sh in zip(names, shapes):
            if isinstance(sh, S.Obj):
                for fld in sh.fields:
                    if f'{n}.{fld}' in allowed:
                        continue
                    try:
                        new, was = getattr(env[n], fld), getattr(getattr(old, n), fld)
                    except AttributeError:
                        continue
                    if not (new is was or new == was):
                        return 'violation', {'clause': f'frame {n}.{fld} unchanged', 'input': desc, 'observed': f'{was!r} -> {new!r}'[:300]}
    return 'ok', None


def run_contract(c, budget=3, limit=3000, seed=0):
    """T3 on one contract -> dict"""
    out = {'key': c.key, 'evaluations': 0, 'nontrivial': 0, 'violations': [], 'skipped': None, 'exhaustive': False, 'samples': []}
    try:
        fn, _ = resolve_native(c)
    except Skip as e:
        out['skipped'] = str(e)
        return out
    except Exception as e:  # import errors etc.
        out['skipped'] = f'{type(e).__name__}: {e}'
        return out
    rng = random.Random(seed)
    seen = set()
    try:
        for names, shapes, combo, exhaustive in enum_inputs(c, budget, rng, limit):
            out['exhaustive'] = exhaustive
            st, detail = evaluate(c, fn, names, shapes, combo)
            if st == 'skip':
                continue
            out['evaluations'] += 1
            key = repr(combo)[:400]
            if key not in seen:
                seen.add(key)
                out['nontrivial'] += 1
                if len(out['samples']) < 3:
                    out['samples'].append(key[:200])
            if st == 'violation':
                if len(out['violations']) < 5:
                    out['violations'].append(detail)
    except Skip as e:
        out['skipped'] = str(e)
    return out


# ---- replay of solver models ---------------------------------------------------------

def val_from_model(v):
    if isinstance(v, dict):
        if 'obj' in v:
            return S.Tok('m', v['obj'])
        if 'dec' in v:
            if v.get('nan'):
                return Decimal('NaN')
            if v.get('finite') is False:
                return Decimal('Infinity')
            if 'num' in v:
                return Decimal(v['num'])
            return Decimal(abs(hash(v['dec'])) % 97) / 8
        if 'date_ordinal' in v:
            o = v['date_ordinal']
            return datetime.date.fromordinal(o) if isinstance(o, int) and 1 <= o <= 3652059 else datetime.date(2000, 1, 1)
        if 'seq' in v:
            items = [val_from_model(x) for x in v.get('items', [])]
            return items if v['seq'] == 'list' else tuple(items)
    return v


def from_model(shape, name, model):
    """rebuild a native argument from the concretised model (best effort)"""
    cases = shape.cases() if isinstance(shape, (S.Opt, S.Union)) else [shape]
    if isinstance(shape, (S.Opt, S.Union)):
        v = model.get(name, None)
        if v is None and not any(k.startswith(name + '.') for k in model):
            return None
        for cse in cases:
            if isinstance(cse, S.NoneS):
                continue
            try:
                return from_model(cse, name, model)
            except Exception:
                continue
        return None
    if isinstance(shape, S.NoneS):
        return None
    if isinstance(shape, S.Obj):
        vals = {}
        for fn, fs in shape.allfields().items():
            vals[fn] = from_model(fs, f'{name}.{fn}', model)
        return build(shape, ('__obj__', shape, vals))
    if isinstance(shape, S.Fixed):
        r = [from_model(s, f'{name}.{k}', model) for k, s in enumerate(shape.shapes)]
        return r if shape.kind == 'list' else tuple(r)
    if isinstance(shape, S.SliceS):
        return slice(from_model(shape.lo, name + '.start', model), from_model(shape.hi, name + '.stop', model))
    if isinstance(shape, S.ListOf):
        v = model.get(name)
        items = [elem_from_model(shape.elem, x, model) for x in (v or {}).get('items', [])]
        return items if shape.kind == 'list' else tuple(items)
    if isinstance(shape, S.Child):
        return elem_from_model(shape, model.get(name), model)
    if isinstance(shape, S.Const):
        return shape.value
    if isinstance(shape, S.Callee):
        return (shape.natives or [lambda *a: ('applied',) + a])[0]
    return val_from_model(model.get(name))


def elem_from_model(shape, v, model):
    if isinstance(shape, S.Child):
        k = v.get('obj') if isinstance(v, dict) else v
        table, default = {}, None
        for node, ctx, val in model.get('__ev__', []):
            if node == 'else':
                default = val_from_model(val)
            elif isinstance(node, dict) and node.get('obj') == k:
                table[val_from_model(ctx)] = val_from_model(val)
        return S.FakeNode(k, table, default)
    return val_from_model(v)


def replay(c, model):
    """-> ('reproduced', detail) | ('not-reproduced', why)"""
    try:
        fn, _ = resolve_native(c)
    except Skip as e:
        return 'not-reproduced', f'no native entry: {e}'
    names = list(c.params) + list(c.closure)
    shapes = [c.params[n] if n in c.params else c.closure[n] for n in names]
    try:
        combo = [from_model(sh, n, model) for n, sh in zip(names, shapes)]
    except Exception as e:
        return 'not-reproduced', f'cannot rebuild input: {type(e).__name__}: {e}'

    class _Id:
        pass
    try:
        # values are already built: bypass build() by wrapping shapes
        env_names, env_shapes = names, [S.Const(None)] * len(names)
        st, detail = evaluate(c, fn, names, [_Pass()] * len(names), combo)
    except Skip as e:
        return 'not-reproduced', str(e)
    except Exception as e:
        return 'not-reproduced', f'replay raised {type(e).__name__}: {e}'
    if st == 'violation':
        return 'reproduced', detail
    return 'not-reproduced', f'native evaluation: {st}'


class _Pass(S.Shape):
    where = None
