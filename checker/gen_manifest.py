"""Regenerates MANIFEST.json from checker/props.py (run after changing props)."""
import json, os, sys
ROOT = os.path.dirname(os.path.dirname(os.path.abspath(__file__)))
sys.path.insert(0, ROOT)
from checker import props as P

ALL = [f'C{i:02d}' for i in range(1, 21)]
checks = []
for pid in ALL:
    if pid not in P.PROPS:
        continue
    c = P.PROPS[pid]
    checks.append({
        'property_id': pid,
        'quick_cmd': f'./check {pid} --tier quick',
        'thorough_cmd': f'./check {pid} --tier thorough',
        'evidence_file': f'evidence/{pid}.json',
        'replay_cmd_template': './check --replay {path}',
        'engine': 'pyvc',
        'level_claimed': {'category': c['level'], 'text': c['level_text'] if 'level_text' in c else c['explanation'], 'design_ref': f'DESIGN.md section 4 ({pid})'},
        'level_note': '; '.join(c.get('trusted_base', []) + c.get('assumptions', [])) or 'see evidence.trusted_base',
        'technique': c.get('technique', 'contract-based deductive verification: pre/postconditions, invariants and frames on the real functions, '
                                        'VCs generated from the ast of /repo by pyvc and discharged by z3; bounded native contract evaluation as labelled stand-in'),
    })
na = [{'property_id': pid, 'reason': P.NOT_APPLICABLE.get(pid, 'check not built yet (build order in DESIGN.md section 7); will be claimed once its obligations exist')}
      for pid in ALL if pid not in P.PROPS]
m = {
    'version': 1,
    'setup_cmd': './setup.sh',
    'hooks': {'guard': 'BEANQUERY_VERIF', 'enable': 'no source hooks: contracts are sidecar files and the verifier extracts the functions from /repo on every run; '
              'BEANQUERY_VERIF=1 is exported by ./check but read by nothing in /repo', 'baseline_off_cmd': P.BASELINE_CMD, 'source_commits': [], 'add_only': True},
    'engines': [{'name': 'pyvc', 'path': 'pyvc/', 'serves_properties': [c['property_id'] for c in checks],
                 'kind_free_text': 'self-built VC generator: Python ast of the real functions -> SMT (z3), contracts in contracts/*.py; '
                                   'native contract evaluation (checker/native_fn.py, harness/) as bounded stand-in and replay vehicle'}],
    'checks': checks,
    'notes': 'Exit codes: 0 held, 1 VIOLATION, 3 CHECKER-ERROR (never a violation). Fix commits in /repo are listed in known_findings.json.',
    'not_applicable': na,
}
json.dump(m, open(os.path.join(ROOT, 'MANIFEST.json'), 'w'), indent=1)
print('checks', len(checks), 'not_applicable', len(na))
